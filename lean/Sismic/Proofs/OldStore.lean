import Sismic.Proofs.Frame
import Sismic.Model.Py
/-!
# Sismic.Proofs.OldStore — `__old__` is the snapshot taken when the state was entered / the transition started

For the modelled `PythonEvaluator`: the store behind `__old__` (`PyCtx.old`, one entry per state /
transition) is written by `evaluate_preconditions` only.  Hence
* `enterState` / `fireTransition` leave, in the entry of their own object, the variables as they
  were when they were called (`entry_snapshot`, `start_snapshot`);
* nothing else the interpreter does during `execute_once` changes the entry of an object: it is
  the same afterwards unless the log says that the object was entered / processed meanwhile
  (`OldRel`, `old_executeOnce`).
-/
namespace Sismic
open M

variable {ω : Type}

section Assoc
variable {κ ν : Type} [BEq κ] [LawfulBEq κ]

theorem assocGet_assocSet_same' (k : κ) (v : ν) (l : List (κ × ν)) :
    assocGet k (assocSet k v l) = some v := by
  induction l with
  | nil => simp [assocSet, assocGet]
  | cons p r ih =>
    obtain ⟨k', v'⟩ := p
    unfold assocSet
    by_cases h : (k' == k) = true
    · simp [h, assocGet]
    · simp only [h, Bool.false_eq_true, if_false]
      unfold assocGet at ih ⊢
      simp only [List.find?_cons, h]
      exact ih

theorem assocGet_assocSet_other' (k k2 : κ) (v : ν) (l : List (κ × ν)) (hne : k2 ≠ k) :
    assocGet k2 (assocSet k v l) = assocGet k2 l := by
  induction l with
  | nil =>
    have : (k == k2) = false := by simp [Ne.symm hne]
    simp [assocSet, assocGet, this]
  | cons p r ih =>
    obtain ⟨k', v'⟩ := p
    unfold assocSet
    by_cases h : (k' == k) = true
    · have hk : k' = k := by simpa using h
      have h1 : (k == k2) = false := by simp [Ne.symm hne]
      have h2 : (k' == k2) = false := by rw [hk]; exact h1
      simp [h, assocGet, h1, h2]
    · simp only [h, Bool.false_eq_true, if_false]
      unfold assocGet at ih ⊢
      simp only [List.find?_cons]
      split
      · rfl
      · exact ih
end Assoc

/-- what the log shows when the object `k` is entered (a state) / processed (a transition):
    the evaluation of one of its preconditions, its entry code / action — for a transition also the
    invariants evaluated before its action -/
def marks (k : ObjId) : Effect → Bool
  | .onEntry n => k == .state n
  | .action id _ => k == .trans id
  | .cond kind o _ _ _ => o == k && (kind == .pre || (match k with | .trans _ => true | .state _ => false))
  | _ => false

/-- the log grew, and the `__old__` entry of `k` is what it was unless the log says that `k` was
    entered / processed meanwhile -/
def OldRel (k : ObjId) (rs rs' : RS PyCtx ω) : Prop :=
  ∃ l, rs'.eff = rs.eff ++ l ∧
    (l.any (marks k) = false → assocGet k rs'.st.ctx.old = assocGet k rs.st.ctx.old)

theorem OldRel_pre (k : ObjId) : PreOrd (OldRel k : RS PyCtx ω → RS PyCtx ω → Prop) where
  refl a := ⟨[], by simp, fun _ => rfl⟩
  trans a b c h1 h2 := by
    obtain ⟨l1, e1, o1⟩ := h1
    obtain ⟨l2, e2, o2⟩ := h2
    refine ⟨l1 ++ l2, by rw [e2, e1, List.append_assoc], fun h => ?_⟩
    rw [List.any_append, Bool.or_eq_false_iff] at h
    rw [o2 h.2, o1 h.1]

/-- the log grew by entries that mark `k` -/
def Marked (k : ObjId) (rs rs' : RS PyCtx ω) : Prop :=
  ∃ l, rs'.eff = rs.eff ++ l ∧ l.any (marks k) = true

theorem Marked.toOldRel {k : ObjId} {rs rs' : RS PyCtx ω} (h : Marked k rs rs') : OldRel k rs rs' := by
  obtain ⟨l, e, m⟩ := h
  exact ⟨l, e, fun h' => by rw [m] at h'; cases h'⟩

theorem Marked.then {k : ObjId} {a b c : RS PyCtx ω} (h : Marked k a b) (h2 : OldRel k b c) : Marked k a c := by
  obtain ⟨l, e, m⟩ := h
  obtain ⟨l2, e2, _⟩ := h2
  exact ⟨l ++ l2, by rw [e2, e, List.append_assoc], by rw [List.any_append, m]; rfl⟩

theorem OldRel.thenMarked {k : ObjId} {a b c : RS PyCtx ω} (h : OldRel k a b) (h2 : Marked k b c) : Marked k a c := by
  obtain ⟨l, e, _⟩ := h
  obtain ⟨l2, e2, m⟩ := h2
  exact ⟨l ++ l2, by rw [e2, e, List.append_assoc], by rw [List.any_append, m]; simp⟩

/-! ### the primitive steps -/

theorem old_modify (k : ObjId) (f : IState PyCtx → IState PyCtx) (h : ∀ st, (f st).ctx.old = st.ctx.old) :
    Rel (OldRel k) (M.modify f : M PyCtx ω Unit) := by
  intro rs
  exact ⟨[], by simp [M.modify], fun _ => by simp [M.modify, h]⟩

theorem old_emit (k : ObjId) (e : Effect) : Rel (OldRel k) (M.emit e : M PyCtx ω Unit) := by
  intro rs
  exact ⟨[e], rfl, fun _ => rfl⟩

variable (env : Env PyCtx ω)

theorem callListener_ctx (m : Event) (l : Nat) (rs : RS PyCtx ω) :
    (callListener env m l rs).2.st.ctx = rs.st.ctx ∧ (callListener env m l rs).2.eff = rs.eff := by
  have h : ∀ (qs : List Event) (st : IState PyCtx),
      (qs.foldl (fun st e => { st with extQ := queueInsert (st.time + e.delay) e st.extQ }) st).ctx = st.ctx := by
    intro qs
    induction qs with
    | nil => intro st; rfl
    | cons q qs ih => intro st; simp only [List.foldl_cons]; rw [ih]
  unfold callListener
  exact ⟨h _ _, rfl⟩

theorem old_callListener (k : ObjId) (m : Event) (l : Nat) : Rel (OldRel k) (callListener env m l) := by
  intro rs
  have := callListener_ctx env m l rs
  exact ⟨[], by simp [this.2], fun _ => by rw [this.1]⟩

theorem old_raiseMeta (k : ObjId) (m : Event) : Rel (OldRel k) (raiseMeta env m) := by
  unfold raiseMeta
  apply Rel.bind (OldRel_pre k) (old_emit k _)
  intro _
  apply Rel.bind (OldRel_pre k) (Rel.get (OldRel_pre k))
  intro st
  exact Rel.forEach (OldRel_pre k) (old_callListener env k m) _

syntax "old_auto" : tactic
macro_rules
  | `(tactic| old_auto) => `(tactic| repeat (first
      | apply Rel.bind (OldRel_pre _)
      | apply Rel.pure (OldRel_pre _)
      | apply Rel.throw (OldRel_pre _)
      | apply Rel.get (OldRel_pre _)
      | apply Rel.forEach (OldRel_pre _)
      | apply old_emit
      | apply old_raiseMeta
      | (apply old_modify; intro st; rfl)
      | assumption
      | intro _
      | split))

theorem old_queueEvent (k : ObjId) (i : Bool) (e : Event) : Rel (OldRel k) (queueEvent (σ := PyCtx) (ω := ω) i e) := by
  unfold queueEvent
  apply old_modify
  intro st
  split <;> rfl

theorem old_raiseSent (k : ObjId) (s : Sent) : Rel (OldRel k) (raiseSent env s) := by
  cases s with
  | notify m => exact old_raiseMeta env k m
  | «internal» e =>
    unfold raiseSent
    apply Rel.bind (OldRel_pre k) (old_queueEvent k true e)
    intro _
    apply Rel.bind (OldRel_pre k) (old_raiseMeta env k _)
    intro _
    split
    · exact old_raiseMeta env k _
    · exact Rel.pure (OldRel_pre k) ()

theorem old_raiseAll (k : ObjId) (sent : List Sent) : Rel (OldRel k) (raiseAll env sent) := by
  unfold raiseAll
  apply Rel.forEach (OldRel_pre k)
  intro s
  apply Rel.bind (OldRel_pre k) (old_raiseSent env k s)
  intro _
  apply old_modify; intro st; rfl

theorem old_evalConds (k : ObjId) (kind : CondKind) (obj : Obj) (ev : Option Event) :
    ∀ (codes : List Code) (i : Nat), Rel (OldRel k) (evalConds env kind obj ev i codes)
  | [], _ => Rel.pure (OldRel_pre k) ()
  | c :: rest, i => by
    unfold evalConds
    apply Rel.bind (OldRel_pre k) (Rel.get (OldRel_pre k))
    intro st
    apply Rel.bind (OldRel_pre k) (old_emit k _)
    intro _
    split
    · exact Rel.throw (OldRel_pre k) _
    · exact Rel.throw (OldRel_pre k) _
    · exact old_evalConds k kind obj ev rest (i + 1)

/-- evaluating conditions of another object, or conditions that are not preconditions, leaves the
    entry of `k` alone -/
theorem old_evalContract (hE : env.E = pyEvaluator) (k : ObjId) (kind : CondKind) (obj : Obj) (ev : Option Event)
    (h : kind ≠ .pre ∨ obj.id ≠ k) : Rel (OldRel k) (evalContract env kind obj ev) := by
  unfold evalContract
  split
  · exact Rel.pure (OldRel_pre k) ()
  · apply Rel.bind (OldRel_pre k)
    · split
      · next hc =>
        rcases h with h | h
        · exfalso
          simp only [Bool.and_eq_true, beq_iff_eq] at hc
          exact h hc.1
        · intro rs
          refine ⟨[], by simp [M.modify], fun _ => ?_⟩
          simp only [M.modify, hE, pyEvaluator, pyFreeze]
          exact assocGet_assocSet_other' obj.id k _ _ (Ne.symm h)
      · exact Rel.pure (OldRel_pre k) ()
    · intro _
      exact old_evalConds env k kind obj ev _ 0

theorem pyExec_old (st : IState PyCtx) (x : ExecKind) (ev : Option Event) :
    (pyExec st x ev).1.old = st.ctx.old := by
  unfold pyExec
  cases x <;> dsimp only <;> split <;> first | rfl | (split <;> rfl)

theorem runCode_state (x : ExecKind) (ev : Option Event) (rs : RS PyCtx ω) :
    (runCode env x ev rs).2 = { rs with st := { rs.st with ctx := (env.E.exec rs.st x ev).1 } } := by
  unfold runCode
  simp only [M.bind, M.get, M.modify]
  cases (env.E.exec rs.st x ev).2 <;> rfl

theorem old_runCode (hE : env.E = pyEvaluator) (k : ObjId) (x : ExecKind) (ev : Option Event) :
    Rel (OldRel k) (runCode env x ev) := by
  intro rs
  rw [runCode_state]
  refine ⟨[], by simp, fun _ => ?_⟩
  show assocGet k (env.E.exec rs.st x ev).1.old = _
  rw [hE]
  show assocGet k (pyExec rs.st x ev).1.old = _
  rw [pyExec_old]

theorem old_stateObj (k : ObjId) (n : Name) : Rel (OldRel k) (stateObj env n) := by
  unfold stateObj
  split
  · exact Rel.pure (OldRel_pre k) _
  · exact Rel.throw (OldRel_pre k) _

theorem old_stateObjs (k : ObjId) : ∀ ns : List Name, Rel (OldRel k) (stateObjs env ns)
  | [] => Rel.pure (OldRel_pre k) _
  | n :: ns => by
    unfold stateObjs
    apply Rel.bind (OldRel_pre k) (old_stateObj env k n)
    intro s
    apply Rel.bind (OldRel_pre k) (old_stateObjs k ns)
    intro ss
    exact Rel.pure (OldRel_pre k) _

theorem old_saveMemory (k : ObjId) (cfg0 : List Name) (s : StateDef) : ∀ chs : List Name,
    Rel (OldRel k) (saveMemory env cfg0 s chs)
  | [] => Rel.pure (OldRel_pre k) ()
  | ch :: rest => by
    unfold saveMemory
    split
    · exact Rel.throw (OldRel_pre k) _
    · exact old_saveMemory k cfg0 s rest
    · apply Rel.bind (OldRel_pre k)
      · apply old_modify; intro st; rfl
      · intro _; exact old_saveMemory k cfg0 s rest

theorem old_exitState (hE : env.E = pyEvaluator) (k : ObjId) (cfg0 : List Name) (step : Micro) (s : StateDef) :
    Rel (OldRel k) (exitState env cfg0 step s) := by
  unfold exitState
  apply Rel.bind (OldRel_pre k) (old_emit k _); intro _
  apply Rel.bind (OldRel_pre k) (old_runCode env hE k _ _); intro sent
  apply Rel.bind (OldRel_pre k)
  · split
    · exact old_saveMemory env k cfg0 s _
    · exact Rel.pure (OldRel_pre k) ()
  intro _
  apply Rel.bind (OldRel_pre k) (Rel.get (OldRel_pre k)); intro st
  apply Rel.bind (OldRel_pre k)
  · split
    · exact Rel.throw (OldRel_pre k) _
    · exact Rel.pure (OldRel_pre k) ()
  intro _
  apply Rel.bind (OldRel_pre k)
  · apply old_modify; intro st; rfl
  intro _
  apply Rel.bind (OldRel_pre k) (old_evalContract env hE k .post (.state s) step.event (Or.inl (by decide))); intro _
  apply Rel.bind (OldRel_pre k) (old_raiseMeta env k _); intro _
  exact Rel.pure (OldRel_pre k) _

/-! ### entering a state, processing a transition: the object's own entry -/

theorem evalConds_error_marked (kind : CondKind) (obj : Obj) (ev : Option Event) :
    ∀ (codes : List Code) (i : Nat) (rs rs' : RS PyCtx ω) (e : Err),
      evalConds env kind obj ev i codes rs = (.error e, rs') →
      ∃ l, rs'.eff = rs.eff ++ l ∧ ∃ j r, Effect.cond kind obj.id j ev r ∈ l
  | [], _, rs, rs', e, h => by simp [evalConds, M.pure] at h
  | c :: rest, i, rs, rs', e, h => by
    unfold evalConds at h
    simp only [M.bind, M.get, M.emit] at h
    cases hr : env.E.cond rs.st kind obj c ev with
    | none =>
      simp only [hr, M.throw, Prod.mk.injEq] at h
      exact ⟨[Effect.cond kind obj.id i ev none], by rw [← h.2], i, none, by simp⟩
    | some b =>
      cases b with
      | false =>
        simp only [hr, M.throw, Prod.mk.injEq] at h
        exact ⟨[Effect.cond kind obj.id i ev (some false)], by rw [← h.2], i, some false, by simp⟩
      | true =>
        simp only [hr] at h
        obtain ⟨l, hl, j, r, hm⟩ := evalConds_error_marked kind obj ev rest (i + 1) _ rs' e h
        exact ⟨Effect.cond kind obj.id i ev (some true) :: l, by rw [hl]; simp, j, r, by simp [hm]⟩

theorem ext_evalContract (kind : CondKind) (obj : Obj) (ev : Option Event) (rs : RS PyCtx ω) :
    ∃ l, (evalContract env kind obj ev rs).2.eff = rs.eff ++ l :=
  ((RT_respects env).contract kind obj ev rs).2.2

/-- when the evaluation of the preconditions of `obj` raises, the log shows one of them -/
theorem evalContract_error_marked (kind : CondKind) (obj : Obj) (ev : Option Event) (rs rs' : RS PyCtx ω) (e : Err)
    (h : evalContract env kind obj ev rs = (.error e, rs')) :
    ∃ l, rs'.eff = rs.eff ++ l ∧ ∃ j r, Effect.cond kind obj.id j ev r ∈ l := by
  unfold evalContract at h
  split at h
  · simp [M.pure] at h
  · simp only [M.bind] at h
    split at h
    · next u rs1 heq =>
      have hlog : rs1.eff = rs.eff := by
        split at heq
        · simp only [M.modify, Prod.mk.injEq] at heq; rw [← heq.2]
        · simp only [M.pure, Prod.mk.injEq] at heq; rw [← heq.2]
      obtain ⟨l, hl, hm⟩ := evalConds_error_marked env kind obj ev _ 0 rs1 rs' e h
      exact ⟨l, by rw [hl, hlog], hm⟩
    · next e' rs1 heq =>
      split at heq
      · simp [M.modify] at heq
      · simp [M.pure] at heq

theorem marks_cond_pre (obj : Obj) (j : Nat) (ev : Option Event) (r : Option Bool) :
    marks obj.id (.cond .pre obj.id j ev r) = true := by
  simp [marks]

theorem marks_cond_trans (t : Trans) (kind : CondKind) (j : Nat) (ev : Option Event) (r : Option Bool) :
    marks (.trans t.id) (.cond kind (.trans t.id) j ev r) = true := by
  simp [marks]

/-- the rest of `enterState`, after the preconditions -/
theorem old_enterState (hE : env.E = pyEvaluator) (k : ObjId) (step : Micro) (s : StateDef) :
    Rel (OldRel k) (enterState env step s) := by
  by_cases hk : k = .state s.name
  · -- its own entry: the log shows it
    subst hk
    intro rs
    apply Marked.toOldRel
    unfold enterState
    simp only [M.bind]
    split
    · next u rs1 heq =>
      have h1 : ∃ l, rs1.eff = rs.eff ++ l := by
        have := ext_evalContract env .pre (.state s) step.event rs
        rw [heq] at this; exact this
      obtain ⟨l1, hl1⟩ := h1
      -- emit, then the rest
      have hrest : OldRel (.state s.name) ({ rs1 with eff := rs1.eff ++ [.onEntry s.name] } : RS PyCtx ω)
          ((M.bind (runCode env (.onEntry s) none) (fun sent =>
            M.bind (M.modify (fun st => { st with
              config := if st.config.contains s.name then st.config else st.config ++ [s.name],
              entryTime := assocSet s.name st.time st.entryTime,
              idleTime := assocSet s.name st.time st.idleTime })) (fun _ =>
            M.bind (raiseMeta env { name := "state entered", data := [("state", .str s.name)] }) (fun _ =>
            M.pure sent)))) { rs1 with eff := rs1.eff ++ [.onEntry s.name] }).2 := by
        have : Rel (OldRel (.state s.name)) (M.bind (runCode env (.onEntry s) none) (fun sent =>
            M.bind (M.modify (fun st => { st with
              config := if st.config.contains s.name then st.config else st.config ++ [s.name],
              entryTime := assocSet s.name st.time st.entryTime,
              idleTime := assocSet s.name st.time st.idleTime })) (fun _ =>
            M.bind (raiseMeta env { name := "state entered", data := [("state", .str s.name)] }) (fun _ =>
            M.pure sent)))) := by
          apply Rel.bind (OldRel_pre _) (old_runCode env hE _ _ _); intro sent
          apply Rel.bind (OldRel_pre _)
          · apply old_modify; intro st; rfl
          intro _
          apply Rel.bind (OldRel_pre _) (old_raiseMeta env _ _); intro _
          exact Rel.pure (OldRel_pre _) _
        exact this _
      have hm : Marked (.state s.name) rs ({ rs1 with eff := rs1.eff ++ [.onEntry s.name] } : RS PyCtx ω) :=
        ⟨l1 ++ [.onEntry s.name], by simp [hl1], by simp [marks]⟩
      exact hm.then hrest
    · next e rs1 heq =>
      obtain ⟨l, hl, j, r, hm⟩ := evalContract_error_marked env .pre (.state s) step.event rs rs1 e heq
      exact ⟨l, hl, List.any_eq_true.2 ⟨_, hm, marks_cond_pre (.state s) j _ r⟩⟩
  · unfold enterState
    apply Rel.bind (OldRel_pre k) (old_evalContract env hE k .pre (.state s) step.event (Or.inr (fun h => hk h.symm))); intro _
    apply Rel.bind (OldRel_pre k) (old_emit k _); intro _
    apply Rel.bind (OldRel_pre k) (old_runCode env hE k _ _); intro sent
    apply Rel.bind (OldRel_pre k)
    · apply old_modify; intro st; rfl
    intro _
    apply Rel.bind (OldRel_pre k) (old_raiseMeta env k _); intro _
    exact Rel.pure (OldRel_pre k) _

theorem old_fireTransition (hE : env.E = pyEvaluator) (k : ObjId) (step : Micro) (t : Trans) :
    Rel (OldRel k) (fireTransition env step t) := by
  by_cases hk : k = .trans t.id
  · subst hk
    intro rs
    apply Marked.toOldRel
    unfold fireTransition
    simp only [M.bind]
    split
    · next u rs1 heq =>
      obtain ⟨l1, hl1⟩ : ∃ l, rs1.eff = rs.eff ++ l := by
        have := ext_evalContract env .pre (.trans t) step.event rs
        rw [heq] at this; exact this
      split
      · next u2 rs2 heq2 =>
        obtain ⟨l2, hl2⟩ : ∃ l, rs2.eff = rs1.eff ++ l := by
          have := ext_evalContract env .inv (.trans t) step.event rs1
          rw [heq2] at this; exact this
        have hm : Marked (.trans t.id) rs ({ rs2 with eff := rs2.eff ++ [.action t.id step.event] } : RS PyCtx ω) :=
          ⟨l1 ++ l2 ++ [.action t.id step.event], by simp [hl1, hl2], by simp [marks]⟩
        refine hm.then ?_
        have : Rel (OldRel (.trans t.id)) (M.bind (runCode env (.action t) step.event) (fun sent =>
            M.bind (evalContract env .post (.trans t) step.event) (fun _ =>
            M.bind (evalContract env .inv (.trans t) step.event) (fun _ =>
            M.bind (M.modify (fun st => { st with idleTime := assocSet t.source st.time st.idleTime })) (fun _ =>
            M.bind (raiseMeta env { name := "transition processed",
                                    data := [("source", .str t.source), ("target", optNameVal t.target),
                                             ("event", optEventVal step.event)] }) (fun _ =>
            M.pure sent)))))) := by
          apply Rel.bind (OldRel_pre _) (old_runCode env hE _ _ _); intro sent
          apply Rel.bind (OldRel_pre _) (old_evalContract env hE _ .post (.trans t) step.event (Or.inl (by decide))); intro _
          apply Rel.bind (OldRel_pre _) (old_evalContract env hE _ .inv (.trans t) step.event (Or.inl (by decide))); intro _
          apply Rel.bind (OldRel_pre _)
          · apply old_modify; intro st; rfl
          intro _
          apply Rel.bind (OldRel_pre _) (old_raiseMeta env _ _); intro _
          exact Rel.pure (OldRel_pre _) _
        exact this _
      · next e rs2 heq2 =>
        obtain ⟨l, hl, j, r, hm⟩ := evalContract_error_marked env .inv (.trans t) step.event rs1 rs2 e heq2
        exact ⟨l1 ++ l, by rw [hl, hl1, List.append_assoc],
          by rw [List.any_append, List.any_eq_true.2 ⟨_, hm, marks_cond_trans t .inv j _ r⟩]; simp⟩
    · next e rs1 heq =>
      obtain ⟨l, hl, j, r, hm⟩ := evalContract_error_marked env .pre (.trans t) step.event rs rs1 e heq
      exact ⟨l, hl, List.any_eq_true.2 ⟨_, hm, marks_cond_trans t .pre j _ r⟩⟩
  · have hne : (Obj.trans t).id ≠ k := fun h => hk h.symm
    unfold fireTransition
    apply Rel.bind (OldRel_pre k) (old_evalContract env hE k .pre (.trans t) step.event (Or.inr hne)); intro _
    apply Rel.bind (OldRel_pre k) (old_evalContract env hE k .inv (.trans t) step.event (Or.inr hne)); intro _
    apply Rel.bind (OldRel_pre k) (old_emit k _); intro _
    apply Rel.bind (OldRel_pre k) (old_runCode env hE k _ _); intro sent
    apply Rel.bind (OldRel_pre k) (old_evalContract env hE k .post (.trans t) step.event (Or.inr hne)); intro _
    apply Rel.bind (OldRel_pre k) (old_evalContract env hE k .inv (.trans t) step.event (Or.inr hne)); intro _
    apply Rel.bind (OldRel_pre k)
    · apply old_modify; intro st; rfl
    intro _
    apply Rel.bind (OldRel_pre k) (old_raiseMeta env k _); intro _
    exact Rel.pure (OldRel_pre k) _

theorem old_collect {γ : Type} (k : ObjId) (f : γ → M PyCtx ω (List Sent)) (hf : ∀ x, Rel (OldRel k) (f x)) :
    ∀ l : List γ, Rel (OldRel k) (collect f l)
  | [] => Rel.pure (OldRel_pre k) _
  | x :: xs => by
    unfold collect
    apply Rel.bind (OldRel_pre k) (hf x); intro a
    apply Rel.bind (OldRel_pre k) (old_collect k f hf xs); intro b
    exact Rel.pure (OldRel_pre k) _

theorem old_applyStep (hE : env.E = pyEvaluator) (k : ObjId) (step : Micro) : Rel (OldRel k) (applyStep env step) := by
  unfold applyStep
  apply Rel.bind (OldRel_pre k) (old_stateObjs env k _); intro entered
  apply Rel.bind (OldRel_pre k) (old_stateObjs env k _); intro exited
  apply Rel.bind (OldRel_pre k) (Rel.get (OldRel_pre k)); intro st0
  apply Rel.bind (OldRel_pre k) (old_collect k _ (fun s => old_exitState env hE k _ step s) _); intro s1
  apply Rel.bind (OldRel_pre k)
  · split
    · exact old_fireTransition env hE k step _
    · exact Rel.pure (OldRel_pre k) _
  intro s2
  apply Rel.bind (OldRel_pre k) (old_collect k _ (fun s => old_enterState env hE k step s) _); intro s3
  apply Rel.bind (OldRel_pre k) (old_raiseAll env k _); intro _
  exact Rel.pure (OldRel_pre k) _

theorem old_stabilize (hE : env.E = pyEvaluator) (k : ObjId) : ∀ n : Nat, Rel (OldRel k) (stabilize env n)
  | 0 => Rel.throw (OldRel_pre k) _
  | n+1 => by
    unfold stabilize
    apply Rel.bind (OldRel_pre k) (Rel.get (OldRel_pre k)); intro st
    split
    · exact Rel.pure (OldRel_pre k) _
    · apply Rel.bind (OldRel_pre k) (old_applyStep env hE k _); intro a
      apply Rel.bind (OldRel_pre k) (old_stabilize hE k n); intro rest
      exact Rel.pure (OldRel_pre k) _

theorem old_logGuards (k : ObjId) (st : IState PyCtx) (ev : Option Event) :
    ∀ l : List (Trans × Bool), Rel (OldRel k) (logGuards env st ev l)
  | [] => Rel.pure (OldRel_pre k) ()
  | (t, exposed) :: rest => by
    unfold logGuards
    apply Rel.bind (OldRel_pre k) (old_emit k _); intro _
    split
    · exact Rel.throw (OldRel_pre k) _
    · exact old_logGuards k st ev rest

theorem old_applyAll (hE : env.E = pyEvaluator) (k : ObjId) : ∀ l : List Micro, Rel (OldRel k) (applyAll env l)
  | [] => Rel.pure (OldRel_pre k) _
  | s :: rest => by
    unfold applyAll
    apply Rel.bind (OldRel_pre k) (old_applyStep env hE k s); intro a
    apply Rel.bind (OldRel_pre k) (old_stabilize env hE k _); intro stab
    apply Rel.bind (OldRel_pre k) (old_applyAll hE k rest); intro more
    exact Rel.pure (OldRel_pre k) _

theorem old_computeSteps (k : ObjId) : Rel (OldRel k) (computeSteps env) := by
  unfold computeSteps
  apply Rel.bind (OldRel_pre k) (Rel.get (OldRel_pre k)); intro st
  split
  · apply Rel.bind (OldRel_pre k)
    · apply old_modify; intro st; rfl
    intro _; exact Rel.pure (OldRel_pre k) _
  · apply Rel.bind (OldRel_pre k) (old_logGuards env k st _ _); intro _
    split
    · split
      · exact Rel.pure (OldRel_pre k) _
      · exact Rel.pure (OldRel_pre k) _
    · split
      · exact Rel.throw (OldRel_pre k) _
      · exact Rel.throw (OldRel_pre k) _
      · exact Rel.pure (OldRel_pre k) _

theorem old_finishStep (hE : env.E = pyEvaluator) (k : ObjId) (ms : Option MacroStep) :
    Rel (OldRel k) (finishStep env ms) := by
  unfold finishStep
  apply Rel.bind (OldRel_pre k) (Rel.get (OldRel_pre k)); intro st
  apply Rel.bind (OldRel_pre k)
  · apply Rel.forEach (OldRel_pre k)
    intro n
    apply Rel.bind (OldRel_pre k) (old_stateObj env k n); intro s
    exact old_evalContract env hE k .inv (.state s) _ (Or.inl (by decide))
  intro _
  apply Rel.bind (OldRel_pre k) (old_raiseMeta env k _); intro _
  exact Rel.pure (OldRel_pre k) _

theorem popEvent_ctx_py (st : IState PyCtx) : (popEvent st).2.ctx = st.ctx := by
  unfold popEvent
  split
  · split
    · rfl
    · split
      · split <;> rfl
      · rfl
  · split
    · split <;> rfl
    · rfl

theorem old_runSteps (hE : env.E = pyEvaluator) (k : ObjId) (computed : List Micro) :
    Rel (OldRel k) (runSteps env computed) := by
  unfold runSteps
  split
  · exact Rel.pure (OldRel_pre k) _
  · apply Rel.bind (OldRel_pre k)
    · split
      · apply Rel.bind (OldRel_pre k) (Rel.get (OldRel_pre k)); intro st
        apply Rel.bind (OldRel_pre k)
        · apply old_modify; intro st'; rw [popEvent_ctx_py]
        intro _; exact old_raiseMeta env k _
      · exact Rel.pure (OldRel_pre k) _
    intro _
    apply Rel.bind (OldRel_pre k) (old_applyAll env hE k _); intro executed
    apply Rel.bind (OldRel_pre k) (Rel.get (OldRel_pre k)); intro st
    exact Rel.pure (OldRel_pre k) _

/-- **Nothing but entering a state / processing a transition changes its `__old__` entry**, whatever
    the outcome of `execute_once`. -/
theorem old_executeOnce (hE : env.E = pyEvaluator) (k : ObjId) (clock : Int) :
    Rel (OldRel k) (executeOnce env clock) := by
  unfold executeOnce
  apply Rel.bind (OldRel_pre k)
  · apply old_modify; intro st; rfl
  intro _
  apply Rel.bind (OldRel_pre k) (old_raiseMeta env k _); intro _
  apply Rel.bind (OldRel_pre k) (old_computeSteps env k); intro computed
  apply Rel.bind (OldRel_pre k) (old_runSteps env hE k computed); intro ms
  exact old_finishStep env hE k ms

/-! ### what the entry holds: the variables at the entry / the start -/

theorem evalConds_st (kind : CondKind) (obj : Obj) (ev : Option Event) :
    ∀ (codes : List Code) (i : Nat) (rs : RS PyCtx ω), (evalConds env kind obj ev i codes rs).2.st = rs.st
  | [], _, _ => rfl
  | c :: rest, i, rs => by
    unfold evalConds
    simp only [M.bind, M.get, M.emit]
    cases env.E.cond rs.st kind obj c ev with
    | none => rfl
    | some b =>
      cases b with
      | false => rfl
      | true => exact evalConds_st kind obj ev rest (i + 1) _

/-- conditions that are not preconditions are evaluated without touching the interpreter's state -/
theorem evalContract_st (kind : CondKind) (hk : kind ≠ .pre) (obj : Obj) (ev : Option Event) (rs : RS PyCtx ω) :
    (evalContract env kind obj ev rs).2.st = rs.st := by
  unfold evalContract
  split
  · rfl
  · have : (kind == CondKind.pre && (!(obj.conds .inv).isEmpty || !(obj.conds .post).isEmpty)) = false := by
      cases kind <;> simp_all
    simp only [this, Bool.false_eq_true, if_false, M.bind, M.pure]
    exact evalConds_st env kind obj ev _ 0 _

/-- … and the preconditions of an object that has postconditions or invariants are evaluated after
    its `__old__` entry was set to the variables as they are -/
theorem evalContract_pre_st (hE : env.E = pyEvaluator) (hc : env.ignoreContract = false) (obj : Obj)
    (hobj : (!(obj.conds .inv).isEmpty || !(obj.conds .post).isEmpty) = true) (ev : Option Event) (rs : RS PyCtx ω) :
    (evalContract env .pre obj ev rs).2.st = { rs.st with ctx := pyFreeze rs.st.ctx obj } := by
  unfold evalContract
  simp only [hc, Bool.false_eq_true, if_false, hobj, beq_self_eq_true, Bool.and_self, if_true, M.bind, M.modify]
  rw [evalConds_st]
  simp only [hE, pyEvaluator]

theorem raiseMeta_ctx (m : Event) (rs : RS PyCtx ω) : (raiseMeta env m rs).2.st.ctx = rs.st.ctx := by
  unfold raiseMeta
  simp only [M.bind, M.emit, M.get]
  have : ∀ (ls : List Nat) (rs : RS PyCtx ω), (M.forEach (callListener env m) ls rs).2.st.ctx = rs.st.ctx := by
    intro ls
    induction ls with
    | nil => intro rs; rfl
    | cons l ls ih =>
      intro rs
      simp only [M.forEach, M.bind]
      have h1 := (callListener_ctx env m l rs).1
      split
      · next a rs' heq => rw [ih rs']; rw [heq] at h1; exact h1
      · next e rs' heq => rw [heq] at h1; exact h1
  exact this _ _

theorem pyFreeze_old (ctx : PyCtx) (obj : Obj) : assocGet obj.id (pyFreeze ctx obj).old = some ctx.vars := by
  simp only [pyFreeze]
  exact assocGet_assocSet_same' _ _ _

theorem pyFreeze_vars (ctx : PyCtx) (obj : Obj) : (pyFreeze ctx obj).vars = ctx.vars := rfl

/-- **A transition's `__old__` is the variables at its start**: when `fireTransition` returns, the
    entry of the transition holds the variables as they were when it was called — the
    postconditions and invariants evaluated after the action were shown exactly those (they do
    not touch the state, `evalContract_st`). -/
theorem start_snapshot (hE : env.E = pyEvaluator) (hc : env.ignoreContract = false) (step : Micro) (t : Trans)
    (ht : (!t.inv.isEmpty || !t.post.isEmpty) = true) (rs rs' : RS PyCtx ω) (sent : List Sent)
    (h : fireTransition env step t rs = (.ok sent, rs')) :
    assocGet (.trans t.id) rs'.st.ctx.old = some rs.st.ctx.vars := by
  unfold fireTransition at h
  obtain ⟨_, r1, h1, h⟩ := bind_ok.1 h
  obtain ⟨_, r2, h2, h⟩ := bind_ok.1 h
  obtain ⟨_, r3, h3, h⟩ := bind_ok.1 h
  obtain ⟨s4, r4, h4, h⟩ := bind_ok.1 h
  obtain ⟨_, r5, h5, h⟩ := bind_ok.1 h
  obtain ⟨_, r6, h6, h⟩ := bind_ok.1 h
  obtain ⟨_, r7, h7, h⟩ := bind_ok.1 h
  obtain ⟨_, r8, h8, h⟩ := bind_ok.1 h
  obtain ⟨_, rfl⟩ := pure_ok.1 h
  have e1 : r1.st = { rs.st with ctx := pyFreeze rs.st.ctx (.trans t) } := by
    have := evalContract_pre_st env hE hc (.trans t) ht step.event rs
    rw [h1] at this; exact this
  have e2 : r2.st = r1.st := by
    have := evalContract_st env .inv (by decide) (.trans t) step.event r1
    rw [h2] at this; exact this
  have e3 : r3.st = r2.st := by
    rw [emit_ok.1 h3]
  have e4 : r4.st.ctx.old = r3.st.ctx.old := by
    have := runCode_state env (.action t) step.event r3
    rw [h4] at this
    have this' : r4 = { r3 with st := { r3.st with ctx := (env.E.exec r3.st (.action t) step.event).1 } } := this
    rw [this']
    show (env.E.exec r3.st (.action t) step.event).1.old = _
    rw [hE]; exact pyExec_old _ _ _
  have e5 : r5.st = r4.st := by
    have := evalContract_st env .post (by decide) (.trans t) step.event r4
    rw [h5] at this; exact this
  have e6 : r6.st = r5.st := by
    have := evalContract_st env .inv (by decide) (.trans t) step.event r5
    rw [h6] at this; exact this
  have e7 : r7.st.ctx = r6.st.ctx := by
    rw [modify_ok.1 h7]
  have e8 : r8.st.ctx = r7.st.ctx := by
    have := congrArg (fun p => p.2.st.ctx) h8
    simp only at this
    rw [raiseMeta_ctx] at this
    exact this.symm
  rw [e8, e7, e6, e5, e4, e3, e2, e1]
  exact pyFreeze_old rs.st.ctx (.trans t)

/-- **A state's `__old__` is the variables at its entry**: when `enterState` returns, the entry of
    the state holds the variables as they were when it was called (before its entry code ran). -/
theorem entry_snapshot (hE : env.E = pyEvaluator) (hc : env.ignoreContract = false) (step : Micro) (s : StateDef)
    (hs : (!s.inv.isEmpty || !s.post.isEmpty) = true) (rs rs' : RS PyCtx ω) (sent : List Sent)
    (h : enterState env step s rs = (.ok sent, rs')) :
    assocGet (.state s.name) rs'.st.ctx.old = some rs.st.ctx.vars := by
  unfold enterState at h
  obtain ⟨_, r1, h1, h⟩ := bind_ok.1 h
  obtain ⟨_, r2, h2, h⟩ := bind_ok.1 h
  obtain ⟨s3, r3, h3, h⟩ := bind_ok.1 h
  obtain ⟨_, r4, h4, h⟩ := bind_ok.1 h
  obtain ⟨_, r5, h5, h⟩ := bind_ok.1 h
  obtain ⟨_, rfl⟩ := pure_ok.1 h
  have e1 : r1.st = { rs.st with ctx := pyFreeze rs.st.ctx (.state s) } := by
    have := evalContract_pre_st env hE hc (.state s) hs step.event rs
    rw [h1] at this; exact this
  have e2 : r2.st = r1.st := by rw [emit_ok.1 h2]
  have e3 : r3.st.ctx.old = r2.st.ctx.old := by
    have := runCode_state env (.onEntry s) none r2
    rw [h3] at this
    have this' : r3 = { r2 with st := { r2.st with ctx := (env.E.exec r2.st (.onEntry s) none).1 } } := this
    rw [this']
    show (env.E.exec r2.st (.onEntry s) none).1.old = _
    rw [hE]; exact pyExec_old _ _ _
  have e4 : r4.st.ctx = r3.st.ctx := by rw [modify_ok.1 h4]
  have e5 : r5.st.ctx = r4.st.ctx := by
    have := congrArg (fun p => p.2.st.ctx) h5
    simp only at this
    rw [raiseMeta_ctx] at this
    exact this.symm
  rw [e5, e4, e3, e2, e1]
  exact pyFreeze_old rs.st.ctx (.state s)

/-- what a postcondition or an invariant is shown as `__old__` is the entry of its object in the store -/
theorem shown_old_is_the_entry (st : IState PyCtx) (kind : CondKind) (hk : kind ≠ .pre) (obj : Obj) (code : Code)
    (ev : Option Event) :
    pyCond st kind obj code ev =
      pyEval { viewEnv st with
        event := some ev, sentNames := some (sentNames st), received := some (ev.map (·.name)),
        old := some (match assocGet obj.id st.ctx.old with
                     | some d => Val.old d
                     | none => Val.nothing),
        entryT := some (assocGet (ownerOf obj) st.entryTime),
        idleT := some (assocGet (ownerOf obj) st.idleTime) } st.ctx code := by
  cases kind with
  | pre => exact absurd rfl hk
  | post => rfl
  | inv => rfl

end Sismic
