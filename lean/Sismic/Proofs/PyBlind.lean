import Sismic.Proofs.Sim
import Sismic.Model.Py
/-!
# Sismic.Proofs.PyBlind — the model of `PythonEvaluator` is blind to the `__old__` store

Guards and executed code read the context variables only; the frozen contexts (`_memory`) are read
by postconditions and invariants alone.  This discharges the hypothesis of the C09 simulation
theorem for the evaluator the tie runs.
-/
namespace Sismic

/-- equal except for the frozen `__old__` contexts -/
def sameVars (a x : PyCtx) : Prop := a.vars = x.vars ∧ a.unsupported = x.unsupported

theorem pyEvaluator_blind : Blind pyEvaluator sameVars where
  guard := by
    intro s x ⟨hv, _⟩ t ev
    show pyGuard { s with ctx := x } t ev = pyGuard s t ev
    unfold pyGuard
    cases t.guard with
    | none => rfl
    | some code =>
      simp only [pyEval, viewEnv, ← hv]
  exec := by
    intro s x ⟨hv, hu⟩ k ev
    show (pyExec { s with ctx := x } k ev).2 = (pyExec s k ev).2 ∧
      sameVars (pyExec s k ev).1 (pyExec { s with ctx := x } k ev).1
    unfold pyExec
    simp only [viewEnv, ← hv, ← hu]
    split
    · exact ⟨rfl, hv, hu⟩
    · split
      · exact ⟨rfl, rfl, rfl⟩
      · exact ⟨rfl, rfl, rfl⟩
  freeze := by
    intro a x obj ⟨hv, hu⟩
    exact ⟨hv, hu⟩

end Sismic
