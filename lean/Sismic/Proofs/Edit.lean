import Sismic.Model.Edit
/-!
# Sismic.Proofs.Edit — structural editing: failure atomicity, effect of each operation,
preservation of "transitions start from owners and refer to existing states"
-/
namespace Sismic
namespace Chart

/-! ### a failed edit changes nothing -/

theorem addState_atomic (c : Chart) (s : StateDef) (p : Option Name) (e : EditErr)
    (h : (c.addState s p).1 = .error e) : (c.addState s p).2 = c := by
  generalize hr : c.addState s p = r at h ⊢
  unfold addState at hr
  repeat' split at hr
  all_goals (subst hr; first | rfl | (simp at h))

theorem addTransition_atomic (c : Chart) (t : Trans) (e : EditErr)
    (h : (c.addTransition t).1 = .error e) : (c.addTransition t).2 = c := by
  generalize hr : c.addTransition t = r at h ⊢
  unfold addTransition at hr
  repeat' split at hr
  all_goals (subst hr; first | rfl | (simp at h))

theorem removeTransition_atomic (c : Chart) (t : Trans) (e : EditErr)
    (h : (c.removeTransition t).1 = .error e) : (c.removeTransition t).2 = c := by
  generalize hr : c.removeTransition t = r at h ⊢
  unfold removeTransition at hr
  repeat' split at hr
  all_goals (subst hr; first | rfl | (simp at h))

theorem renameState_atomic (c : Chart) (a b : Name) (e : EditErr)
    (h : (c.renameState a b).1 = .error e) : (c.renameState a b).2 = c := by
  generalize hr : c.renameState a b = r at h ⊢
  unfold renameState at hr
  repeat' split at hr
  all_goals (subst hr; first | rfl | (simp at h))

theorem moveState_atomic (c : Chart) (a b : Name) (e : EditErr)
    (h : (c.moveState a b).1 = .error e) : (c.moveState a b).2 = c := by
  generalize hr : c.moveState a b = r at h ⊢
  unfold moveState at hr
  repeat' split at hr
  all_goals (subst hr; first | rfl | (simp at h))

theorem rotateTransition_atomic (c : Chart) (i : Option Nat) (src : Option Name) (tgt : Option (Option Name))
    (e : EditErr) (h : (c.rotateTransition i src tgt).1 = .error e) : (c.rotateTransition i src tgt).2 = c := by
  generalize hr : c.rotateTransition i src tgt = r at h ⊢
  unfold rotateTransition at hr
  repeat' split at hr
  all_goals (subst hr; first | rfl | (simp at h) | skip)
  all_goals (repeat' split at h)
  all_goals first | rfl | (simp at h) | skip
  all_goals (repeat' split)
  all_goals first | rfl | (simp_all)

theorem removeState_unknown (c : Chart) (n : Name) (h : c.hasState n = false) :
    c.removeState n = (.error .statechart, c) := by
  unfold removeState removeStateF
  simp [h]

/-! ### what a successful edit does -/

theorem addTransition_effect (c : Chart) (t : Trans) (h : (c.addTransition t).1 = .ok ()) :
    (c.addTransition t).2 = { c with transitions := c.transitions ++ [t] } ∧
    (∃ s, c.stateFor t.source = some s ∧ s.kind.ownsTransitions = true) ∧
    (∀ tg, t.target = some tg → c.hasState tg = true) := by
  generalize hr : c.addTransition t = r at h ⊢
  unfold addTransition at hr
  repeat' split at hr
  all_goals (subst hr; first | (simp at h; done) | skip)
  all_goals simp_all

theorem removeTransition_effect (c : Chart) (t : Trans) (h : (c.removeTransition t).1 = .ok ()) :
    (c.removeTransition t).2 = { c with transitions := eraseFirst (·.valEq t) c.transitions } := by
  unfold removeTransition at h ⊢
  split
  · rfl
  · next h1 => simp [h1] at h

/-- `rename_state` substitutes the name in every transition end — internal transitions stay internal -/
theorem renameState_transitions (c : Chart) (a b : Name) (h : (c.renameState a b).1 = .ok ()) (hne : a ≠ b) :
    (c.renameState a b).2.transitions =
      c.transitions.map (fun t => { t with source := renameIn a b t.source, target := t.target.map (renameIn a b) }) := by
  unfold renameState at h ⊢
  have : (a == b) = false := by simp [hne]
  simp only [this, Bool.false_eq_true, if_false] at h ⊢
  split
  · next h1 => simp [h1] at h
  · split
    · next h1 h2 => simp [h1, h2] at h
    · rfl

theorem renameState_keeps_internal' (a b : Name) (ts : List Trans) :
    (ts.map (fun t => ({ t with source := renameIn a b t.source, target := t.target.map (renameIn a b) } : Trans))).map (fun t => t.target.isNone)
      = ts.map (fun t => t.target.isNone) := by
  rw [List.map_map]
  congr 1
  funext t
  simp only [Function.comp]
  cases t.target <;> rfl

theorem renameState_keeps_internal (c : Chart) (a b : Name) (h : (c.renameState a b).1 = .ok ()) (hne : a ≠ b) :
    ((c.renameState a b).2.transitions.map (fun t => t.target.isNone)) = c.transitions.map (fun t => t.target.isNone) := by
  rw [renameState_transitions c a b h hne]
  exact renameState_keeps_internal' a b c.transitions

theorem rename_same_is_noop (c : Chart) (a : Name) : c.renameState a a = (.ok (), c) := by
  simp [renameState]

/-- `move_state` leaves the set of states and the transitions alone -/
theorem moveState_effect (c : Chart) (a b : Name) (h : (c.moveState a b).1 = .ok ()) :
    (c.moveState a b).2.transitions = c.transitions ∧
    (c.moveState a b).2.states.map (·.name) = c.states.map (·.name) ∧
    (c.moveState a b).2.states.map (·.kind) = c.states.map (·.kind) := by
  generalize hr : c.moveState a b = r at h ⊢
  unfold moveState at hr
  repeat' split at hr
  all_goals (subst hr; first | (simp at h; done) | skip)
  refine ⟨rfl, ?_, ?_⟩
  · simp only [List.map_map]
    congr 1; funext s
    simp only [Function.comp]
    repeat' split
    all_goals rfl
  · simp only [List.map_map]
    congr 1; funext s
    simp only [Function.comp]
    repeat' split
    all_goals rfl

end Chart
end Sismic

namespace Sismic
namespace Chart

/-- every transition starts from a state that may own transitions and refers to existing states -/
def TransOK (c : Chart) : Prop :=
  ∀ t ∈ c.transitions, (∃ s, c.stateFor t.source = some s ∧ s.kind.ownsTransitions = true) ∧
    ∀ tg, t.target = some tg → c.hasState tg = true

theorem mem_eraseFirst {α} (p : α → Bool) (l : List α) (x : α) (h : x ∈ eraseFirst p l) : x ∈ l := by
  induction l with
  | nil => simp [eraseFirst] at h
  | cons y ys ih =>
    unfold eraseFirst at h
    split at h
    · exact List.mem_cons_of_mem _ h
    · rcases List.mem_cons.mp h with rfl | h
      · exact List.mem_cons_self ..
      · exact List.mem_cons_of_mem _ (ih h)

theorem addTransition_transOK (c : Chart) (t : Trans) (hc : c.TransOK) (h : (c.addTransition t).1 = .ok ()) :
    (c.addTransition t).2.TransOK := by
  obtain ⟨he, hs, ht⟩ := addTransition_effect c t h
  rw [he]
  intro u hu
  simp only [List.mem_append, List.mem_singleton] at hu
  rcases hu with hu | rfl
  · exact hc u hu
  · exact ⟨hs, ht⟩

theorem removeTransition_transOK (c : Chart) (t : Trans) (hc : c.TransOK) (h : (c.removeTransition t).1 = .ok ()) :
    (c.removeTransition t).2.TransOK := by
  rw [removeTransition_effect c t h]
  intro u hu
  exact hc u (mem_eraseFirst _ _ _ hu)

end Chart
end Sismic
