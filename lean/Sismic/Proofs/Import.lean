import Sismic.Proofs.Edit
import Sismic.Model.IO
/-!
# Sismic.Proofs.Import — what `add_state` / `add_transition` / `validate` guarantee of a chart
built by `import_from_dict`
-/
namespace Sismic
namespace Chart

/-- structural soundness of the state tree (C12) -/
structure TreeSound (c : Chart) : Prop where
  /-- state names are unique -/
  names : (c.states.map (·.name)).Nodup
  /-- every state has exactly one parent entry, in the same order -/
  keys : c.parent.map (·.1) = c.states.map (·.name)
  /-- a parent is a state registered *before* its child (so the parent map is a forest), composite,
      and compound if the child is a history state -/
  parents : ∀ i n p, c.parent[i]? = some (n, some p) →
    p ∈ (c.states.take i).map (·.name) ∧
    ∃ ps, c.stateFor p = some ps ∧ ps.kind.isComposite = true ∧
      ∀ s, c.states[i]? = some s → s.kind.isHistory = true → ps.kind = .compound
  /-- one root, first, and not a history state: with `parents`, one tree -/
  oneRoot : ∀ i n, c.parent[i]? = some (n, none) → i = 0 ∧ ∀ s, c.states[i]? = some s → s.kind.isHistory = false
  /-- the children lists only list actual children -/
  children : ∀ q ch, ch ∈ c.childrenFor q → c.parentFor ch = some q

theorem stateFor_append_of_some (c : Chart) (s : StateDef) (n : Name) (x : StateDef)
    (h : c.stateFor n = some x) : (c.states ++ [s]).find? (fun y => y.name == n) = some x := by
  simp only [stateFor] at h
  rw [List.find?_append, h]; rfl

theorem root_none_parent (c : Chart) (h : c.root = none) : ∀ (i : Nat) (n : Name), c.parent[i]? ≠ some (n, none) := by
  intro i n hi
  simp only [root, Option.map_eq_none_iff] at h
  have := List.find?_eq_none.mp h (n, none) (List.mem_of_getElem? hi)
  simp at this

theorem find_assocModify {κ ν} [BEq κ] [LawfulBEq κ] (k q : κ) (f : ν → ν) : ∀ l : List (κ × ν),
    (assocModify k f l).find? (fun p => p.1 == q) =
      if q == k then (l.find? (fun p => p.1 == q)).map (fun p => (p.1, f p.2)) else l.find? (fun p => p.1 == q)
  | [] => by simp [assocModify]
  | (k', v) :: r => by
    have ih := find_assocModify k q f r
    simp only [assocModify]
    by_cases h1 : k' = k
    · subst h1
      by_cases h2 : q = k'
      · subst h2; simp
      · have : (k' == q) = false := by simp [Ne.symm h2]
        simp [this, h2, ih]
    · have e1 : (k' == k) = false := by simp [h1]
      simp only [e1, Bool.false_eq_true, if_false, List.find?_cons]
      by_cases h2 : k' = q
      · subst h2
        have : (k' == k) = false := e1
        simp [this]
      · have : (k' == q) = false := by simp [h2]
        simp only [this, ih]

/-- the children lists after `add_state`: the old ones, plus the new state under its parent -/
theorem mem_children_add (children : List (Option Name × List Name)) (par : Option Name) (n q ch : Name)
    (h : ch ∈ (match (assocModify par (· ++ [n]) (children ++ [(some n, [])])).find? (fun p => p.1 == some q) with
      | some (_, l) => l
      | none => [])) :
    ch ∈ (match children.find? (fun p => p.1 == some q) with | some (_, l) => l | none => []) ∨
    (ch = n ∧ par = some q) := by
  rw [find_assocModify, List.find?_append] at h
  cases hf : children.find? (fun p => p.1 == some q) with
  | some pr =>
    rw [hf] at h
    by_cases hq : (some q == par) = true
    · simp only [hq, if_true, Option.or_some, Option.map_some] at h
      rcases List.mem_append.mp h with h | h
      · exact Or.inl h
      · exact Or.inr ⟨by simpa using h, (by simpa using hq : some q = par).symm⟩
    · simp only [hq, Bool.false_eq_true, if_false, Option.or_some] at h
      exact Or.inl h
  | none =>
    rw [hf] at h
    by_cases hn : n = q
    · subst hn
      by_cases hq : (some n == par) = true
      · simp only [hq, if_true, Option.none_or, List.find?_cons, beq_self_eq_true, Option.map_some, List.nil_append] at h
        exact Or.inr ⟨by simpa using h, (by simpa using hq : some n = par).symm⟩
      · simp [hq] at h
    · have : ((some n : Option Name) == some q) = false := by simp [hn]
      simp [this] at h

theorem parentFor_append_old (parent : List (Name × Option Name)) (n ch : Name) (p : Option Name) (q : Name)
    (h : (match parent.find? (fun x => x.1 == ch) with | some (_, p) => p | none => none) = some q) :
    (match (parent ++ [(n, p)]).find? (fun x => x.1 == ch) with | some (_, p) => p | none => none) = some q := by
  rw [List.find?_append]
  cases hf : parent.find? (fun x => x.1 == ch) with
  | none => rw [hf] at h; simp at h
  | some pr => rw [hf] at h; simpa using h

theorem parentFor_append_new (parent : List (Name × Option Name)) (n : Name) (p : Option Name)
    (hfresh : n ∉ parent.map (·.1)) :
    (match (parent ++ [(n, p)]).find? (fun x => x.1 == n) with | some (_, p) => p | none => none) = p := by
  rw [List.find?_append]
  have : parent.find? (fun x => x.1 == n) = none := by
    rw [List.find?_eq_none]
    intro x hx hc
    exact hfresh (List.mem_map.mpr ⟨x, hx, by simpa using hc⟩)
  rw [this]; simp

/-- what a successful `add_state` did -/
theorem addState_effect (c : Chart) (s : StateDef) (par : Option Name) (h : (c.addState s par).1 = .ok ()) :
    c.hasState s.name = false ∧
    (c.addState s par).2.states = c.states ++ [s] ∧
    (c.addState s par).2.parent = c.parent ++ [(s.name, par)] ∧
    (c.addState s par).2.children = assocModify par (· ++ [s.name]) (c.children ++ [(some s.name, [])]) ∧
    (c.addState s par).2.transitions = c.transitions ∧
    (par = none → c.root = none ∧ s.kind.isHistory = false) ∧
    (∀ p, par = some p → ∃ ps, c.stateFor p = some ps ∧ ps.kind.isComposite = true ∧
         (s.kind.isHistory = true → ps.kind = .compound)) := by
  by_cases hhas : c.hasState s.name = true
  · simp [addState, hhas] at h
  have hhas' : c.hasState s.name = false := by simpa using hhas
  cases par with
  | none =>
    by_cases hr : c.root.isSome = true
    · simp [addState, hhas', hr] at h
    by_cases hh : s.kind.isHistory = true
    · simp [addState, hhas', hr, hh] at h
    have hres : c.addState s none = (.ok (), { c with
        states := c.states ++ [s], parent := c.parent ++ [(s.name, none)],
        children := assocModify none (· ++ [s.name]) (c.children ++ [(some s.name, [])]) }) := by
      simp [addState, hhas', hr, hh]
    rw [hres]
    exact ⟨hhas', rfl, rfl, rfl, rfl, fun _ => ⟨by simpa using hr, by simpa using hh⟩, fun p hp => absurd hp (by simp)⟩
  | some p =>
    cases hps : c.stateFor p with
    | none => simp [addState, hhas', hps] at h
    | some ps =>
      by_cases hcomp : ps.kind.isComposite = true
      · by_cases hh : (s.kind.isHistory && ps.kind != .compound) = true
        · simp [addState, hhas', hps, hcomp, hh] at h
        · have hres : c.addState s (some p) = (.ok (), { c with
              states := c.states ++ [s], parent := c.parent ++ [(s.name, some p)],
              children := assocModify (some p) (· ++ [s.name]) (c.children ++ [(some s.name, [])]) }) := by
            simp only [addState, hhas', hps, hcomp, hh]; simp
          rw [hres]
          refine ⟨hhas', rfl, rfl, rfl, rfl, fun hp => absurd hp (by simp), ?_⟩
          intro p' hp'
          obtain rfl : p = p' := Option.some.inj hp'
          refine ⟨ps, hps, hcomp, ?_⟩
          intro hk
          simp only [hk, Bool.true_and, bne_iff_ne, ne_eq, Decidable.not_not] at hh
          exact hh
      · simp [addState, hhas', hps, hcomp] at h

theorem hasState_false_iff (c : Chart) (n : Name) : c.hasState n = false ↔ n ∉ c.states.map (·.name) := by
  simp only [hasState, stateFor, Option.isSome_eq_false_iff, Option.isNone_iff_eq_none, List.find?_eq_none,
    List.mem_map, not_exists, not_and]
  constructor
  · intro h x hx he; exact h x hx (by simp [he])
  · intro h x hx he; exact h x hx (by simpa using he)

theorem addState_sound (c : Chart) (s : StateDef) (par : Option Name) (hc : c.TreeSound)
    (h : (c.addState s par).1 = .ok ()) : (c.addState s par).2.TreeSound := by
  obtain ⟨hfresh, hst, hpa, hch, _, hparN, hparS⟩ := addState_effect c s par h
  have hfresh' := (hasState_false_iff c s.name).mp hfresh
  have hlen : c.parent.length = c.states.length := by
    have := congrArg List.length hc.keys; simpa using this
  refine ⟨?_, ?_, ?_, ?_, ?_⟩
  · rw [hst, List.map_append, List.nodup_append]
    refine ⟨hc.names, by simp, ?_⟩
    intro a ha b hb
    simp only [List.map_cons, List.map_nil, List.mem_singleton] at hb
    subst hb
    exact fun e => hfresh' (e ▸ ha)
  · rw [hst, hpa, List.map_append, List.map_append, hc.keys]; rfl
  · intro i n p hi
    rw [hpa] at hi
    rw [hst]
    by_cases hlt : i < c.parent.length
    · rw [List.getElem?_append_left hlt] at hi
      obtain ⟨h1, ps, h2, h3, h4⟩ := hc.parents i n p hi
      refine ⟨?_, ps, ?_, h3, ?_⟩
      · rw [List.take_append_of_le_length (by omega)]; exact h1
      · show (c.addState s _).2.states.find? _ = _
        rw [hst]; exact stateFor_append_of_some c s p ps h2
      · intro s' hs'
        rw [List.getElem?_append_left (by omega)] at hs'
        exact h4 s' hs'
    · have hge : c.parent.length ≤ i := by omega
      rw [List.getElem?_append_right hge] at hi
      have hi0 : i - c.parent.length = 0 := by
        cases hk : i - c.parent.length with
        | zero => rfl
        | succ k => rw [hk] at hi; simp at hi
      rw [hi0] at hi
      simp only [List.getElem?_cons_zero, Option.some.injEq, Prod.mk.injEq] at hi
      obtain ⟨rfl, hp⟩ := hi
      subst hp
      obtain ⟨ps, h2, h3, h4⟩ := hparS p rfl
      have hi' : i = c.states.length := by omega
      refine ⟨?_, ps, ?_, h3, ?_⟩
      · rw [hi', List.take_left']
        · have : (c.stateFor p).isSome = true := by rw [h2]; rfl
          have hp : ¬ (c.hasState p = false) := by simp [hasState, this]
          rw [hasState_false_iff] at hp
          exact Classical.not_not.mp hp
        · rfl
      · show (c.addState s _).2.states.find? _ = _
        rw [hst]; exact stateFor_append_of_some c s p ps h2
      · intro s' hs'
        rw [hi', List.getElem?_append_right (Nat.le_refl _)] at hs'
        simp only [Nat.sub_self, List.getElem?_cons_zero, Option.some.injEq] at hs'
        subst hs'
        exact h4
  · intro i n hi
    rw [hpa] at hi
    rw [hst]
    by_cases hlt : i < c.parent.length
    · rw [List.getElem?_append_left hlt] at hi
      obtain ⟨h1, h2⟩ := hc.oneRoot i n hi
      refine ⟨h1, ?_⟩
      intro s' hs'
      rw [List.getElem?_append_left (by omega)] at hs'
      exact h2 s' hs'
    · have hge : c.parent.length ≤ i := by omega
      rw [List.getElem?_append_right hge] at hi
      have hi0 : i - c.parent.length = 0 := by
        cases hk : i - c.parent.length with
        | zero => rfl
        | succ k => rw [hk] at hi; simp at hi
      rw [hi0] at hi
      simp only [List.getElem?_cons_zero, Option.some.injEq, Prod.mk.injEq] at hi
      obtain ⟨rfl, hp⟩ := hi
      subst hp
      obtain ⟨hroot, hnh⟩ := hparN rfl
      have hempty : c.parent = [] := by
        cases hp : c.parent with
        | nil => rfl
        | cons x xs =>
          exfalso
          -- the first entry would be the root, or have a parent registered before it
          have h0 : c.parent[0]? = some x := by rw [hp]; rfl
          obtain ⟨xn, xp⟩ := x
          cases xp with
          | none => exact root_none_parent c hroot 0 xn h0
          | some q =>
            have := (hc.parents 0 xn q h0).1
            simp at this
      have hi' : i = 0 := by rw [hempty] at hi0 hge; simpa using hi0
      have hs0 : c.states = [] := by
        have : c.states.length = 0 := by rw [← hlen, hempty]; rfl
        exact List.length_eq_zero_iff.mp this
      refine ⟨hi', ?_⟩
      intro s' hs'
      rw [hi', hs0] at hs'
      simp only [List.nil_append, List.getElem?_cons_zero, Option.some.injEq] at hs'
      subst hs'
      exact hnh
  · intro q ch hmem
    simp only [childrenFor, hch] at hmem
    simp only [parentFor, hpa]
    rcases mem_children_add c.children par s.name q ch hmem with h1 | ⟨rfl, hp⟩
    · exact parentFor_append_old c.parent s.name ch par q (hc.children q ch h1)
    · rw [hp]
      apply parentFor_append_new
      rw [hc.keys]; exact hfresh'

end Chart
end Sismic

namespace Sismic
namespace Chart

theorem addState_transOK (c : Chart) (s : StateDef) (par : Option Name) (hc : c.TransOK)
    (h : (c.addState s par).1 = .ok ()) : (c.addState s par).2.TransOK := by
  obtain ⟨_, hst, _, _, htr, _, _⟩ := addState_effect c s par h
  intro t ht
  rw [htr] at ht
  obtain ⟨⟨x, hx, hown⟩, htg⟩ := hc t ht
  refine ⟨⟨x, ?_, hown⟩, ?_⟩
  · show (c.addState s par).2.states.find? _ = _
    rw [hst]; exact stateFor_append_of_some c s _ x hx
  · intro tg htg'
    have := htg tg htg'
    simp only [hasState, Option.isSome_iff_exists] at this ⊢
    obtain ⟨y, hy⟩ := this
    refine ⟨y, ?_⟩
    show (c.addState s par).2.states.find? _ = _
    rw [hst]; exact stateFor_append_of_some c s _ y hy

theorem addTransition_sound (c : Chart) (t : Trans) (hc : c.TreeSound)
    (h : (c.addTransition t).1 = .ok ()) : (c.addTransition t).2.TreeSound := by
  obtain ⟨he, _, _⟩ := addTransition_effect c t h
  rw [he]
  exact ⟨hc.names, hc.keys, hc.parents, hc.oneRoot, hc.children⟩

end Chart

theorem foldl_bind_error {α β ε} (f : β → α → Except ε β) (e : ε) : ∀ l : List α,
    l.foldl (fun (acc : Except ε β) a => acc.bind (fun b => f b a)) (.error e) = .error e
  | [] => rfl
  | _ :: l => by
    simp only [List.foldl_cons]
    exact foldl_bind_error f e l

/-- an invariant of a fold of failing steps holds of the result when the fold succeeds -/
theorem foldl_bind_inv {α β ε} (f : β → α → Except ε β) (P : β → Prop)
    (step : ∀ b a b', P b → f b a = .ok b' → P b') : ∀ (l : List α) (b b' : β), P b →
    l.foldl (fun (acc : Except ε β) a => acc.bind (fun b => f b a)) (.ok b) = .ok b' → P b'
  | [], b, b', hb, h => by simp only [List.foldl_nil, Except.ok.injEq] at h; exact h ▸ hb
  | a :: l, b, b', hb, h => by
    simp only [List.foldl_cons] at h
    have e0 : ((Except.ok b : Except ε β).bind fun b => f b a) = f b a := rfl
    rw [e0] at h
    cases hf : f b a with
    | error e => rw [hf, foldl_bind_error] at h; exact absurd h (by simp)
    | ok b1 => rw [hf] at h; exact foldl_bind_inv f P step l b1 b' (step b a b1 hb hf) h

/-- structural soundness of an accepted document (C12) -/
structure Sound (c : Chart) : Prop where
  tree : c.TreeSound
  trans : c.TransOK
  valid : c.validate = true

theorem buildChart_sound (c0 c : Chart) (sts : List (StateDef × Option Name)) (ts : List Trans)
    (h0 : c0.TreeSound ∧ c0.TransOK) (h : buildChart c0 sts ts = .ok c) : Sound c := by
  unfold buildChart at h
  split at h
  · exact absurd h (by simp)
  next c1 h1 =>
  split at h
  · exact absurd h (by simp)
  next c2 h2 =>
  split at h
  next hv =>
    simp only [Except.ok.injEq] at h
    subst h
    have s1 : c1.TreeSound ∧ c1.TransOK := by
      refine foldl_bind_inv addStateStep (fun c => c.TreeSound ∧ c.TransOK) ?_ sts c0 c1 h0 h1
      intro b a b' hb hf
      unfold addStateStep at hf
      split at hf
      · next u c' heq =>
        simp only [Except.ok.injEq] at hf
        subst hf
        have hok : (b.addState a.1 a.2).1 = .ok () := by rw [heq]
        have e2 : (b.addState a.1 a.2).2 = c' := by rw [heq]
        rw [← e2]
        exact ⟨Chart.addState_sound b a.1 a.2 hb.1 hok, Chart.addState_transOK b a.1 a.2 hb.2 hok⟩
      · exact absurd hf (by simp)
    have s2 : c2.TreeSound ∧ c2.TransOK := by
      refine foldl_bind_inv addTransStep (fun c => c.TreeSound ∧ c.TransOK) ?_ ts c1 c2 s1 h2
      intro b a b' hb hf
      unfold addTransStep at hf
      split at hf
      · next u c' heq =>
        simp only [Except.ok.injEq] at hf
        subst hf
        have hok : (b.addTransition { a with id := b.transitions.length }).1 = .ok () := by rw [heq]
        have e2 : (b.addTransition { a with id := b.transitions.length }).2 = c' := by rw [heq]
        rw [← e2]
        exact ⟨Chart.addTransition_sound b _ hb.1 hok, Chart.addTransition_transOK b _ hb.2 hok⟩
      · exact absurd hf (by simp)
    exact ⟨s2.1, s2.2, hv⟩
  · exact absurd h (by simp)

theorem emptyChart_sound (name : String) (descr : Option String) (pre : Option Code) :
    let c0 : Chart := { name := name, description := descr, preamble := pre, children := [(none, [])] }
    c0.TreeSound ∧ c0.TransOK := by
  refine ⟨⟨List.nodup_nil, rfl, ?_, ?_, ?_⟩, ?_⟩
  · intro i n p hi; simp at hi
  · intro i n hi; simp at hi
  · intro q ch hm; simp [Chart.childrenFor] at hm
  · intro t ht; simp at ht

theorem importDict_sound (fuel : Nat) (d : Data) (c : Chart) (h : importDict fuel d = .ok c) : Sound c := by
  unfold importDict at h
  cases h1 : d.get? "statechart" with
  | none => rw [h1] at h; exact absurd h (by simp)
  | some sc =>
    rw [h1] at h
    simp only at h
    split at h
    next name root _ _ =>
      split at h
      · exact absurd h (by simp)
      next sts ts _ => exact buildChart_sound _ c sts ts (emptyChart_sound _ _ _) h
    · exact absurd h (by simp)

end Sismic
