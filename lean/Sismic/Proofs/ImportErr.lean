import Sismic.Proofs.Import
/-!
# Sismic.Proofs.ImportErr — after schema validation `import_from_dict` raises nothing but `StatechartError`
-/
namespace Sismic

/-! ### what a dict schema guarantees of its output -/

theorem foldl_vDictStep_none (spec : List (String × Bool × (Data → V Data))) :
    ∀ m : List (String × Data), m.foldl (vDictStep spec) none = none
  | [] => rfl
  | _ :: m => by simp only [List.foldl_cons, vDictStep, Option.bind]; exact foldl_vDictStep_none spec m

/-- an entry of the output was produced by the schema registered for its key -/
def FromSpec (spec : List (String × Bool × (Data → V Data))) (k : String) (v : Data) : Prop :=
  ∃ e, spec.find? (fun s => s.1 == k) = some e ∧ ∃ v0, e.2.2 v0 = some v

theorem get_append_single (acc : List (String × Data)) (k' : String) (v' : Data) (k : String) (v : Data)
    (h : (Data.map (acc ++ [(k', v')])).get? k = some v) :
    (Data.map acc).get? k = some v ∨ (k' = k ∧ v' = v) := by
  simp only [Data.get?, List.find?_append] at h ⊢
  cases hf : acc.find? (fun p => p.1 == k) with
  | some p => rw [hf] at h; left; simpa using h
  | none =>
    rw [hf] at h
    right
    simp only [Option.none_or, List.find?_cons, List.find?_nil] at h
    by_cases hk : (k' == k) = true
    · simp only [hk] at h
      exact ⟨by simpa using hk, by simpa using h⟩
    · simp [hk] at h

theorem foldl_vDictStep_get (spec : List (String × Bool × (Data → V Data))) :
    ∀ (m acc l : List (String × Data)), m.foldl (vDictStep spec) (some acc) = some l →
      ∀ k v, (Data.map l).get? k = some v → (Data.map acc).get? k = some v ∨ FromSpec spec k v
  | [], acc, l, h, k, v, hg => by
    simp only [List.foldl_nil, Option.some.injEq] at h; subst h; exact Or.inl hg
  | p :: m, acc, l, h, k, v, hg => by
    simp only [List.foldl_cons] at h
    cases hs : spec.find? (fun s => s.1 == p.1) with
    | none =>
      have : vDictStep spec (some acc) p = none := by simp [vDictStep, Option.bind, hs]
      rw [this, foldl_vDictStep_none] at h; exact absurd h (by simp)
    | some e =>
      obtain ⟨ek, eo, evs⟩ := e
      cases hv : evs p.2 with
      | none =>
        have : vDictStep spec (some acc) p = none := by simp [vDictStep, Option.bind, hs, hv]
        rw [this, foldl_vDictStep_none] at h; exact absurd h (by simp)
      | some v' =>
        have : vDictStep spec (some acc) p = some (acc ++ [(p.1, v')]) := by
          simp [vDictStep, Option.bind, hs, hv]
        rw [this] at h
        rcases foldl_vDictStep_get spec m _ l h k v hg with h1 | h1
        · rcases get_append_single acc p.1 v' k v h1 with h2 | ⟨rfl, rfl⟩
          · exact Or.inl h2
          · exact Or.inr ⟨(ek, eo, evs), hs, p.2, hv⟩
        · exact Or.inr h1

theorem vDict_spec (spec : List (String × Bool × (Data → V Data))) (d d' : Data) (h : vDict spec d = some d') :
    ∃ l, d' = .map l ∧ (∀ k v, d'.get? k = some v → FromSpec spec k v) ∧
      (∀ e ∈ spec, e.2.1 = false → ∃ v, d'.get? e.1 = some v) := by
  unfold vDict at h
  split at h
  next m =>
    split at h
    · exact absurd h (by simp)
    next l hl =>
      split at h
      next hall =>
        simp only [Option.some.injEq] at h
        subst h
        refine ⟨l, rfl, ?_, ?_⟩
        · intro k v hg
          rcases foldl_vDictStep_get spec m [] l hl k v hg with h1 | h1
          · simp [Data.get?] at h1
          · exact h1
        · intro e he hreq
          have := List.all_eq_true.mp hall e he
          simp only [hreq, Bool.false_or, List.any_eq_true] at this
          obtain ⟨p, hp, hk⟩ := this
          simp only [Data.get?]
          cases hf : l.find? (fun q => q.1 == e.1) with
          | none => exact absurd (List.find?_eq_none.mp hf p hp) (by simpa using hk)
          | some q => exact ⟨q.2, rfl⟩
      · exact absurd h (by simp)
  · exact absurd h (by simp)

theorem vUseStr_str (d v : Data) (h : vUseStr d = some v) : ∃ s, v = .str s := by
  simp only [vUseStr, Option.map_eq_some_iff] at h
  obtain ⟨s, _, rfl⟩ := h
  exact ⟨s, rfl⟩

theorem mapM_option {α β} (f : α → Option β) : ∀ (l : List α) (l' : List β), l.mapM f = some l' →
    ∀ y ∈ l', ∃ x, f x = some y
  | [], l', h, y, hy => by simp at h; subst h; simp at hy
  | x :: xs, l', h, y, hy => by
    simp only [List.mapM_cons, bind, Option.bind] at h
    cases hx : f x with
    | none => rw [hx] at h; simp at h
    | some b =>
      rw [hx] at h
      simp only at h
      cases hxs : xs.mapM f with
      | none => rw [hxs] at h; simp at h
      | some bs =>
        rw [hxs] at h
        simp only [pure, Option.some.injEq] at h
        subst h
        rcases List.mem_cons.mp hy with rfl | hy
        · exact ⟨x, hx⟩
        · exact mapM_option f xs bs hxs y hy

theorem vList_spec (vs : Data → V Data) (d v : Data) (h : vList vs d = some v) :
    ∃ l', v = .list l' ∧ ∀ y ∈ l', ∃ x, vs x = some y := by
  unfold vList at h
  split at h
  next l =>
    simp only [Option.map_eq_some_iff] at h
    obtain ⟨l', hl, rfl⟩ := h
    exact ⟨l', rfl, mapM_option vs l l' hl⟩
  · exact absurd h (by simp)

end Sismic

namespace Sismic

/-! ### what a validated state holds -/

def ContractOK (c : Data) : Prop := ∃ m, c = .map m ∧ ∀ q ∈ m, ∃ s, q.2 = .str s

theorem vContract_ok (d v : Data) (h : vContract d = some v) : ContractOK v := by
  unfold vContract at h
  split at h
  next m =>
    split at h
    · exact absurd h (by simp)
    · simp only [Option.map_eq_some_iff] at h
      obtain ⟨l', hl, rfl⟩ := h
      refine ⟨l', rfl, ?_⟩
      intro q hq
      obtain ⟨p, hp⟩ := mapM_option _ m l' hl q hq
      split at hp
      · simp only [Option.map_eq_some_iff] at hp
        obtain ⟨v', hv', rfl⟩ := hp
        exact vUseStr_str _ _ hv'
      · exact absurd hp (by simp)
  · exact absurd h (by simp)

structure StateOK (f : Nat) (d : Data) : Prop where
  isMap : ∃ l, d = .map l
  name : ∃ s, d.get? "name" = some (.str s)
  onEntry : ∀ v, d.get? "on entry" = some v → ∃ s, v = .str s
  onExit : ∀ v, d.get? "on exit" = some v → ∃ s, v = .str s
  initial : ∀ v, d.get? "initial" = some v → ∃ s, v = .str s
  memory : ∀ v, d.get? "memory" = some v → ∃ s, v = .str s
  transitions : ∀ v, d.get? "transitions" = some v → ∃ l, v = .list l
  contract : ∀ v, d.get? "contract" = some v → ∃ l, v = .list l ∧ ∀ c ∈ l, ContractOK c
  states : ∀ v, d.get? "states" = some v → ∃ l, v = .list l ∧ ∀ s ∈ l, ∃ s0, vState f s0 = some s
  parallel : ∀ v, d.get? "parallel states" = some v → ∃ l, v = .list l ∧ ∀ s ∈ l, ∃ s0, vState f s0 = some s

theorem vState_ok (f : Nat) (d0 d : Data) (h : vState (f+1) d0 = some d) : StateOK f d := by
  unfold vState at h
  obtain ⟨l, rfl, hfrom, hreq⟩ := vDict_spec _ _ _ h
  have str : ∀ k v, (Data.map l).get? k = some v →
      (k = "name" ∨ k = "on entry" ∨ k = "on exit" ∨ k = "initial" ∨ k = "memory") → ∃ s, v = .str s := by
    intro k v hg hk
    obtain ⟨e, he, v0, hv⟩ := hfrom k v hg
    rcases hk with rfl | rfl | rfl | rfl | rfl <;>
      (simp [List.find?] at he; subst he; exact vUseStr_str _ _ hv)
  refine ⟨⟨l, rfl⟩, ?_, fun v hg => str _ v hg (by simp), fun v hg => str _ v hg (by simp),
    fun v hg => str _ v hg (by simp), fun v hg => str _ v hg (by simp), ?_, ?_, ?_, ?_⟩
  · obtain ⟨v, hv⟩ := hreq ("name", false, vUseStr) (by simp) rfl
    obtain ⟨s, rfl⟩ := str "name" v hv (by simp)
    exact ⟨s, hv⟩
  · intro v hg
    obtain ⟨e, he, v0, hv⟩ := hfrom _ v hg
    simp [List.find?] at he; subst he
    obtain ⟨l', rfl, _⟩ := vList_spec _ _ _ hv
    exact ⟨l', rfl⟩
  · intro v hg
    obtain ⟨e, he, v0, hv⟩ := hfrom _ v hg
    simp [List.find?] at he; subst he
    obtain ⟨l', rfl, hall⟩ := vList_spec _ _ _ hv
    refine ⟨l', rfl, ?_⟩
    intro c hc
    obtain ⟨x, hx⟩ := hall c hc
    exact vContract_ok _ _ hx
  · intro v hg
    obtain ⟨e, he, v0, hv⟩ := hfrom _ v hg
    simp [List.find?] at he; subst he
    obtain ⟨l', rfl, hall⟩ := vList_spec _ _ _ hv
    exact ⟨l', rfl, hall⟩
  · intro v hg
    obtain ⟨e, he, v0, hv⟩ := hfrom _ v hg
    simp [List.find?] at he; subst he
    obtain ⟨l', rfl, hall⟩ := vList_spec _ _ _ hv
    exact ⟨l', rfl, hall⟩

end Sismic

namespace Sismic

/-! ### `_import_state_from_dict` on a validated state -/

theorem stripField_ok (d : Data) (k : String) (h : ∀ v, d.get? k = some v → ∃ s, v = .str s) :
    ∃ r, stripField d k = .ok r := by
  unfold stripField getStripped
  cases hg : d.get? k with
  | none => exact ⟨none, rfl⟩
  | some v =>
    obtain ⟨s, rfl⟩ := h v hg
    by_cases ht : (Data.str s).truthy = true
    · exact ⟨some (mkCode (pyStrip s)), by simp [ht]⟩
    · exact ⟨none, by simp [ht]⟩

theorem optNameAt_ok (d : Data) (k : String) (h : ∀ v, d.get? k = some v → ∃ s, v = .str s) :
    ∃ r, optNameAt d k = .ok r := by
  unfold optNameAt
  cases hg : d.get? k with
  | none => exact ⟨none, rfl⟩
  | some v =>
    obtain ⟨s, rfl⟩ := h v hg
    exact ⟨some s, rfl⟩

theorem contractPick_ok (c : Data) (k : String) (h : ContractOK c) : ∃ r, contractPick c k = .ok r := by
  obtain ⟨m, rfl, hm⟩ := h
  unfold contractPick
  cases hg : (Data.map m).get? k with
  | none => exact ⟨none, rfl⟩
  | some v =>
    simp only [Data.get?, Option.map_eq_some_iff] at hg
    obtain ⟨q, hq, rfl⟩ := hg
    obtain ⟨s, hs⟩ := hm q (List.mem_of_find?_eq_some hq)
    rw [hs]
    simp only
    split <;> exact ⟨_, rfl⟩

theorem contractStep_ok (acc : List Code × List Code × List Code) (c : Data) (h : ContractOK c) :
    ∃ r, contractStep acc c = .ok r := by
  obtain ⟨r1, h1⟩ := contractPick_ok c "before" h
  obtain ⟨r2, h2⟩ := contractPick_ok c "after" h
  obtain ⟨r3, h3⟩ := contractPick_ok c "always" h
  obtain ⟨m, rfl, _⟩ := h
  unfold contractStep
  simp only [h1, h2, h3]
  cases r1 <;> cases r2 <;> cases r3 <;> exact ⟨_, rfl⟩

theorem contractLoop_ok : ∀ (l : List Data) (acc : List Code × List Code × List Code),
    (∀ c ∈ l, ContractOK c) → ∃ r, contractLoop l acc = .ok r
  | [], acc, _ => ⟨acc, rfl⟩
  | c :: cs, acc, h => by
    obtain ⟨a, ha⟩ := contractStep_ok acc c (h c List.mem_cons_self)
    simp only [contractLoop, ha]
    exact contractLoop_ok cs a (fun x hx => h x (List.mem_cons_of_mem _ hx))

theorem importContract_ok (d : Data)
    (h : ∀ v, d.get? "contract" = some v → ∃ l, v = .list l ∧ ∀ c ∈ l, ContractOK c) :
    ∃ r, importContract d = .ok r := by
  unfold importContract
  cases hg : d.get? "contract" with
  | none => exact ⟨_, rfl⟩
  | some v =>
    obtain ⟨l, rfl, hl⟩ := h v hg
    exact contractLoop_ok l _ hl

theorem importKind_spec (d : Data) (name : Name) (a b : Option Code)
    (hi : ∀ v, d.get? "initial" = some v → ∃ s, v = .str s)
    (hm : ∀ v, d.get? "memory" = some v → ∃ s, v = .str s) :
    importKind d name a b = .error .statechart ∨
    ∃ st, importKind d name a b = .ok st ∧ st.name = name ∧
      (st.kind = .compound → presentAt d "states" = true) ∧
      (st.kind = .orthogonal → presentAt d "parallel states" = true) := by
  obtain ⟨ri, hri⟩ := optNameAt_ok d "initial" hi
  obtain ⟨rm, hrm⟩ := optNameAt_ok d "memory" hm
  unfold importKind
  simp only [hri, hrm]
  split
  · exact Or.inr ⟨_, rfl, rfl, by simp, by simp⟩
  · exact Or.inr ⟨_, rfl, rfl, by simp, by simp⟩
  · exact Or.inr ⟨_, rfl, rfl, by simp, by simp⟩
  · split
    · next ht => exact Or.inr ⟨_, rfl, rfl, fun _ => (Bool.and_eq_true _ _ |>.mp ht).1, by simp⟩
    · split
      · next ht => exact Or.inr ⟨_, rfl, rfl, by simp, fun _ => ht⟩
      · exact Or.inr ⟨_, rfl, rfl, by simp, by simp⟩
  · split
    · next ht => exact Or.inr ⟨_, rfl, rfl, fun _ => (Bool.and_eq_true _ _ |>.mp ht).1, by simp⟩
    · split
      · next ht => exact Or.inr ⟨_, rfl, rfl, by simp, fun _ => ht⟩
      · exact Or.inr ⟨_, rfl, rfl, by simp, by simp⟩
  · exact Or.inl rfl

/-- on a validated state, `_import_state_from_dict` either succeeds or raises `StatechartError` -/
theorem importState_spec (f : Nat) (d : Data) (h : StateOK f d) :
    importState d = .error .statechart ∨
    ∃ st, importState d = .ok st ∧
      (st.kind = .compound → presentAt d "states" = true) ∧
      (st.kind = .orthogonal → presentAt d "parallel states" = true) := by
  obtain ⟨l, rfl⟩ := h.isMap
  obtain ⟨name, hn⟩ := h.name
  obtain ⟨r1, h1⟩ := stripField_ok _ "on entry" h.onEntry
  obtain ⟨r2, h2⟩ := stripField_ok _ "on exit" h.onExit
  obtain ⟨r3, h3⟩ := importContract_ok _ h.contract
  unfold importState
  simp only [hn, h1, h2]
  split
  · first | exact Or.inl rfl | exact Or.inl trivial
  · rcases importKind_spec (.map l) name r1 r2 h.initial h.memory with hk | ⟨st, hk, _, hc, ho⟩
    · simp only [hk]; first | exact Or.inl rfl | exact Or.inl trivial
    · simp only [hk, h3]
      exact Or.inr ⟨_, rfl, hc, ho⟩

end Sismic

namespace Sismic

/-! ### the work list terminates within its fuel and raises nothing else -/

theorem nodes_pos (d : Data) : 1 ≤ d.nodes := by
  cases d <;> simp [Data.nodes] <;> omega

theorem nodes_get (m : List (String × Data)) (k : String) (v : Data)
    (h : (Data.map m).get? k = some v) : v.nodes ≤ nodesMap m := by
  simp only [Data.get?, Option.map_eq_some_iff] at h
  obtain ⟨q, hq, rfl⟩ := h
  have hmem := List.mem_of_find?_eq_some hq
  clear hq
  induction m with
  | nil => simp at hmem
  | cons p ps ih =>
    obtain ⟨pk, pv⟩ := p
    simp only [nodesMap]
    rcases List.mem_cons.mp hmem with h1 | hm
    · rw [h1]; simp only; omega
    · have := ih hm; omega

theorem nodesList_append (a b : List Data) : nodesList (a ++ b) = nodesList a + nodesList b := by
  induction a with
  | nil => simp [nodesList]
  | cons x xs ih => simp only [List.cons_append, nodesList, ih]; omega

def todoSize (todo : List (Data × Option Name)) : Nat := nodesList (todo.map (·.1))

theorem todoSize_append (a b : List (Data × Option Name)) : todoSize (a ++ b) = todoSize a + todoSize b := by
  simp [todoSize, nodesList_append]

theorem todoSize_subs (subs : List Data) (n : Option Name) : todoSize (subs.map (fun s => (s, n))) = nodesList subs := by
  simp [todoSize, Function.comp_def]

theorem importSubs_spec (f : Nat) (m : List (String × Data)) (st : StateDef) (h : StateOK f (.map m))
    (hc : st.kind = .compound → presentAt (.map m) "states" = true)
    (ho : st.kind = .orthogonal → presentAt (.map m) "parallel states" = true) :
    ∃ subs, importSubs (.map m) st = .ok subs ∧ (∀ s ∈ subs, ∃ s0, vState f s0 = some s) ∧
      nodesList subs + 1 ≤ nodesMap m := by
  unfold importSubs
  by_cases hk : st.kind = .compound
  · have ht := hc hk
    simp only [presentAt] at ht
    cases hg : (Data.map m).get? "states" with
    | none => rw [hg] at ht; exact absurd ht (by simp)
    | some v =>
      obtain ⟨l, rfl, hl⟩ := h.states v hg
      have := nodes_get m _ _ hg
      simp only [Data.nodes] at this
      simp only [hk, beq_self_eq_true, if_true]
      exact ⟨l, rfl, hl, by omega⟩
  · by_cases hk2 : st.kind = .orthogonal
    · have ht := ho hk2
      simp only [presentAt] at ht
      cases hg : (Data.map m).get? "parallel states" with
      | none => rw [hg] at ht; exact absurd ht (by simp)
      | some v =>
        obtain ⟨l, rfl, hl⟩ := h.parallel v hg
        have := nodes_get m _ _ hg
        simp only [Data.nodes] at this
        have e1 : (st.kind == Kind.compound) = false := by simp [hk]
        simp only [e1, hk2, beq_self_eq_true, if_true, Bool.false_eq_true, if_false]
        exact ⟨l, rfl, hl, by omega⟩
    · have e1 : (st.kind == Kind.compound) = false := by simp [hk]
      have e2 : (st.kind == Kind.orthogonal) = false := by simp [hk2]
      simp only [e1, e2, Bool.false_eq_true, if_false]
      refine ⟨[], rfl, by simp, ?_⟩
      simp only [nodesList]
      -- a validated state has a `name` entry, so its map is not empty
      obtain ⟨s, hs⟩ := h.name
      have := nodes_get m _ _ hs
      simp only [Data.nodes] at this
      omega

theorem importTds_ok (f : Nat) (d : Data) (h : StateOK f d) : ∃ tds, importTds d = .ok tds := by
  unfold importTds
  cases hg : d.get? "transitions" with
  | none => exact ⟨[], rfl⟩
  | some v =>
    obtain ⟨l, rfl⟩ := h.transitions v hg
    exact ⟨l, rfl⟩

theorem importLoop_not_other : ∀ (fuel : Nat) (todo : List (Data × Option Name))
    (sts : List (StateDef × Option Name)) (ts : List Trans),
    (∀ x ∈ todo, ∃ f, StateOK f x.1) → todoSize todo + 1 ≤ fuel →
    importLoop fuel todo sts ts ≠ .error .other
  | 0, _, _, _, _, hf => by omega
  | fuel+1, todo, sts, ts, hok, hf => by
    unfold importLoop
    cases hl : todo.getLast? with
    | none => simp
    | some x =>
      obtain ⟨d, par⟩ := x
      have hsplit : todo = todo.dropLast ++ [(d, par)] := by
        have hne : todo ≠ [] := by intro e; rw [e] at hl; simp at hl
        have := List.dropLast_concat_getLast hne
        rw [List.getLast?_eq_getLast hne] at hl
        simp only [Option.some.injEq] at hl
        rw [hl] at this
        exact this.symm
      obtain ⟨f, hd⟩ := hok (d, par) (by rw [hsplit]; simp)
      simp only
      rcases importState_spec f d hd with he | ⟨st, hst, hc, ho⟩
      · simp [he]
      · obtain ⟨m, rfl⟩ := hd.isMap
        obtain ⟨subs, hsubs, hsv, hsz⟩ := importSubs_spec f m st hd hc ho
        obtain ⟨tds, htds⟩ := importTds_ok f _ hd
        simp only [hst, hsubs, htds]
        cases hm : tds.mapM (importTransition st.name) with
        | error e => simp
        | ok new =>
          simp only
          apply importLoop_not_other fuel
          · intro x hx
            rcases List.mem_append.mp hx with hx | hx
            · exact hok x (by rw [hsplit]; exact List.mem_append_left _ hx)
            · obtain ⟨s, hs, rfl⟩ := List.mem_map.mp hx
              obtain ⟨s0, hs0⟩ := hsv s hs
              cases f with
              | zero => simp [vState] at hs0
              | succ f' => exact ⟨f', vState_ok f' s0 s hs0⟩
          · have h1 : todoSize todo = todoSize todo.dropLast + (1 + nodesMap m) := by
              conv => lhs; rw [hsplit]
              rw [todoSize_append]
              simp [todoSize, nodesList, Data.nodes]
            rw [todoSize_append, todoSize_subs]
            omega

end Sismic

namespace Sismic

theorem foldl_bind_not_other {α β} (f : β → α → Except IOErr β) (hf : ∀ b a, f b a ≠ .error .other) :
    ∀ (l : List α) (init : Except IOErr β), init ≠ .error .other →
      l.foldl (fun (acc : Except IOErr β) a => acc.bind (fun b => f b a)) init ≠ .error .other
  | [], init, h => h
  | a :: l, init, h => by
    simp only [List.foldl_cons]
    apply foldl_bind_not_other f hf l
    cases init with
    | error e => exact h
    | ok b => exact hf b a

theorem buildChart_not_other (c0 : Chart) (sts : List (StateDef × Option Name)) (ts : List Trans) :
    buildChart c0 sts ts ≠ .error .other := by
  unfold buildChart
  have h1 := foldl_bind_not_other addStateStep
    (by intro b a; unfold addStateStep; split <;> simp) sts (.ok c0) (by simp)
  split
  · next e he => rw [he] at h1; exact h1
  · next c1 _ =>
    have h2 := foldl_bind_not_other addTransStep
      (by intro b a; unfold addTransStep; split <;> simp) ts (.ok c1) (by simp)
    split
    · next e he => rw [he] at h2; exact h2
    · split <;> simp

/-- **Never another exception type**: whatever the document, `import_from_yaml` (after the YAML
    text was loaded) returns a statechart or raises `StatechartError`. -/
theorem importYamlData_not_other (fuel : Nat) (d : Data) : importYamlData fuel d ≠ .error .other := by
  unfold importYamlData
  cases hv : schemaValidate fuel d with
  | none => simp
  | some d' =>
    simp only
    unfold schemaValidate at hv
    obtain ⟨l, rfl, hfrom, hreq⟩ := vDict_spec _ _ _ hv
    obtain ⟨sc, hsc⟩ := hreq _ List.mem_cons_self rfl
    obtain ⟨e, he, v0, hv0⟩ := hfrom "statechart" sc hsc
    simp [List.find?] at he; subst he
    obtain ⟨l2, rfl, hfrom2, hreq2⟩ := vDict_spec _ _ _ hv0
    obtain ⟨nm, hnm⟩ := hreq2 ("name", false, vUseStr) (by simp) rfl
    obtain ⟨e2, he2, n0, hn0⟩ := hfrom2 "name" nm hnm
    simp [List.find?] at he2; subst he2
    obtain ⟨name, rfl⟩ := vUseStr_str _ _ hn0
    obtain ⟨root, hroot⟩ := hreq2 ("root state", false, vState fuel) (by simp) rfl
    obtain ⟨e3, he3, r0, hr0⟩ := hfrom2 "root state" root hroot
    simp [List.find?] at he3; subst he3
    unfold importDict
    simp only [hsc, hnm, hroot]
    have hloop : importLoop ((Data.map l).nodes + 2) [(root, none)] [] [] ≠ .error .other := by
      apply importLoop_not_other
      · intro x hx
        simp only [List.mem_singleton] at hx
        subst hx
        cases fuel with
        | zero => simp [vState] at hr0
        | succ f => exact ⟨f, vState_ok f r0 root hr0⟩
      · have h1 := nodes_get l2 _ _ hroot
        have h2 := nodes_get l _ _ hsc
        simp only [Data.nodes] at h2 ⊢
        simp only [todoSize, List.map_cons, List.map_nil, nodesList]
        omega
    split
    · next e he =>
      intro h
      injection h with h
      subst h
      exact hloop he
    · exact buildChart_not_other _ _ _

end Sismic
