import Sismic.Proofs.LogFilters
import Sismic.Model.World
/-!
# Sismic.Proofs.C15 — every raised meta-event reaches every listener once, in order;
`InternalEventListener` forwards exactly the `event sent` ones
-/
namespace Sismic
open M

variable {σ : Type}

/-- listeners that only record what they are given (listener id, meta-event), in call order -/
def recDeliver : Nat → Event → Int → List (Nat × Event) → Except Err Unit × List (Nat × Event) × List Event :=
  fun l m _ w => (.ok (), w ++ [(l, m)], [])

def deliveries (listeners : List Nat) (l : List Effect) : List (Nat × Event) :=
  (metaOfEffects l).flatMap (fun m => listeners.map (fun k => (k, m)))

/-- listeners unchanged; the world grew by the deliveries of the meta-events logged -/
def RW (rs rs' : RS σ (List (Nat × Event))) : Prop :=
  rs'.st.listeners = rs.st.listeners ∧
  ∃ l, rs'.eff = rs.eff ++ l ∧ rs'.world = rs.world ++ deliveries rs.st.listeners l

theorem deliveries_append (ls : List Nat) (a b : List Effect) :
    deliveries ls (a ++ b) = deliveries ls a ++ deliveries ls b := by
  simp [deliveries, metaOf_append, List.flatMap_append]

theorem RW_pre : PreOrd (RW : RS σ (List (Nat × Event)) → RS σ (List (Nat × Event)) → Prop) where
  refl a := ⟨rfl, [], by simp, by simp [deliveries]⟩
  trans a b c h1 h2 := by
    obtain ⟨l1, e1, he1, hw1⟩ := h1
    obtain ⟨l2, e2, he2, hw2⟩ := h2
    refine ⟨l2.trans l1, e1 ++ e2, by rw [he2, he1, List.append_assoc], ?_⟩
    rw [hw2, hw1, l1, deliveries_append, List.append_assoc]

variable (env : Env σ (List (Nat × Event)))

theorem forEach_rec (hd : env.deliver = recDeliver) (m : Event) : ∀ (ls : List Nat) (rs : RS σ (List (Nat × Event))),
    (M.forEach (callListener env m) ls rs).2.world = rs.world ++ ls.map (fun k => (k, m)) ∧
    (M.forEach (callListener env m) ls rs).2.st = rs.st ∧
    (M.forEach (callListener env m) ls rs).2.eff = rs.eff
  | [], rs => by simp [M.forEach, M.pure]
  | l :: ls, rs => by
    have hc : callListener env m l rs = (.ok (), { rs with world := rs.world ++ [(l, m)] }) := by
      unfold callListener
      rw [hd]
      simp [recDeliver]
    simp only [M.forEach, M.bind, hc]
    have ih := forEach_rec hd m ls { rs with world := rs.world ++ [(l, m)] }
    refine ⟨?_, ih.2.1, ih.2.2⟩
    rw [ih.1]
    simp

theorem rw_respects (hd : env.deliver = recDeliver) : Respects env (RW : RS σ _ → RS σ _ → Prop) where
  pre := RW_pre
  modify f hf := fun rs => ⟨(hf rs.st).2, [], by simp [M.modify], by simp [M.modify, deliveries]⟩
  emit e he := fun rs => ⟨rfl, [e], rfl, by
    cases e <;> simp [Effect.isPlain] at he <;> simp [M.emit, deliveries]⟩
  raise m := by
    intro rs
    unfold raiseMeta
    simp only [M.bind, M.emit, M.get]
    have h := forEach_rec env hd m rs.st.listeners { rs with eff := rs.eff ++ [.metaEv m] }
    refine ⟨by rw [h.2.1], [.metaEv m], h.2.2, ?_⟩
    rw [h.1]
    simp [deliveries]
  contract := contract_of_prims env RW_pre
    (fun f hf rs => ⟨(hf rs.st).2.1, [], by simp [M.modify], by simp [M.modify, deliveries]⟩)
    (fun k o i e r rs => ⟨rfl, [.cond k o i e r], rfl, by simp [M.emit, deliveries]⟩)

/-- **Each listener, each meta-event, once, in order** — for every outcome of the call: with
    recording listeners, what was delivered during `execute_once` is, for each meta-event logged
    (in order), one delivery to each attached listener (in attachment order). -/
theorem deliveries_recorded (hd : env.deliver = recDeliver) (clock : Int) (rs : RS σ (List (Nat × Event))) :
    ∃ l, (executeOnce env clock rs).2.eff = rs.eff ++ l ∧
      (executeOnce env clock rs).2.world = rs.world ++ deliveries rs.st.listeners l := by
  unfold executeOnce
  have key := rel_executeOnce_tail (rw_respects env hd).toQ clock { rs with st := { rs.st with time := clock, sentEvents := [] } }
  simp only [M.bind, M.modify] at key ⊢
  exact key.2

/-! ### what `bind` forwards -/

/-- a callable bound with `bind` receives `Event(name, **data)` of the sent event for an
    `event sent` meta-event, and nothing for any other meta-event -/
theorem bindCallback_forwards (fuel i l k : Nat) (m : Event) (time : Int) (w : World)
    (hl : w.listeners[l]? = some (.bindCallback k)) :
    worldDeliver fuel i l m time w =
      if m.name == "event sent" then
        match assocGet "event" m.data with
        | some (.ev n d) => (.ok (), w.record k { name := n, data := d }, [])
        | _ => (.error (.listener l), w, [])
      else (.ok (), w, []) := by
  cases fuel <;> simp only [worldDeliver, hl] <;> split <;> try rfl
  all_goals (split <;> first | rfl | (rename_i h1 h2; simp_all))

/-- an interpreter bound with `bind` gets the event queued as an external event (on itself when it
    is the sender: self-binding), for `event sent` only -/
theorem bindInterp_forwards (fuel i l j : Nat) (m : Event) (time : Int) (w : World)
    (hl : w.listeners[l]? = some (.bindInterp j)) :
    worldDeliver fuel i l m time w =
      if m.name == "event sent" then
        match assocGet "event" m.data with
        | some (.ev n d) =>
          if j == i then (.ok (), w, [{ name := n, data := d }])
          else (.ok (), w.modifySlot j (extQueue { name := n, data := d }), [])
        | _ => (.error (.listener l), w, [])
      else (.ok (), w, []) := by
  cases fuel <;> simp only [worldDeliver, hl] <;> split <;> try rfl
  all_goals (split <;> first | rfl | (rename_i h1 h2; simp_all))

end Sismic
