import Sismic.Proofs.Equivariant
import Sismic.Model.Plan
/-!
# Sismic.Proofs.EquivSelect — transition selection and step planning commute with an order-preserving renaming

For `ρ` injective and order-preserving on the names the statechart mentions: the transitions
selected in the substituted statechart, for the substituted configuration, are the substituted
selected transitions (same guard calls in the same order); `_sort_transitions` raises the same
error or returns the substituted order; `_create_steps` and `_create_stabilization_step` give the
substituted micro steps.
-/
namespace Sismic

/-! ### `sorted_groupby` -/

section GroupBy
variable {κ κ' : Type} [DecidableEq κ] [DecidableEq κ']

theorem insKey_map (g : κ → κ') (P : κ → Prop) (le : κ → κ → Bool) (le' : κ' → κ' → Bool)
    (hinj : ∀ a b, P a → P b → g a = g b → a = b) (hle : ∀ a b, P a → P b → le' (g a) (g b) = le a b)
    (k : κ) (hk : P k) : ∀ ks : List κ, (∀ y ∈ ks, P y) →
      insKey le' (g k) (ks.map g) = (insKey le k ks).map g
  | [], _ => rfl
  | y :: ys, h => by
    have hy : P y := h y (by simp)
    simp only [List.map_cons, insKey]
    by_cases e : k = y
    · subst e; simp
    · have e' : g k ≠ g y := fun x => e (hinj k y hk hy x)
      simp only [e, e', if_false, hle k y hk hy]
      split
      · rfl
      · simp only [List.map_cons]
        rw [insKey_map g P le le' hinj hle k hk ys (fun z hz => h z (by simp [hz]))]

theorem keysSorted_map {α α' : Type} (g : κ → κ') (P : κ → Prop) (le : κ → κ → Bool) (le' : κ' → κ' → Bool)
    (hinj : ∀ a b, P a → P b → g a = g b → a = b) (hle : ∀ a b, P a → P b → le' (g a) (g b) = le a b)
    (f : α → α') (key : α → κ) (key' : α' → κ') (xs : List α)
    (hkey : ∀ x ∈ xs, key' (f x) = g (key x)) (hP : ∀ x ∈ xs, P (key x)) :
    keysSorted le' key' (xs.map f) = (keysSorted le key xs).map g := by
  simp only [keysSorted]
  have : ∀ (xs : List α) (acc : List κ), (∀ x ∈ xs, key' (f x) = g (key x)) → (∀ x ∈ xs, P (key x)) →
      (∀ y ∈ acc, P y) →
      (xs.map f).foldl (fun acc x => insKey le' (key' x) acc) (acc.map g) =
        (xs.foldl (fun acc x => insKey le (key x) acc) acc).map g := by
    intro xs
    induction xs with
    | nil => intros; rfl
    | cons x xs ih =>
      intro acc hk hp hacc
      simp only [List.map_cons, List.foldl_cons]
      rw [hk x (by simp), insKey_map g P le le' hinj hle (key x) (hp x (by simp)) acc hacc]
      apply ih _ (fun y hy => hk y (by simp [hy])) (fun y hy => hp y (by simp [hy]))
      intro y hy
      rcases (mem_insKey le (key x) y acc).1 hy with e | h
      · subst e; exact hp x (by simp)
      · exact hacc y h
  exact this xs [] hkey hP (by simp)

end GroupBy

theorem filter_map_comm {α β : Type} (f : α → β) (p : α → Bool) (p' : β → Bool) :
    ∀ l : List α, (∀ x ∈ l, p' (f x) = p x) → (l.map f).filter p' = (l.filter p).map f
  | [], _ => rfl
  | x :: xs, h => by
    simp only [List.map_cons, List.filter_cons, h x (by simp)]
    split
    · simp only [List.map_cons]; rw [filter_map_comm f p p' xs (fun y hy => h y (by simp [hy]))]
    · exact filter_map_comm f p p' xs (fun y hy => h y (by simp [hy]))

theorem any_map_comm {α β : Type} (f : α → β) (p : α → Bool) (p' : β → Bool) :
    ∀ l : List α, (∀ x ∈ l, p' (f x) = p x) → (l.map f).any p' = l.any p
  | [], _ => rfl
  | x :: xs, h => by
    simp only [List.map_cons, List.any_cons, h x (by simp)]
    rw [any_map_comm f p p' xs (fun y hy => h y (by simp [hy]))]

/-! ### `_select_transitions` -/

def SelSt.rename (ρ : Name → Name) (ι : Nat → Nat) (st : SelSt) : SelSt :=
  { selected := st.selected.map (Trans.relabel ρ ι), ignored := st.ignored.map ρ,
    evaluated := st.evaluated.map (Trans.relabel ρ ι) }

section
variable {S : Name → Prop} {ρ : Name → Name} {ι : Nat → Nat} (hρ : RenOK S ρ)

theorem goClasses_rename (ok ok' : Trans → Bool) (G : List Trans)
    (hok : ∀ t ∈ G, ok' (t.relabel ρ ι) = ok t) : ∀ ps : List Int,
    goClasses ok' (G.map (Trans.relabel ρ ι)) ps = (goClasses ok G ps).map (List.map (Trans.relabel ρ ι))
  | [] => rfl
  | p :: ps => by
    simp only [goClasses]
    have e1 : (G.map (Trans.relabel ρ ι)).filter (fun t => t.priority = p) =
        (G.filter (fun t => t.priority = p)).map (Trans.relabel ρ ι) :=
      filter_map_comm _ _ _ G (fun x _ => rfl)
    have hsub : ∀ t ∈ G.filter (fun t => t.priority = p), ok' (t.relabel ρ ι) = ok t :=
      fun t ht => hok t (List.mem_filter.1 ht).1
    rw [e1, any_map_comm _ ok ok' _ hsub]
    split
    · simp only [Option.map_some]
      rw [filter_map_comm _ ok ok' _ hsub]
    · exact goClasses_rename ok ok' G hok ps

theorem goEvaluated_rename (ok ok' : Trans → Bool) (G : List Trans)
    (hok : ∀ t ∈ G, ok' (t.relabel ρ ι) = ok t) : ∀ ps : List Int,
    goEvaluated ok' (G.map (Trans.relabel ρ ι)) ps = (goEvaluated ok G ps).map (Trans.relabel ρ ι)
  | [] => rfl
  | p :: ps => by
    simp only [goEvaluated]
    have e1 : (G.map (Trans.relabel ρ ι)).filter (fun t => t.priority = p) =
        (G.filter (fun t => t.priority = p)).map (Trans.relabel ρ ι) :=
      filter_map_comm _ _ _ G (fun x _ => rfl)
    have hsub : ∀ t ∈ G.filter (fun t => t.priority = p), ok' (t.relabel ρ ι) = ok t :=
      fun t ht => hok t (List.mem_filter.1 ht).1
    rw [e1, any_map_comm _ ok ok' _ hsub]
    split
    · rfl
    · rw [List.map_append, goEvaluated_rename ok ok' G hok ps]

include hρ

theorem stepSrc_rename (c : Chart) (hc : NamesIn S c) {c' : Chart} (hr : IsRen ρ ι c c') (ok ok' : Trans → Bool) (G : List Trans)
    (hG : ∀ t ∈ G, S t.source) (hok : ∀ t ∈ G, ok' (t.relabel ρ ι) = ok t)
    (st : SelSt) (hst : ∀ x ∈ st.ignored, S x) (src : Name) (hsrc : S src) :
    stepSrc c' ok' (G.map (Trans.relabel ρ ι)) (st.rename ρ ι) (ρ src) =
      (stepSrc c ok G st src).rename ρ ι := by
  unfold stepSrc
  have hmem : (ρ src ∈ (st.rename ρ ι).ignored) ↔ (src ∈ st.ignored) := hρ.mem st.ignored src hst hsrc
  by_cases hi : src ∈ st.ignored
  · rw [if_pos hi, if_pos (hmem.2 hi)]
  · rw [if_neg hi, if_neg (fun h => hi (hmem.1 h))]
    have e1 : (G.map (Trans.relabel ρ ι)).filter (fun t => t.source = ρ src) =
        (G.filter (fun t => t.source = src)).map (Trans.relabel ρ ι) := by
      apply filter_map_comm
      intro t ht
      show decide (ρ t.source = ρ src) = decide (t.source = src)
      by_cases e : t.source = src
      · simp [e]
      · have : ρ t.source ≠ ρ src := fun x => e (hρ.inj _ _ (hG t ht) hsrc x)
        simp [e, this]
    have hsub : ∀ t ∈ G.filter (fun t => t.source = src), ok' (t.relabel ρ ι) = ok t :=
      fun t ht => hok t (List.mem_filter.1 ht).1
    have e2 : keysSorted lePrio (·.priority) ((G.filter (fun t => t.source = src)).map (Trans.relabel ρ ι)) =
        keysSorted lePrio (·.priority) (G.filter (fun t => t.source = src)) := by
      have := keysSorted_map (id : Int → Int) (fun _ => True) lePrio lePrio (fun _ _ _ _ h => h) (fun _ _ _ _ => rfl)
        (Trans.relabel ρ ι) (·.priority) (·.priority) (G.filter (fun t => t.source = src)) (fun _ _ => rfl) (fun _ _ => trivial)
      simpa using this
    simp only [e1, e2, goEvaluated_rename ok ok' _ hsub, goClasses_rename ok ok' _ hsub]
    cases goClasses ok (G.filter (fun t => t.source = src))
        (keysSorted lePrio (·.priority) (G.filter (fun t => t.source = src))) with
    | none => simp [SelSt.rename]
    | some sel =>
      simp only [Option.map_some, SelSt.rename, List.map_append, ancestors_mapNames hρ c hc hr src hsrc,
        List.map_cons, List.map_nil]

theorem leSrc_mapNames (c : Chart) (hc : NamesIn S c) {c' : Chart} (hr : IsRen ρ ι c c') (a b : Name) (ha : S a) (hb : S b) :
    leSrc c' (ρ a) (ρ b) = leSrc c a b := by
  simp only [leSrc, depth_mapNames hρ c hc hr a ha, depth_mapNames hρ c hc hr b hb, hρ.mono a b ha hb]

omit hρ in
theorem stepSrc_ignored_in (c : Chart) (hc : NamesIn S c) (ok : Trans → Bool) (G : List Trans)
    (st : SelSt) (hst : ∀ x ∈ st.ignored, S x) (src : Name) (hsrc : S src) :
    ∀ x ∈ (stepSrc c ok G st src).ignored, S x := by
  unfold stepSrc
  by_cases hi : src ∈ st.ignored
  · rw [if_pos hi]; exact hst
  · rw [if_neg hi]
    dsimp only
    split
    · intro x hx
      simp only [List.mem_append, List.mem_singleton] at hx
      rcases hx with (h | h) | h
      · exact hst x h
      · exact hc.ancestors_in src x h
      · subst h; exact hsrc
    · exact hst

theorem selectGroup_rename (c : Chart) (hc : NamesIn S c) {c' : Chart} (hr : IsRen ρ ι c c') (ok ok' : Trans → Bool) (G : List Trans)
    (hG : ∀ t ∈ G, S t.source) (hok : ∀ t ∈ G, ok' (t.relabel ρ ι) = ok t) :
    selectGroup c' ok' (G.map (Trans.relabel ρ ι)) = (selectGroup c ok G).rename ρ ι := by
  unfold selectGroup
  have hk : keysSorted (leSrc c') (·.source) (G.map (Trans.relabel ρ ι)) =
      (keysSorted (leSrc c) (·.source) G).map ρ :=
    keysSorted_map ρ S (leSrc c) (leSrc c') hρ.inj (leSrc_mapNames hρ c hc hr)
      (Trans.relabel ρ ι) (·.source) (·.source) G (fun _ _ => rfl) hG
  rw [hk]
  have hkeys : ∀ x ∈ keysSorted (leSrc c) (·.source) G, S x := by
    intro x hx
    obtain ⟨t, ht, e⟩ := (mem_keysSorted _ _ _ _).1 hx
    exact e ▸ hG t ht
  have : ∀ (l : List Name) (st : SelSt), (∀ x ∈ l, S x) → (∀ x ∈ st.ignored, S x) →
      (l.map ρ).foldl (stepSrc c' ok' (G.map (Trans.relabel ρ ι))) (st.rename ρ ι) =
        (l.foldl (stepSrc c ok G) st).rename ρ ι := by
    intro l
    induction l with
    | nil => intros; rfl
    | cons x xs ih =>
      intro st hl hst
      simp only [List.map_cons, List.foldl_cons]
      rw [stepSrc_rename hρ c hc hr ok ok' G hG hok st hst x (hl x (by simp))]
      exact ih _ (fun y hy => hl y (by simp [hy]))
        (stepSrc_ignored_in c hc ok G st hst x (hl x (by simp)))
  have h0 : ({} : SelSt) = ({} : SelSt).rename ρ ι := rfl
  rw [h0]
  exact this _ _ hkeys (by simp)

def SelResult.rename (ρ : Name → Name) (ι : Nat → Nat) (r : SelResult) : SelResult :=
  { selected := r.selected.map (Trans.relabel ρ ι), calls := r.calls.map (fun p => (p.1.relabel ρ ι, p.2)) }

omit hρ in
theorem guardCalls_rename (st : SelSt) (b : Bool) :
    guardCalls (st.rename ρ ι) b = (guardCalls st b).map (fun p => (p.1.relabel ρ ι, p.2)) := by
  simp only [guardCalls, SelSt.rename]
  rw [filter_map_comm (Trans.relabel ρ ι) (fun t => t.guard.isSome) (fun t => t.guard.isSome) _ (fun _ _ => rfl)]
  simp [List.map_map, Function.comp_def]

/-- **Selection commutes with the renaming**: same transitions selected (substituted), same guard
    evaluations in the same order. -/
theorem selectTransitions_rename (c : Chart) (hc : NamesIn S c) {c' : Chart} (hr : IsRen ρ ι c c') (cfg : List Name) (hcfg : ∀ x ∈ cfg, S x)
    (evName : Option String) (ok ok' : Trans → Bool → Bool)
    (hok : ∀ t ∈ c.transitions, ∀ b, ok' (t.relabel ρ ι) b = ok t b) :
    selectTransitions c' (cfg.map ρ) evName ok' =
      (selectTransitions c cfg evName ok).rename ρ ι := by
  unfold selectTransitions
  have e0 : c'.transitions.filter (fun t =>
        (cfg.map ρ).contains t.source && (t.event.isNone || t.event == evName)) =
      (c.transitions.filter (fun t => cfg.contains t.source && (t.event.isNone || t.event == evName))).map
        (Trans.relabel ρ ι) := by
    rw [hr.transitions]
    apply filter_map_comm
    intro t ht
    show ((cfg.map ρ).contains (ρ t.source) && _) = _
    rw [hρ.contains cfg t.source hcfg (hc.transS t ht)]
    rfl
  simp only [e0]
  obtain ⟨considered, hcons⟩ : ∃ X, X = c.transitions.filter (fun t =>
      cfg.contains t.source && (t.event.isNone || t.event == evName)) := ⟨_, rfl⟩
  rw [← hcons]
  have hsub : ∀ t ∈ considered, t ∈ c.transitions := fun t ht => by
    rw [hcons] at ht; exact (List.mem_filter.1 ht).1
  have f0 : (considered.map (Trans.relabel ρ ι)).filter (fun t => t.event.isNone) =
      (considered.filter (fun t => t.event.isNone)).map (Trans.relabel ρ ι) :=
    filter_map_comm _ _ _ _ (fun _ _ => rfl)
  have f1 : (considered.map (Trans.relabel ρ ι)).filter (fun t => t.event.isSome) =
      (considered.filter (fun t => t.event.isSome)).map (Trans.relabel ρ ι) :=
    filter_map_comm _ _ _ _ (fun _ _ => rfl)
  have g0 := selectGroup_rename hρ c hc hr (fun t => ok t false) (fun t => ok' t false)
    (considered.filter (fun t => t.event.isNone))
    (fun t ht => hc.transS t (hsub t (List.mem_filter.1 ht).1))
    (fun t ht => hok t (hsub t (List.mem_filter.1 ht).1) false)
  have g1 := selectGroup_rename hρ c hc hr (fun t => ok t true) (fun t => ok' t true)
    (considered.filter (fun t => t.event.isSome))
    (fun t ht => hc.transS t (hsub t (List.mem_filter.1 ht).1))
    (fun t ht => hok t (hsub t (List.mem_filter.1 ht).1) true)
  simp only [f0, f1, g0, g1]
  obtain ⟨r0, hr0⟩ : ∃ X, X = selectGroup c (fun t => ok t false) (considered.filter (fun t => t.event.isNone)) := ⟨_, rfl⟩
  obtain ⟨r1, hr1⟩ : ∃ X, X = selectGroup c (fun t => ok t true) (considered.filter (fun t => t.event.isSome)) := ⟨_, rfl⟩
  rw [← hr0, ← hr1]
  have hemp : (r0.rename ρ ι).selected.isEmpty = r0.selected.isEmpty := by simp [SelSt.rename]
  rw [hemp]
  cases r0.selected.isEmpty with
  | true =>
    simp only [Bool.not_true, Bool.false_eq_true, if_false, SelResult.rename, guardCalls_rename, List.map_append]
    rfl
  | false =>
    simp only [Bool.not_false, if_true, SelResult.rename, guardCalls_rename]
    rfl

end

end Sismic
