import Sismic.Proofs.EquivRun
import Sismic.Proofs.Equiv
import Sismic.Proofs.Rename
import Sismic.Proofs.OldStore
/-!
# Sismic.Proofs.RoundTripRun — a statechart with the same content behaves identically

Two statecharts whose dictionaries are consistent (`Tidy`) and which give the same answers to every
lookup (`state_for`, `parent_for`, the children of a state as a set) and hold the same transitions
but for their identities, are — up to a re-identification `ι` of the transitions — declared in
another order (`ChartPerm`).  By C07 (declaration order is invisible) and the relabelling theorem
(`EquivRun`, with `ρ = id`) they produce the same runs but for the identities of the transitions.
This is what the YAML round trip delivers (`RoundTripBuild.import_export_succeeds`).
-/
namespace Sismic

/-! ### lists with unique keys that answer every lookup alike are permutations of each other -/

section Lookup
variable {α κ : Type} [DecidableEq κ]

theorem find?_key_iff (key : α → κ) : ∀ (l : List α), (l.map key).Nodup → ∀ (k : κ) (x : α),
    l.find? (fun y => key y == k) = some x ↔ (x ∈ l ∧ key x = k)
  | [], _, k, x => by simp
  | y :: ys, hn, k, x => by
    rw [List.map_cons] at hn
    obtain ⟨hy, hn'⟩ := List.nodup_cons.mp hn
    simp only [List.find?_cons]
    by_cases hk : key y = k
    · simp only [hk, beq_self_eq_true]
      constructor
      · intro h; cases h; exact ⟨by simp, hk⟩
      · rintro ⟨hx, hxk⟩
        rcases List.mem_cons.1 hx with e | hx'
        · rw [e]
        · exact absurd (List.mem_map.2 ⟨x, hx', hxk.trans hk.symm⟩) hy
    · have : (key y == k) = false := by simp [hk]
      simp only [this]
      rw [find?_key_iff key ys hn' k x]
      constructor
      · rintro ⟨hx, hxk⟩; exact ⟨by simp [hx], hxk⟩
      · rintro ⟨hx, hxk⟩
        rcases List.mem_cons.1 hx with e | hx'
        · exact absurd (e ▸ hxk) hk
        · exact ⟨hx', hxk⟩

theorem nodup_of_map_nodup (key : α → κ) : ∀ (l : List α), (l.map key).Nodup → l.Nodup
  | [], _ => List.nodup_nil
  | x :: xs, h => by
    rw [List.map_cons] at h
    obtain ⟨hx, hn⟩ := List.nodup_cons.mp h
    exact List.nodup_cons.mpr ⟨fun hm => hx (List.mem_map.2 ⟨x, hm, rfl⟩), nodup_of_map_nodup key xs hn⟩

theorem perm_of_lookups (key : α → κ) (l l' : List α) (hn : (l.map key).Nodup) (hn' : (l'.map key).Nodup)
    (h : ∀ k, l'.find? (fun y => key y == k) = l.find? (fun y => key y == k)) : l'.Perm l := by
  apply (List.perm_ext_iff_of_nodup (nodup_of_map_nodup key l' hn') (nodup_of_map_nodup key l hn)).2
  intro a
  constructor
  · intro ha
    have := (find?_key_iff key l' hn' (key a) a).2 ⟨ha, rfl⟩
    rw [h] at this
    exact ((find?_key_iff key l hn (key a) a).1 this).1
  · intro ha
    have := (find?_key_iff key l hn (key a) a).2 ⟨ha, rfl⟩
    rw [← h] at this
    exact ((find?_key_iff key l' hn' (key a) a).1 this).1

end Lookup

/-! ### re-identifying transitions along a permutation -/

/-- a transition with another identity -/
def Trans.reid (i : Nat) (t : Trans) : Trans := { t with id := i }

theorem Trans.reid_zero_eq {t u : Trans} (h : t.reid 0 = u.reid 0) : u = t.reid u.id := by
  cases t; cases u
  simp only [Trans.reid, Trans.mk.injEq, true_and] at h
  obtain ⟨h2, h3, h4, h5, h6, h7, h8, h9, h10⟩ := h
  subst h2 h3 h4 h5 h6 h7 h8 h9 h10
  rfl

/-- if `l'` is `l` but for the identities and the order, and the identities in `l` are distinct,
    there is a map `ι` of identities under which `l'` is a permutation of the re-identified `l` -/
theorem exists_reid : ∀ (l l' : List Trans), (l.map (·.id)).Nodup →
    (l'.map (Trans.reid 0)).Perm (l.map (Trans.reid 0)) →
    ∃ ι : Nat → Nat, l'.Perm (l.map (fun t => t.reid (ι t.id)))
  | [], l', _, hp => by
    have : l' = [] := by simpa using hp.length_eq
    exact ⟨id, by rw [this]; exact List.Perm.nil⟩
  | t :: ts, l', hn, hp => by
    rw [List.map_cons] at hn
    obtain ⟨ht, hn'⟩ := List.nodup_cons.mp hn
    -- the counterpart of `t` in `l'`
    have hm : t.reid 0 ∈ l'.map (Trans.reid 0) := hp.symm.subset (by simp)
    obtain ⟨u, hu, hue⟩ := List.mem_map.1 hm
    have hu' : u = t.reid u.id := Trans.reid_zero_eq hue.symm
    -- the rest
    obtain ⟨s1, s2, hsplit⟩ := List.append_of_mem hu
    have hmid : l'.Perm (u :: (s1 ++ s2)) := by rw [hsplit]; exact List.perm_middle
    have hp' : ((s1 ++ s2).map (Trans.reid 0)).Perm (ts.map (Trans.reid 0)) := by
      have h1 : (l'.map (Trans.reid 0)).Perm (u.reid 0 :: (s1 ++ s2).map (Trans.reid 0)) := by
        simpa using hmid.map (Trans.reid 0)
      rw [hue] at h1
      exact (List.perm_cons _).1 (h1.symm.trans (by simpa using hp))
    obtain ⟨ι, hι⟩ := exists_reid ts (s1 ++ s2) hn' hp'
    refine ⟨fun i => if i = t.id then u.id else ι i, ?_⟩
    have hrest : ts.map (fun x => x.reid ((fun i => if i = t.id then u.id else ι i) x.id)) =
        ts.map (fun x => x.reid (ι x.id)) := by
      apply List.map_congr_left
      intro x hx
      have : x.id ≠ t.id := fun e => ht (List.mem_map.2 ⟨x, hx, e⟩)
      simp [this]
    simp only [List.map_cons, if_true, hrest]
    rw [← hu']
    exact hmid.trans (List.Perm.cons u hι)

/-! ### same content ⇒ declared in another order, up to the identities of the transitions -/

theorem chartPerm_of_lookups (c c' : Chart) (T : List Trans) (hc : Tidy c) (hc' : Tidy c')
    (F1 : ∀ n, c'.stateFor n = c.stateFor n) (F2 : ∀ n, c'.parentFor n = c.parentFor n)
    (F3 : ∀ q m, m ∈ c'.childrenFor q ↔ m ∈ c.childrenFor q) (hT : c'.transitions.Perm T) :
    ChartPerm { c with transitions := T } c' := by
  have HS : ∀ n, c'.hasState n = c.hasState n := fun n => by simp [Chart.hasState, F1]
  refine ⟨?_, hc.names, ?_, hc.parentKeys, hc.oneRoot, ?_, hT⟩
  · exact perm_of_lookups (·.name) c.states c'.states hc.names hc'.names F1
  · -- the `_parent` entries: same keys (the states), same values
    apply perm_of_lookups (·.1) c.parent c'.parent hc.parentKeys hc'.parentKeys
    intro k
    have key : ∀ (d : Chart), Tidy d → ∀ k, d.parent.find? (fun y => y.1 == k) =
        if d.hasState k then some (k, d.parentFor k) else none := by
      intro d hd k
      cases hf : d.parent.find? (fun y => y.1 == k) with
      | none =>
        have hnk : k ∉ d.parent.map (·.1) := by
          intro hk
          obtain ⟨p, hp, e⟩ := List.mem_map.1 hk
          have := List.find?_eq_none.1 hf p hp
          simp [e] at this
        have : d.hasState k = false := by
          cases hh : d.hasState k with
          | false => rfl
          | true => exact absurd (hd.statesHaveEntry k hh) hnk
        simp [this]
      | some p =>
        have hp := List.mem_of_find?_eq_some hf
        have hk : p.1 = k := by simpa using List.find?_some hf
        have : d.hasState k = true := hd.parentKeysStates k (List.mem_map.2 ⟨p, hp, hk⟩)
        simp only [this, if_true, Chart.parentFor, hf]
        cases p; simp_all
    rw [key c' hc' k, key c hc k, HS k, F2 k]
  · intro n
    exact (List.perm_ext_iff_of_nodup (hc'.childrenNodup n) (hc.childrenNodup n)).2 (fun m => F3 n m)

/-! ### re-identifying the transitions of a statechart changes nothing the structure knows of -/

theorem StateDef.rename_id (s : StateDef) : s.rename _root_.id = s := by
  have h : ∀ o : Option Name, o.map _root_.id = o := fun o => by cases o <;> rfl
  cases s
  simp [StateDef.rename, h]

/-- `c` with its transitions re-identified by `ι` -/
def Chart.reid (ι : Nat → Nat) (c : Chart) : Chart :=
  { c with transitions := c.transitions.map (fun t => t.reid (ι t.id)) }

theorem Trans.relabel_id (ι : Nat → Nat) (t : Trans) : t.relabel _root_.id ι = t.reid (ι t.id) := by
  have h : ∀ o : Option Name, o.map _root_.id = o := fun o => by cases o <;> rfl
  cases t
  simp [Trans.relabel, Trans.reid, h]

theorem isRen_reid (ι : Nat → Nat) (c : Chart) : IsRen id ι c (c.reid ι) where
  states := by
    show c.states = c.states.map (StateDef.rename id)
    rw [List.map_congr_left (g := id) (fun s _ => StateDef.rename_id s), List.map_id]
  parent := by
    show c.parent = c.parent.map (fun p => (id p.1, p.2.map id))
    rw [List.map_congr_left (g := id) (fun p _ => by simp), List.map_id]
  children := by
    show c.children = c.children.map (fun p => (p.1.map id, p.2.map id))
    rw [List.map_congr_left (g := id) (fun p _ => by simp), List.map_id]
  transitions := by
    show c.transitions.map (fun t => t.reid (ι t.id)) = c.transitions.map (Trans.relabel id ι)
    exact List.map_congr_left (fun t _ => (Trans.relabel_id ι t).symm)

theorem renOK_id : RenOK (fun _ => True) (id : Name → Name) := ⟨fun _ _ _ _ h => h, fun _ _ _ _ => Iff.rfl⟩

theorem namesIn_true (c : Chart) : NamesIn (fun _ => True) c :=
  ⟨fun _ _ => trivial, fun _ _ _ _ => trivial, fun _ _ => trivial, fun _ _ _ _ => trivial, fun _ _ _ _ => trivial,
   fun _ _ _ _ => trivial, fun _ _ => trivial, fun _ _ _ _ => trivial⟩

section ReidFuncs
variable (ι : Nat → Nat) (c : Chart)

theorem reid_stateFor (n : Name) : (c.reid ι).stateFor n = c.stateFor n := rfl
theorem reid_parentFor (n : Name) : (c.reid ι).parentFor n = c.parentFor n := rfl
theorem reid_childrenFor (n : Name) : (c.reid ι).childrenFor n = c.childrenFor n := rfl
theorem reid_hasState (n : Name) : (c.reid ι).hasState n = c.hasState n := rfl
theorem reid_kindOf (n : Name) : (c.reid ι).kindOf n = c.kindOf n := rfl
theorem reid_root : (c.reid ι).root = c.root := rfl

theorem reid_lca (a b : Name) : (c.reid ι).lca a b = c.lca a b := by
  have := lca_mapNames renOK_id c (namesIn_true c) (isRen_reid ι c) a b trivial trivial
  simpa using this

theorem reid_lastBefore (s : Name) (l : Option Name) : lastBefore (c.reid ι) s l = lastBefore c s l := by
  have := lastBefore_rename renOK_id c (namesIn_true c) (isRen_reid ι c) s trivial l (fun _ _ => trivial)
  simpa using this

theorem wf_reid (hw : WFChart c) : WFChart (c.reid ι) where
  tree := by
    obtain ⟨r, h1, h2⟩ := hw.tree.rank
    exact ⟨⟨r, fun s p h => h1 s p h, fun s => h2 s⟩⟩
  names := hw.names
  root := hw.root
  parentState := hw.parentState
  nonroot := hw.nonroot
  children := hw.children
  childrenNodup := hw.childrenNodup
  composite := hw.composite
  initial := hw.initial
  regions := hw.regions
  history := hw.history
  transitions := by
    intro t ht
    obtain ⟨u, hu, rfl⟩ := List.mem_map.1 ht
    exact hw.transitions u hu
  sourceKind := by
    intro t ht
    obtain ⟨u, hu, rfl⟩ := List.mem_map.1 ht
    exact hw.sourceKind u hu
  noCross := by
    intro t ht tg l htg hl hk
    obtain ⟨u, hu, rfl⟩ := List.mem_map.1 ht
    rw [reid_lastBefore, reid_lastBefore]
    rw [reid_lca] at hl
    exact hw.noCross u hu tg l htg hl hk

end ReidFuncs

/-! ### the modelled `PythonEvaluator` cannot tell a re-identification of the transitions -/

/-- the identities the store may be asked about: every state, the transitions of `c` -/
def InDom (c : Chart) : ObjId → Prop
  | .state _ => True
  | .trans i => i ∈ c.transitions.map (·.id)

/-- evaluator states of the two runs: same variables; the `__old__` store of the second is that of
    the first under the re-identified keys -/
def PyR (ι : Nat → Nat) (c : Chart) (a a' : PyCtx) : Prop :=
  a'.vars = a.vars ∧ a'.unsupported = a.unsupported ∧
    ∀ o, InDom c o → assocGet (o.ren id ι) a'.old = assocGet o a.old

theorem pyEval_vars (env : PyEnv) (a a' : PyCtx) (code : Code) (h : a'.vars = a.vars) :
    pyEval env a' code = pyEval env a code := by
  unfold pyEval
  rw [h]

theorem renKeys_id {ν : Type} (l : List (Name × ν)) : renKeys id l = l := by
  unfold renKeys
  rw [List.map_congr_left (g := id) (fun p _ => by simp), List.map_id]

theorem renameMemory_id (l : List (Name × List Name)) : renameMemory id l = l := by
  unfold renameMemory
  rw [List.map_congr_left (g := id) (fun p _ => by simp), List.map_id]

theorem metaR_id {m m' : Event} (h : MetaR id m m') : m' = m := by
  cases h with
  | same => rfl
  | entered => rfl
  | exited => rfl
  | processed s tg ev => cases tg <;> rfl

theorem objId_ren_inj (ι : Nat → Nat) (c : Chart)
    (hinj : ∀ i j, i ∈ c.transitions.map (·.id) → j ∈ c.transitions.map (·.id) → ι i = ι j → i = j)
    (o o' : ObjId) (ho : InDom c o) (ho' : InDom c o') (h : o.ren id ι = o'.ren id ι) : o = o' := by
  cases o with
  | state n =>
    cases o' with
    | state n' => simpa [ObjId.ren] using h
    | trans j => simp [ObjId.ren] at h
  | trans i =>
    cases o' with
    | state n' => simp [ObjId.ren] at h
    | trans j =>
      simp only [ObjId.ren, ObjId.trans.injEq] at h
      rw [hinj i j ho ho' h]

theorem objOf_inDom (c : Chart) (obj : Obj) (h : ObjOf c obj) : InDom c obj.id := by
  cases obj with
  | state s => trivial
  | trans t => exact List.mem_map.2 ⟨t, h, rfl⟩

variable {ω : Type}

/-- **The two runs are related** (`EnvR` with `ρ = id`): the same statechart but for the identities
    of its transitions, the modelled `PythonEvaluator` on both sides, the same listeners. -/
theorem pyEnvR_reid (ι : Nat → Nat) (env env' : Env PyCtx ω)
    (hc : env'.chart = env.chart.reid ι)
    (hinj : ∀ i j, i ∈ env.chart.transitions.map (·.id) → j ∈ env.chart.transitions.map (·.id) → ι i = ι j → i = j)
    (hE : env.E = pyEvaluator) (hE' : env'.E = pyEvaluator) (hi : env'.ignoreContract = env.ignoreContract)
    (hf : env'.stabFuel = env.stabFuel) (hd : env'.deliver = env.deliver) :
    EnvR id ι (PyR ι env.chart) (fun _ => True) env env' where
  ok := renOK_id
  ren := hc ▸ isRen_reid ι env.chart
  names := namesIn_true _
  initial := fun _ _ _ _ => trivial
  ignore := hi
  fuel := hf
  guard := by
    intro st st' t ev h1 _ _ _
    rw [hE, hE']
    show pyGuard st' (t.relabel id ι) ev = pyGuard st t ev
    unfold pyGuard
    have hg : (t.relabel id ι).guard = t.guard := rfl
    have hs : (t.relabel id ι).source = t.source := rfl
    rw [hg, hs]
    cases t.guard with
    | none => rfl
    | some code =>
      simp only [viewEnv, h1.time, h1.config, List.map_id, h1.entryTime, h1.idleTime, renKeys_id]
      exact pyEval_vars _ _ _ _ h1.ctx.1
  cond := by
    intro st st' kind obj code ev h1 _ hobj _
    rw [hE, hE']
    show pyCond st' kind (obj.ren id ι) code ev = pyCond st kind obj code ev
    have hown : ownerOf (obj.ren id ι) = ownerOf obj := by cases obj <;> rfl
    have hold : assocGet (obj.ren id ι).id st'.ctx.old = assocGet obj.id st.ctx.old := by
      rw [Obj.ren_id]
      exact h1.ctx.2.2 obj.id (objOf_inDom _ obj hobj)
    unfold pyCond
    simp only [viewEnv, sentNames, h1.time, h1.config, List.map_id, h1.sentEvents, hown, hold, h1.entryTime,
      h1.idleTime, renKeys_id]
    cases kind with
    | pre => exact pyEval_vars _ _ _ _ h1.ctx.1
    | post => exact pyEval_vars _ _ _ _ h1.ctx.1
    | inv => exact pyEval_vars _ _ _ _ h1.ctx.1
  exec := by
    intro st st' k ev h1 _ _ _
    rw [hE, hE']
    show (pyExec st' (k.ren id ι) ev).2 = (pyExec st k ev).2 ∧ PyR ι env.chart (pyExec st k ev).1 (pyExec st' (k.ren id ι) ev).1
    obtain ⟨hv, hu, ho⟩ := h1.ctx
    unfold pyExec
    have hview : viewEnv st' = viewEnv st := by simp only [viewEnv, h1.time, h1.config, List.map_id]
    cases k with
    | onEntry s =>
      have : (s.rename id).onEntry = s.onEntry := rfl
      simp only [ExecKind.ren, this, hview, hv, hu]
      cases s.onEntry with
      | none => exact ⟨rfl, hv, hu, ho⟩
      | some code =>
        dsimp only
        split
        · exact ⟨rfl, rfl, rfl, ho⟩
        · exact ⟨rfl, rfl, rfl, ho⟩
    | onExit s =>
      have : (s.rename id).onExit = s.onExit := rfl
      simp only [ExecKind.ren, this, hview, hv, hu]
      cases s.onExit with
      | none => exact ⟨rfl, hv, hu, ho⟩
      | some code =>
        dsimp only
        split
        · exact ⟨rfl, rfl, rfl, ho⟩
        · exact ⟨rfl, rfl, rfl, ho⟩
    | action t =>
      have : (t.relabel id ι).action = t.action := rfl
      simp only [ExecKind.ren, this, hview, hv, hu]
      cases t.action with
      | none => exact ⟨rfl, hv, hu, ho⟩
      | some code =>
        dsimp only
        split
        · exact ⟨rfl, rfl, rfl, ho⟩
        · exact ⟨rfl, rfl, rfl, ho⟩
  freeze := by
    intro a a' obj hobj ⟨hv, hu, ho⟩
    rw [hE, hE']
    show PyR ι env.chart (pyFreeze a obj) (pyFreeze a' (obj.ren id ι))
    refine ⟨hv, hu, ?_⟩
    intro o hdo
    simp only [pyFreeze, Obj.ren_id, hv]
    by_cases e : o = obj.id
    · subst e
      rw [assocGet_assocSet_same', assocGet_assocSet_same']
    · have e' : o.ren id ι ≠ obj.id.ren id ι :=
        fun h => e (objId_ren_inj ι env.chart hinj o obj.id hdo (objOf_inDom _ obj hobj) h)
      rw [assocGet_assocSet_other' _ _ _ _ e', assocGet_assocSet_other' _ _ _ _ e]
      exact ho o hdo
  deliver := by
    intro l m m' t w hm
    rw [metaR_id hm, hd]

end Sismic
