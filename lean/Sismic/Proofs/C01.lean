import Sismic.Spec.C01
import Sismic.Proofs.Select
/-!
# Sismic.Proofs.C01 — `_select_transitions` computes exactly `Fires`
-/
namespace Sismic

theorem Anc.length_lt (c : Chart) (h : TreeOK c) {a s : Name} (ha : Anc c a s) :
    (c.ancestors a).length < (c.ancestors s).length := by
  induction ha with
  | @base s hp =>
    rw [ancestors_unfold c h s, hp]; simp
  | @step p s hp _ ih =>
    rw [ancestors_unfold c h s, hp]; simp; omega

theorem ancLaws_of_treeOK (c : Chart) (h : TreeOK c) : AncLaws c where
  anc_depth s a ha := by
    have := Anc.length_lt c h ((mem_ancestors c h s a).mp ha)
    unfold Chart.depth; omega
  anc_trans s a b h1 h2 :=
    (mem_ancestors c h s b).mpr
      (Anc.trans ((mem_ancestors c h a b).mp h2) ((mem_ancestors c h s a).mp h1))

theorem exists_argmax_int {α : Type} (f : α → Int) :
    ∀ (l : List α), l ≠ [] → ∃ x ∈ l, ∀ y ∈ l, f y ≤ f x := by
  intro l
  induction l with
  | nil => intro h; exact absurd rfl h
  | cons a l ih =>
    intro _
    by_cases hl : l = []
    · subst hl; exact ⟨a, by simp, by simp⟩
    · obtain ⟨x, hx, hmax⟩ := ih hl
      by_cases hax : f x ≤ f a
      · refine ⟨a, by simp, ?_⟩
        intro y hy
        rcases List.mem_cons.mp hy with rfl | hy
        · exact Int.le_refl _
        · exact Int.le_trans (hmax y hy) hax
      · refine ⟨x, List.mem_cons_of_mem _ hx, ?_⟩
        intro y hy
        rcases List.mem_cons.mp hy with rfl | hy
        · omega
        · exact hmax y hy

variable (c : Chart) (cfg : List Name) (evName : Option String) (ok : Trans → Bool → Bool)

/-- the transitions `_select_transitions` considers -/
def considered : List Trans :=
  c.transitions.filter (fun t => cfg.contains t.source && (t.event.isNone || t.event == evName))

theorem mem_g0 (t : Trans) :
    (t ∈ (considered c cfg evName).filter (fun t => t.event.isNone) ∧ ok t false = true) ↔
      (Enabled c cfg evName ok t ∧ t.event = none) := by
  unfold considered Enabled
  simp only [List.mem_filter, Bool.and_eq_true, Bool.or_eq_true, List.contains_iff_mem,
    Option.isNone_iff_eq_none, beq_iff_eq]
  constructor
  · rintro ⟨⟨⟨ht, hs, _⟩, hn⟩, hok⟩
    exact ⟨⟨ht, hs, Or.inl ⟨hn, hok⟩⟩, hn⟩
  · rintro ⟨⟨ht, hs, h⟩, hn⟩
    rcases h with ⟨_, hok⟩ | ⟨hne, _, _⟩
    · exact ⟨⟨⟨ht, hs, Or.inl hn⟩, hn⟩, hok⟩
    · exact absurd hn hne

theorem mem_g1 (t : Trans) :
    (t ∈ (considered c cfg evName).filter (fun t => t.event.isSome) ∧ ok t true = true) ↔
      (Enabled c cfg evName ok t ∧ t.event ≠ none) := by
  unfold considered Enabled
  simp only [List.mem_filter, Bool.and_eq_true, Bool.or_eq_true, List.contains_iff_mem,
    Option.isNone_iff_eq_none, beq_iff_eq, Option.isSome_iff_ne_none]
  constructor
  · rintro ⟨⟨⟨ht, hs, he⟩, hn⟩, hok⟩
    rcases he with he | he
    · exact absurd he hn
    · exact ⟨⟨ht, hs, Or.inr ⟨hn, he, hok⟩⟩, hn⟩
  · rintro ⟨⟨ht, hs, h⟩, hn⟩
    rcases h with ⟨he, _⟩ | ⟨_, he, hok⟩
    · exact absurd he hn
    · exact ⟨⟨⟨ht, hs, Or.inr he⟩, hn⟩, hok⟩

/-- **C01** — the selected transitions are exactly those the documented semantics fires. -/
theorem select_iff_fires (hT : TreeOK c) (t : Trans) :
    t ∈ (selectTransitions c cfg evName ok).selected ↔ Fires c cfg evName ok t := by
  have X := ancLaws_of_treeOK c hT
  have hanc : ∀ a s, a ∈ c.ancestors s ↔ Anc c a s := fun a s => mem_ancestors c hT s a
  have h0 := fun t => selectGroup_iff c X (fun t => ok t false)
      ((considered c cfg evName).filter (fun t => t.event.isNone)) t
  have h1 := fun t => selectGroup_iff c X (fun t => ok t true)
      ((considered c cfg evName).filter (fun t => t.event.isSome)) t
  have g0 := mem_g0 c cfg evName ok
  have g1 := mem_g1 c cfg evName ok
  -- the eventless group selects something iff some eventless transition is enabled
  have hne : (selectGroup c (fun t => ok t false)
        ((considered c cfg evName).filter (fun t => t.event.isNone))).selected ≠ [] ↔
      ∃ u, Enabled c cfg evName ok u ∧ u.event = none := by
    constructor
    · intro hsel
      obtain ⟨u, hu⟩ := List.exists_mem_of_ne_nil _ hsel
      have := (h0 u).mp hu
      exact ⟨u, (g0 u).mp ⟨this.1, this.2.1⟩⟩
    · rintro ⟨u, hu⟩
      have hu' := (g0 u).mpr hu
      -- some descendant-or-self of u.source fires inside the group
      obtain ⟨s'', _, hf⟩ := exists_fired_desc c X (fun t => ok t false)
        ((considered c cfg evName).filter (fun t => t.event.isNone)) u.source ⟨u, hu'.1, rfl, hu'.2⟩
      obtain ⟨w, hwG, hws, hwok⟩ := hf.1
      -- among the enabled transitions of s'' take one of maximal priority
      let cand := ((considered c cfg evName).filter (fun t => t.event.isNone)).filter
        (fun t => decide (t.source = s'') && ok t false)
      have hw : w ∈ cand := by
        apply List.mem_filter.mpr
        refine ⟨hwG, ?_⟩
        have : ok w false = true := hwok
        simp [hws, this]
      obtain ⟨m, hm, hmax⟩ := exists_argmax_int (fun t : Trans => t.priority) cand
        (List.ne_nil_of_mem hw)
      have hm1 := List.mem_filter.mp hm
      have hm2 : m.source = s'' ∧ ok m false = true := by simpa using hm1.2
      have hm' : m ∈ (considered c cfg evName).filter (fun t => t.event.isNone) ∧ m.source = s'' ∧
          ok m false = true := ⟨hm1.1, hm2.1, hm2.2⟩
      intro hnil
      have : m ∈ (selectGroup c (fun t => ok t false)
          ((considered c cfg evName).filter (fun t => t.event.isNone))).selected := by
        rw [h0 m]
        refine ⟨hm'.1, hm'.2.2, ?_, ?_⟩
        · intro v hv hvok hanc'
          exact hf.2 ⟨v.source, hm'.2.1 ▸ hanc', v, hv, rfl, hvok⟩
        · intro v hv hvs hvok
          have hv' : v ∈ cand := by
            apply List.mem_filter.mpr
            refine ⟨hv, ?_⟩
            simp [hvs, hm'.2.1, hvok]
          exact hmax v hv'
      rw [hnil] at this
      simp at this
  unfold considered at h0 h1 g0 g1 hne
  unfold selectTransitions
  simp only
  by_cases hsel : (selectGroup c (fun t => ok t false)
        ((c.transitions.filter (fun t => cfg.contains t.source && (t.event.isNone || t.event == evName))).filter
          (fun t => t.event.isNone))).selected = []
  · -- nothing eventless is enabled: the event-triggered group decides
    have hnone : ¬ ∃ u, Enabled c cfg evName ok u ∧ u.event = none := fun h => (hne.mpr h) hsel
    simp only [hsel, List.isEmpty_nil, Bool.not_true, Bool.false_eq_true, if_false]
    rw [h1 t]
    unfold GroupSpec Fires Competes
    constructor
    · rintro ⟨htG, htok, hanc', hprio⟩
      have hte := (g1 t).mp ⟨htG, htok⟩
      refine ⟨⟨hte.1, Or.inr hnone⟩, ?_, ?_⟩
      · rintro u ⟨hu, _⟩ ha
        have hue : u.event ≠ none := fun e => hnone ⟨u, hu, e⟩
        have hu' := (g1 u).mpr ⟨hu, hue⟩
        exact hanc' u hu'.1 hu'.2 ((hanc _ _).mpr ha)
      · rintro u ⟨hu, _⟩ hus
        have hue : u.event ≠ none := fun e => hnone ⟨u, hu, e⟩
        have hu' := (g1 u).mpr ⟨hu, hue⟩
        exact hprio u hu'.1 hus hu'.2
    · rintro ⟨⟨hte, _⟩, hanc', hprio⟩
      have hte' : t.event ≠ none := fun e => hnone ⟨t, hte, e⟩
      have ht' := (g1 t).mpr ⟨hte, hte'⟩
      refine ⟨ht'.1, ht'.2, ?_, ?_⟩
      · intro u hu huok ha
        have hu' := (g1 u).mp ⟨hu, huok⟩
        exact hanc' u ⟨hu'.1, Or.inr hnone⟩ ((hanc _ _).mp ha)
      · intro u hu hus huok
        have hu' := (g1 u).mp ⟨hu, huok⟩
        exact hprio u ⟨hu'.1, Or.inr hnone⟩ hus
  · -- some eventless transition is enabled: only eventless ones compete
    have hsome : ∃ u, Enabled c cfg evName ok u ∧ u.event = none := hne.mp hsel
    have hempty : (selectGroup c (fun t => ok t false)
        ((c.transitions.filter (fun t => cfg.contains t.source && (t.event.isNone || t.event == evName))).filter
          (fun t => t.event.isNone))).selected.isEmpty = false := by
      cases hh : (selectGroup c (fun t => ok t false)
        ((c.transitions.filter (fun t => cfg.contains t.source && (t.event.isNone || t.event == evName))).filter
          (fun t => t.event.isNone))).selected with
      | nil => exact absurd hh hsel
      | cons _ _ => rfl
    simp only [hempty, Bool.not_false, if_true]
    rw [h0 t]
    unfold GroupSpec Fires Competes
    constructor
    · rintro ⟨htG, htok, hanc', hprio⟩
      have hte := (g0 t).mp ⟨htG, htok⟩
      refine ⟨⟨hte.1, Or.inl hte.2⟩, ?_, ?_⟩
      · rintro u ⟨hu, hcase⟩ ha
        rcases hcase with hue | hno
        · have hu' := (g0 u).mpr ⟨hu, hue⟩
          exact hanc' u hu'.1 hu'.2 ((hanc _ _).mpr ha)
        · exact hno hsome
      · rintro u ⟨hu, hcase⟩ hus
        rcases hcase with hue | hno
        · have hu' := (g0 u).mpr ⟨hu, hue⟩
          exact hprio u hu'.1 hus hu'.2
        · exact absurd hsome hno
    · rintro ⟨⟨hte, hcase⟩, hanc', hprio⟩
      have hte' : t.event = none := by
        rcases hcase with h | h
        · exact h
        · exact absurd hsome h
      have ht' := (g0 t).mpr ⟨hte, hte'⟩
      refine ⟨ht'.1, ht'.2, ?_, ?_⟩
      · intro u hu huok ha
        have hu' := (g0 u).mp ⟨hu, huok⟩
        exact hanc' u ⟨hu'.1, Or.inl hu'.2⟩ ((hanc _ _).mp ha)
      · intro u hu hus huok
        have hu' := (g0 u).mp ⟨hu, huok⟩
        exact hprio u ⟨hu'.1, Or.inl hu'.2⟩ hus

end Sismic

namespace Sismic

/-! ### exposure: which guards are evaluated, and what they are shown -/

theorem goEvaluated_subset (ok : Trans → Bool) (G : List Trans) :
    ∀ ps t, t ∈ goEvaluated ok G ps → t ∈ G := by
  intro ps
  induction ps with
  | nil => intro t h; simp [goEvaluated] at h
  | cons p ps ih =>
    intro t h
    unfold goEvaluated at h
    simp only at h
    split at h
    · exact (List.mem_filter.mp h).1
    · rcases List.mem_append.mp h with h | h
      · exact (List.mem_filter.mp h).1
      · exact ih t h

theorem stepSrc_evaluated (c : Chart) (ok : Trans → Bool) (G : List Trans) (st : SelSt) (src : Name)
    (h : ∀ t ∈ st.evaluated, t ∈ G) : ∀ t ∈ (stepSrc c ok G st src).evaluated, t ∈ G := by
  intro t ht
  unfold stepSrc at ht
  split at ht
  · exact h t ht
  · simp only at ht
    split at ht <;>
    · simp only [List.mem_append] at ht
      rcases ht with ht | ht
      · exact h t ht
      · exact (List.mem_filter.mp (goEvaluated_subset ok _ _ t ht)).1

theorem selectGroup_evaluated (c : Chart) (ok : Trans → Bool) (G : List Trans) :
    ∀ t ∈ (selectGroup c ok G).evaluated, t ∈ G := by
  unfold selectGroup
  suffices ∀ (l : List Name) (st : SelSt), (∀ t ∈ st.evaluated, t ∈ G) →
      ∀ t ∈ (l.foldl (stepSrc c ok G) st).evaluated, t ∈ G from
    this _ {} (by simp)
  intro l
  induction l with
  | nil => intro st h; simpa using h
  | cons s l ih =>
    intro st h
    rw [List.foldl_cons]
    exact ih _ (stepSrc_evaluated c ok G st s h)

/-- every guard that is evaluated belongs to a considered transition, and it is shown the event
    iff the transition is event-triggered -/
theorem calls_exposure (c : Chart) (cfg : List Name) (evName : Option String)
    (ok : Trans → Bool → Bool) (t : Trans) (exposed : Bool)
    (h : (t, exposed) ∈ (selectTransitions c cfg evName ok).calls) :
    t ∈ c.transitions ∧ t.source ∈ cfg ∧ t.guard.isSome = true ∧
      (exposed = false → t.event = none) ∧ (exposed = true → t.event ≠ none ∧ t.event = evName) := by
  have key : ∀ (okk : Trans → Bool) (G : List Trans) (b : Bool),
      (t, exposed) ∈ guardCalls (selectGroup c okk G) b → t ∈ G ∧ t.guard.isSome = true ∧ exposed = b := by
    intro okk G b hm
    unfold guardCalls at hm
    simp only [List.mem_map, List.mem_filter, Prod.mk.injEq] at hm
    obtain ⟨u, ⟨hu, hg⟩, rfl, rfl⟩ := hm
    exact ⟨selectGroup_evaluated c okk G u hu, hg, rfl⟩
  have hcons : ∀ u, u ∈ c.transitions.filter (fun t => cfg.contains t.source &&
      (t.event.isNone || t.event == evName)) →
      u ∈ c.transitions ∧ u.source ∈ cfg ∧ (u.event = none ∨ u.event = evName) := by
    intro u hu
    simp only [List.mem_filter, Bool.and_eq_true, Bool.or_eq_true, List.contains_iff_mem,
      Option.isNone_iff_eq_none, beq_iff_eq] at hu
    exact ⟨hu.1, hu.2.1, hu.2.2⟩
  unfold selectTransitions at h
  simp only at h
  split at h
  · obtain ⟨hG, hg, he⟩ := key _ _ _ h
    have h1 := List.mem_filter.mp hG
    have h2 := hcons t h1.1
    have hn : t.event = none := by simpa using h1.2
    subst he
    exact ⟨h2.1, h2.2.1, hg, fun _ => hn, fun e => by simp at e⟩
  · rcases List.mem_append.mp h with h | h
    · obtain ⟨hG, hg, he⟩ := key _ _ _ h
      have h1 := List.mem_filter.mp hG
      have h2 := hcons t h1.1
      have hn : t.event = none := by simpa using h1.2
      subst he
      exact ⟨h2.1, h2.2.1, hg, fun _ => hn, fun e => by simp at e⟩
    · obtain ⟨hG, hg, he⟩ := key _ _ _ h
      have h1 := List.mem_filter.mp hG
      have h2 := hcons t h1.1
      have hn : t.event ≠ none := by
        have := h1.2
        simpa [Option.isSome_iff_ne_none] using this
      subst he
      refine ⟨h2.1, h2.2.1, hg, fun e => by simp at e, fun _ => ⟨hn, ?_⟩⟩
      rcases h2.2.2 with e | e
      · exact absurd e hn
      · exact e

end Sismic
