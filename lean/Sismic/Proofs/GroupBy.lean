import Sismic.Model.Select
/-!
# Sismic.Proofs.GroupBy — `sorted_groupby`: the labels are the distinct keys, strictly sorted
-/
namespace Sismic

variable {α κ : Type} [DecidableEq κ]

theorem mem_insKey (le : κ → κ → Bool) (k x : κ) (ks : List κ) :
    x ∈ insKey le k ks ↔ x = k ∨ x ∈ ks := by
  induction ks with
  | nil => simp [insKey]
  | cons k' ks ih =>
    unfold insKey
    split
    · next h => subst h; simp
    · split
      · simp
      · simp [ih]; grind

theorem mem_keysSorted_aux (le : κ → κ → Bool) (key : α → κ) (xs : List α) (acc : List κ) (k : κ) :
    k ∈ xs.foldl (fun acc x => insKey le (key x) acc) acc ↔ k ∈ acc ∨ ∃ x ∈ xs, key x = k := by
  induction xs generalizing acc with
  | nil => simp
  | cons x xs ih =>
    simp only [List.foldl_cons, ih, mem_insKey, List.mem_cons]
    constructor
    · rintro ((h | h) | ⟨y, hy, h⟩)
      · right; exact ⟨x, Or.inl rfl, h.symm⟩
      · left; exact h
      · right; exact ⟨y, Or.inr hy, h⟩
    · rintro (h | ⟨y, (rfl | hy), h⟩)
      · left; right; exact h
      · left; left; exact h.symm
      · right; exact ⟨y, hy, h⟩

theorem mem_keysSorted (le : κ → κ → Bool) (key : α → κ) (xs : List α) (k : κ) :
    k ∈ keysSorted le key xs ↔ ∃ x ∈ xs, key x = k := by
  simp [keysSorted, mem_keysSorted_aux]

/-- strict total order packaged as Bool le -/
structure TotalLE (le : κ → κ → Bool) : Prop where
  total : ∀ a b, le a b = true ∨ le b a = true
  antisymm : ∀ a b, le a b = true → le b a = true → a = b
  trans : ∀ a b c, le a b = true → le b c = true → le a c = true

def StrictSorted (le : κ → κ → Bool) (l : List κ) : Prop :=
  l.Pairwise (fun a b => le a b = true ∧ a ≠ b)

theorem insKey_sorted (le : κ → κ → Bool) (hle : TotalLE le) (k : κ) (ks : List κ)
    (h : StrictSorted le ks) : StrictSorted le (insKey le k ks) := by
  induction ks with
  | nil => simp [insKey, StrictSorted]
  | cons k' ks ih =>
    unfold insKey
    split
    · exact h
    · next hne =>
      split
      · next hle' =>
        unfold StrictSorted at *
        rw [List.pairwise_cons] at h ⊢
        refine ⟨?_, List.pairwise_cons.mpr h⟩
        intro b hb
        rcases List.mem_cons.mp hb with rfl | hb
        · exact ⟨hle', hne⟩
        · have := h.1 b hb
          refine ⟨hle.trans _ _ _ hle' this.1, ?_⟩
          rintro rfl
          exact hne (hle.antisymm _ _ hle' this.1)
      · next hnle =>
        unfold StrictSorted at *
        rw [List.pairwise_cons] at h ⊢
        refine ⟨?_, ih h.2⟩
        intro b hb
        rw [mem_insKey] at hb
        rcases hb with rfl | hb
        · have := hle.total b k'
          simp [hnle] at this
          exact ⟨this, fun e => hne e.symm⟩
        · exact h.1 b hb

theorem keysSorted_sorted (le : κ → κ → Bool) (hle : TotalLE le) (key : α → κ) (xs : List α) :
    StrictSorted le (keysSorted le key xs) := by
  unfold keysSorted
  suffices ∀ acc, StrictSorted le acc →
      StrictSorted le (xs.foldl (fun acc x => insKey le (key x) acc) acc) from
    this [] (by simp [StrictSorted])
  induction xs with
  | nil => intro acc h; simpa
  | cons x xs ih => intro acc h; exact ih _ (insKey_sorted le hle _ _ h)


end Sismic
