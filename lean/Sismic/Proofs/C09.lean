import Sismic.Proofs.ErrSpec
import Sismic.Proofs.LogFilters
/-!
# Sismic.Proofs.C09 — with `ignore_contract=True` no condition is evaluated, no ContractError raised
-/
namespace Sismic
open M

variable {σ ω : Type} (env : Env σ ω)

/-- the log grows by entries none of which is a contract evaluation -/
def RNC (rs rs' : RS σ ω) : Prop :=
  ∃ l, rs'.eff = rs.eff ++ l ∧ ∀ e ∈ l, e.isCond = false

theorem RNC_pre : PreOrd (RNC : RS σ ω → RS σ ω → Prop) where
  refl a := ⟨[], by simp, by simp⟩
  trans a b c h1 h2 := by
    obtain ⟨l1, e1, n1⟩ := h1
    obtain ⟨l2, e2, n2⟩ := h2
    refine ⟨l1 ++ l2, by rw [e2, e1, List.append_assoc], ?_⟩
    intro e he
    rcases List.mem_append.mp he with h | h
    · exact n1 e h
    · exact n2 e h

theorem rnc_respects (hi : env.ignoreContract = true) : Respects env (RNC : RS σ ω → RS σ ω → Prop) where
  pre := RNC_pre
  modify f _ := fun rs => ⟨[], by simp [M.modify], by simp⟩
  emit e he := fun rs => ⟨[e], rfl, by
    intro x hx
    simp only [List.mem_singleton] at hx
    subst hx
    cases x <;> simp [Effect.isPlain] at he <;> rfl⟩
  raise m := fun rs => ⟨[.metaEv m], raiseMeta_eff env m rs, by simp⟩
  contract kind obj ev := by
    intro rs
    unfold evalContract
    simp only [hi, if_true]
    exact RNC_pre.refl _

/-- **No evaluation at all**: whatever the outcome, an interpreter that ignores contracts logs no
    contract evaluation during `execute_once`. -/
theorem ignored_no_evaluation (hi : env.ignoreContract = true) (clock : Int) (rs : RS σ ω) :
    ∃ l, (executeOnce env clock rs).2.eff = rs.eff ++ l ∧ ∀ e ∈ l, e.isCond = false := by
  unfold executeOnce
  have key := rel_executeOnce_tail (rnc_respects env hi).toQ clock { rs with st := { rs.st with time := clock, sentEvents := [] } }
  simp only [M.bind, M.modify] at key ⊢
  exact key

def NotContractErr (e : Err) (_ : RS σ ω) : Prop :=
  match e with
  | .precondition _ _ | .postcondition _ _ | .invariant _ _ => False
  | _ => True

theorem notContract_raises (hi : env.ignoreContract = true) (hd : ListenerErrs env) :
    Raises env (NotContractErr : Err → RS σ ω → Prop) where
  plain e he rs := by cases e <;> simp [Err.plain] at he <;> trivial
  raise m := by
    constructor
    intro rs e rs' h
    unfold raiseMeta at h
    rcases bind_error.mp h with h | ⟨a, r1, h1, h2⟩
    · simp [M.emit] at h
    · rcases bind_error.mp h2 with h | ⟨st, r2, h3, h4⟩
      · simp [M.get] at h
      · obtain ⟨hl, _⟩ := forEach_callListener_error env hd m _ _ rs' e h4
        cases e <;> simp [Err.fromListener] at hl <;> trivial
  contract kind obj ev := by
    constructor
    intro rs e rs' h
    unfold evalContract at h
    simp [hi, M.pure] at h

/-- **No ContractError**: an interpreter that ignores contracts never raises one. -/
theorem ignored_no_contract_error (hi : env.ignoreContract = true) (hd : ListenerErrs env)
    (clock : Int) (rs rs' : RS σ ω) (e : Err) (h : executeOnce env clock rs = (.error e, rs')) :
    NotContractErr e rs' :=
  (es_executeOnce (notContract_raises env hi hd) (fun _ => trivial) (fun _ => trivial) clock).spec rs e rs' h

end Sismic
