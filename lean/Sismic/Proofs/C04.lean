import Sismic.Proofs.ErrSpec
import Sismic.Proofs.OkSpec
/-!
# Sismic.Proofs.C04 — non-determinism / conflict errors: classification, and "nothing happens"
-/
namespace Sismic
open M

/-! ### classification by `_sort_transitions` -/

theorem any_iff {α} (l : List α) (p : α → Bool) : l.any p = true ↔ ∃ x ∈ l, p x = true := by
  simp [List.any_eq_true]

/-- `_sort_transitions`, case by case -/
theorem sortTransitions_cases (c : Chart) (ts : List Trans) :
    (ts.length ≤ 1 ∧ sortTransitions c ts = .ok ts) ∨
    (1 < ts.length ∧ (∃ p ∈ pairs ts, nonDetPair c p.1 p.2 = true) ∧
      sortTransitions c ts = .error .nonDeterminism) ∨
    (1 < ts.length ∧ (¬ ∃ p ∈ pairs ts, nonDetPair c p.1 p.2 = true) ∧
      (∃ p ∈ pairs ts, conflictPair c p.1 p.2 = true) ∧ sortTransitions c ts = .error .conflicting) ∨
    (1 < ts.length ∧ (¬ ∃ p ∈ pairs ts, nonDetPair c p.1 p.2 = true) ∧
      (¬ ∃ p ∈ pairs ts, conflictPair c p.1 p.2 = true) ∧ sortTransitions c ts = .ok (isort (leTrans c) ts)) := by
  unfold sortTransitions
  by_cases h1 : ts.length ≤ 1
  · left; exact ⟨h1, by simp [h1]⟩
  · have h1' : 1 < ts.length := by omega
    right
    cases h2 : (pairs ts).any (fun p => nonDetPair c p.1 p.2) with
    | true =>
      left
      exact ⟨h1', (any_iff _ _).mp h2, by simp [h1]⟩
    | false =>
      right
      have hn : ¬ ∃ p ∈ pairs ts, nonDetPair c p.1 p.2 = true := by
        intro h; rw [← any_iff] at h; rw [h2] at h; cases h
      cases h3 : (pairs ts).any (fun p => conflictPair c p.1 p.2) with
      | true =>
        left
        exact ⟨h1', hn, (any_iff _ _).mp h3, by simp [h1]⟩
      | false =>
        right
        have hc : ¬ ∃ p ∈ pairs ts, conflictPair c p.1 p.2 = true := by
          intro h; rw [← any_iff] at h; rw [h3] at h; cases h
        exact ⟨h1', hn, hc, by simp [h1]⟩

theorem sortTransitions_nonDet (c : Chart) (ts : List Trans) :
    sortTransitions c ts = .error .nonDeterminism ↔
      1 < ts.length ∧ ∃ p ∈ pairs ts, nonDetPair c p.1 p.2 = true := by
  rcases sortTransitions_cases c ts with ⟨h, e⟩ | ⟨h, hn, e⟩ | ⟨h, hn, hc, e⟩ | ⟨h, hn, hc, e⟩ <;> rw [e]
  · constructor
    · intro h'; cases h'
    · rintro ⟨h', _⟩; omega
  · exact ⟨fun _ => ⟨h, hn⟩, fun _ => rfl⟩
  · constructor
    · intro h'; cases h'
    · rintro ⟨_, hp⟩; exact absurd hp hn
  · constructor
    · intro h'; cases h'
    · rintro ⟨_, hp⟩; exact absurd hp hn

theorem sortTransitions_conflict (c : Chart) (ts : List Trans) :
    sortTransitions c ts = .error .conflicting ↔
      1 < ts.length ∧ (¬ ∃ p ∈ pairs ts, nonDetPair c p.1 p.2 = true) ∧
      ∃ p ∈ pairs ts, conflictPair c p.1 p.2 = true := by
  rcases sortTransitions_cases c ts with ⟨h, e⟩ | ⟨h, hn, e⟩ | ⟨h, hn, hc, e⟩ | ⟨h, hn, hc, e⟩ <;> rw [e]
  · constructor
    · intro h'; cases h'
    · rintro ⟨h', _⟩; omega
  · constructor
    · intro h'; cases h'
    · rintro ⟨_, hn', _⟩; exact absurd hn hn'
  · exact ⟨fun _ => ⟨h, hn, hc⟩, fun _ => rfl⟩
  · constructor
    · intro h'; cases h'
    · rintro ⟨_, _, hp⟩; exact absurd hp hc

theorem sortTransitions_ok (c : Chart) (ts ts' : List Trans) :
    sortTransitions c ts = .ok ts' ↔
      (ts.length ≤ 1 ∧ ts' = ts) ∨
      (1 < ts.length ∧ (¬ ∃ p ∈ pairs ts, nonDetPair c p.1 p.2 = true) ∧
        (¬ ∃ p ∈ pairs ts, conflictPair c p.1 p.2 = true) ∧ ts' = isort (leTrans c) ts) := by
  rcases sortTransitions_cases c ts with ⟨h, e⟩ | ⟨h, hn, e⟩ | ⟨h, hn, hc, e⟩ | ⟨h, hn, hc, e⟩ <;> rw [e]
  · simp only [Except.ok.injEq]
    constructor
    · intro h'; exact Or.inl ⟨h, h'.symm⟩
    · rintro (⟨_, h'⟩ | ⟨h', _⟩)
      · exact h'.symm
      · omega
  · constructor
    · intro h'; cases h'
    · rintro (⟨h', _⟩ | ⟨_, hn', _⟩)
      · omega
      · exact absurd hn hn'
  · constructor
    · intro h'; cases h'
    · rintro (⟨h', _⟩ | ⟨_, _, hc', _⟩)
      · omega
      · exact absurd hc hc'
  · simp only [Except.ok.injEq]
    constructor
    · intro h'; exact Or.inr ⟨h, hn, hc, h'.symm⟩
    · rintro (⟨h', _⟩ | ⟨_, _, _, h'⟩)
      · omega
      · exact h'.symm

/-- two transitions of the same state are always a non-deterministic pair -/
theorem same_source_nonDet (c : Chart) (a b : Trans) (h : a.source = b.source) : nonDetPair c a b = true := by
  simp [nonDetPair, h]

/-! ### nothing happens when such an error is raised -/

variable {σ ω : Type} (env : Env σ ω)

def NotPlanErr (e : Err) (_ : RS σ ω) : Prop := e ≠ .nonDeterminism ∧ e ≠ .conflicting

theorem notPlanErr_raises (hd : ListenerErrs env) : Raises env (NotPlanErr : Err → RS σ ω → Prop) where
  plain e he rs := by cases e <;> simp [Err.plain] at he <;> exact ⟨by simp, by simp⟩
  raise m := by
    have := (raisedAt_raises env hd).raise m
    constructor
    intro rs e rs' h
    unfold raiseMeta at h
    rcases bind_error.mp h with h | ⟨a, r1, h1, h2⟩
    · simp [M.emit] at h
    · rcases bind_error.mp h2 with h | ⟨st, r2, h3, h4⟩
      · simp [M.get] at h
      · obtain ⟨hl, _⟩ := forEach_callListener_error env hd m _ _ rs' e h4
        cases e <;> simp [Err.fromListener] at hl <;> exact ⟨by simp, by simp⟩
  contract kind obj ev := by
    constructor
    intro rs e rs' h
    have hconds : ∀ (codes : List Code) (i : Nat) (rs rs' : RS σ ω) (e : Err),
        evalConds env kind obj ev i codes rs = (.error e, rs') → NotPlanErr e rs' := by
      intro codes
      induction codes with
      | nil => intro i rs rs' e h; simp [evalConds, M.pure] at h
      | cons c cs ih =>
        intro i rs rs' e h
        unfold evalConds at h
        rcases bind_error.mp h with h | ⟨st, r1, h1, h⟩
        · simp [M.get] at h
        · rcases bind_error.mp h with h | ⟨a, r2, h2, h⟩
          · simp [M.emit] at h
          · cases hr : env.E.cond st kind obj c ev with
            | none =>
              simp only [hr, throw_error] at h
              obtain ⟨rfl, rfl⟩ := h
              exact ⟨by simp, by simp⟩
            | some b =>
              cases b with
              | true => simp only [hr] at h; exact ih _ _ _ _ h
              | false =>
                simp only [hr, throw_error] at h
                obtain ⟨rfl, rfl⟩ := h
                cases kind <;> exact ⟨by simp [CondKind.err], by simp [CondKind.err]⟩
    unfold evalContract at h
    split at h
    · simp [M.pure] at h
    · rcases bind_error.mp h with h | ⟨a, r1, _, h⟩
      · split at h
        · simp [M.modify] at h
        · simp [M.pure] at h
      · exact hconds _ _ _ _ _ h

/-- guard evaluation raises only `CodeEvaluationError` -/
theorem logGuards_error (st : IState σ) (ev : Option Event) : ∀ (calls : List (Trans × Bool)) (rs rs' : RS σ ω) (e : Err),
    logGuards env st ev calls rs = (.error e, rs') → e = .codeError
  | [], rs, rs', e, h => by simp [logGuards, M.pure] at h
  | (t, exposed) :: rest, rs, rs', e, h => by
    unfold logGuards at h
    rcases bind_error.mp h with h | ⟨a, r1, h1, h⟩
    · simp [M.emit] at h
    · cases hg : env.E.guard st t (if exposed then ev else none) with
      | none => simp only [hg, throw_error] at h; exact h.1.symm
      | some b => simp only [hg] at h; exact logGuards_error st ev rest _ _ _ h

/-- **Nothing happens.**  If `execute_once` raises `NonDeterminismError` or
    `ConflictingTransitionsError`, then — apart from the step time having been sampled, the
    list of events sent during the step having been reset, and whatever the listeners of
    `step started` queued — the interpreter is exactly as before: configuration, history memory,
    context, both event queues' pending internal events, entry/idle times; and all that was logged is
    `step started` followed by guard evaluations: no code ran, no contract was evaluated, no
    event was consumed, nothing was entered or exited. -/
theorem nothing_happens (hd : ListenerErrs env) (clock : Int) (rs rs' : RS σ ω) (e : Err)
    (h : executeOnce env clock rs = (.error e, rs')) (he : e = .nonDeterminism ∨ e = .conflicting) :
    (∃ q, rs'.st = { rs.st with time := clock, sentEvents := [], extQ := q }) ∧
    ∃ calls st1, rs'.eff = rs.eff ++ .metaEv (metaStarted clock) :: guardLog env.E st1 (peekEvent st1) calls := by
  unfold executeOnce at h
  rcases bind_error.mp h with h | ⟨a0, r0, h0, h⟩
  · simp [M.modify] at h
  rw [modify_ok] at h0; subst h0
  have HN := notPlanErr_raises env hd
  rcases bind_error.mp h with h | ⟨a1, r1, h1, h⟩
  · have := (HN.raise _).spec _ _ _ h
    rcases he with rfl | rfl
    · exact absurd rfl this.1
    · exact absurd rfl this.2
  rcases bind_error.mp h with h | ⟨computed, r2, h2, h⟩
  · -- the error comes out of `_compute_steps`: only guards were evaluated since `step started`
    have e1 := raiseMeta_ok env _ _ r1 a1 h1
    unfold computeSteps at h
    rcases bind_error.mp h with h | ⟨st, q1, g1, h⟩
    · simp [M.get] at h
    rw [get_ok] at g1; obtain ⟨rfl, rfl⟩ := g1
    split at h
    · rcases bind_error.mp h with h | ⟨_, _, _, h⟩
      · simp [M.modify] at h
      · simp [M.pure] at h
    · simp only at h
      rcases bind_error.mp h with h | ⟨a, q2, g2, h⟩
      · have := logGuards_error env _ _ _ _ _ _ h
        rcases he with rfl | rfl <;> cases this
      · have eg := logGuards_ok env _ _ _ r1 q2 a g2
        subst eg
        have hst : rs'.st = r1.st ∧ rs'.eff = r1.eff ++ guardLog env.E r1.st (peekEvent r1.st)
            (selectTransitions env.chart r1.st.config (Option.map (fun x => x.name) (peekEvent r1.st))
              (guardOk env.E r1.st (peekEvent r1.st))).calls := by
          by_cases hemp : (selectTransitions env.chart r1.st.config (Option.map (fun x => x.name) (peekEvent r1.st))
              (guardOk env.E r1.st (peekEvent r1.st))).selected.isEmpty = true
          · simp only [hemp, if_true] at h
            cases hp : peekEvent r1.st <;> simp only [hp] at h <;> simp [M.pure] at h
          · have hemp' := Bool.eq_false_iff.mpr hemp
            simp only [hemp', Bool.false_eq_true, if_false] at h
            cases hs : sortTransitions env.chart
                (selectTransitions env.chart r1.st.config (Option.map (fun x => x.name) (peekEvent r1.st))
                  (guardOk env.E r1.st (peekEvent r1.st))).selected with
            | ok ts => simp only [hs] at h; simp [M.pure] at h
            | error pe =>
              cases pe <;> simp only [hs] at h <;>
                (rw [throw_error] at h; obtain ⟨_, rfl⟩ := h; exact ⟨rfl, rfl⟩)
        -- the state after `step started`: only the external queue may differ
        have hframe : ∃ q, r1.st = { rs.st with time := clock, sentEvents := [], extQ := q } := by
          obtain ⟨q, hq⟩ := raiseMeta_frame env _ _ r1 a1 h1
          exact ⟨q, hq⟩
        obtain ⟨q, hq⟩ := hframe
        refine ⟨⟨q, by rw [hst.1, hq]⟩,
          (selectTransitions env.chart r1.st.config (Option.map (fun x => x.name) (peekEvent r1.st))
            (guardOk env.E r1.st (peekEvent r1.st))).calls, r1.st, ?_⟩
        rw [hst.2, e1.2]
        simp [metaStarted]
  · rcases bind_error.mp h with h | ⟨ms, r3, h3, h⟩
    · have := (es_runSteps HN computed).spec _ _ _ h
      rcases he with rfl | rfl
      · exact absurd rfl this.1
      · exact absurd rfl this.2
    · have := (es_finishStep HN ms).spec _ _ _ h
      rcases he with rfl | rfl
      · exact absurd rfl this.1
      · exact absurd rfl this.2

end Sismic
