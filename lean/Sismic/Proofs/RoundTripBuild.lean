import Sismic.Proofs.RoundTripTree
import Sismic.Proofs.EditTree
/-!
# Sismic.Proofs.RoundTripBuild — registering what was read back succeeds

For a well-formed statechart the lists `flatS` / `flatT` read back from the exported document name
every state once, parents before children, so `add_state` accepts every entry and `add_transition`
every transition: `import_from_dict(export_to_dict(c))` does not fail before `validate()`.
-/
namespace Sismic

theorem nodup_flatMap {α β : Type} (f : α → List β) : ∀ (l : List α),
    (∀ x ∈ l, (f x).Nodup) → l.Pairwise (fun a b => ∀ y ∈ f a, y ∉ f b) → (l.flatMap f).Nodup
  | [], _, _ => List.nodup_nil
  | x :: xs, h1, h2 => by
    rw [List.pairwise_cons] at h2
    simp only [List.flatMap_cons]
    refine List.nodup_append.mpr ⟨h1 x List.mem_cons_self,
      nodup_flatMap f xs (fun y hy => h1 y (List.mem_cons_of_mem _ hy)) h2.2, ?_⟩
    intro a ha b hb
    obtain ⟨z, hz, hbz⟩ := List.mem_flatMap.mp hb
    exact fun e => h2.1 z hz a ha (e ▸ hbz)

/-- the names registered for the subtree of `n` are `n` and descendants of `n` -/
theorem flatS_names_sub (c : Chart) (hch : ∀ p ch, ch ∈ c.childrenFor p → c.parentFor ch = some p) :
    ∀ (f : Nat) (n : Name) (par : Option Name) (x : StateDef × Option Name), x ∈ flatS c f n par →
      (∀ m sd, c.stateFor m = some sd → sd.name = m) → Sub c n x.1.name
  | 0, _, _, _, h, _ => by cases h
  | f+1, n, par, x, h, hname => by
    cases hs : c.stateFor n with
    | none => simp [flatS, hs] at h
    | some s =>
      rw [flatS_succ c f n par s hs] at h
      rcases List.mem_cons.mp h with e | e
      · subst e; exact Or.inl (hname n s hs)
      · cases hc : s.kind.isComposite with
        | false => simp [hc] at e
        | true =>
          simp only [hc, if_true, List.mem_flatMap, List.mem_reverse] at e
          obtain ⟨ch, hch', hx⟩ := e
          have hp := hch n ch hch'
          rcases flatS_names_sub c hch f ch (some n) x hx hname with e1 | e1
          · exact Or.inr (e1 ▸ Anc.base hp)
          · exact Or.inr (Anc.trans (Anc.base hp) e1)

/-- **Every state is read back once.** -/
theorem flatS_nodup (c : Chart) (hw : WFChart c) :
    ∀ (f : Nat) (n : Name) (par : Option Name), ((flatS c f n par).map (fun x => x.1.name)).Nodup
  | 0, _, _ => List.nodup_nil
  | f+1, n, par => by
    have hch : ∀ p ch, ch ∈ c.childrenFor p → c.parentFor ch = some p := fun p ch h => (hw.children p ch).mp h
    have hname : ∀ m sd, c.stateFor m = some sd → sd.name = m := fun m sd h => (stateFor_mem c m sd h).2
    cases hs : c.stateFor n with
    | none => simp [flatS, hs]
    | some s =>
      rw [flatS_succ c f n par s hs]
      cases hc : s.kind.isComposite with
      | false => simp [hc]
      | true =>
        simp only [hc, if_true, List.map_cons, List.map_flatMap]
        refine List.nodup_cons.mpr ⟨?_, ?_⟩
        · -- `n` is not among its descendants
          intro hm
          obtain ⟨ch, hch', hx⟩ := List.mem_flatMap.mp hm
          obtain ⟨x, hx1, hx2⟩ := List.mem_map.mp hx
          have hsub := flatS_names_sub c hch f ch (some n) x hx1 hname
          rw [hx2, hname n s hs] at hsub
          have hp := hch n ch (List.mem_reverse.mp hch')
          rcases hsub with e | e
          · rw [e] at hp; exact Anc.irrefl' c hw.tree (Anc.base hp)
          · exact Anc.asymm' c hw.tree (Anc.base hp) e
        · refine nodup_flatMap _ _ (fun ch _ => flatS_nodup c hw f ch (some n)) ?_
          -- the subtrees of two different children are disjoint
          have hnd : (c.childrenFor n).reverse.Nodup := by
            unfold List.Nodup
            rw [List.pairwise_reverse]
            exact (hw.childrenNodup n).imp (fun h => Ne.symm h)
          refine List.Pairwise.imp_of_mem ?_ hnd
          intro a b ha hb hab y hya hyb
          obtain ⟨xa, hxa, rfl⟩ := List.mem_map.mp hya
          obtain ⟨xb, hxb, hxe⟩ := List.mem_map.mp hyb
          have sa := flatS_names_sub c hch f a (some n) xa hxa hname
          have sb := flatS_names_sub c hch f b (some n) xb hxb hname
          rw [hxe] at sb
          have pa := hch n a (List.mem_reverse.mp ha)
          have pb := hch n b (List.mem_reverse.mp hb)
          -- `a` and `b` are both `xa.1.name` or ancestors of it: comparable, hence equal
          have cmp : a = b ∨ Anc c a b ∨ Anc c b a := by
            rcases sa with e1 | e1 <;> rcases sb with e2 | e2
            · left; rw [← e1, ← e2]
            · right; right; rw [← e1]; exact e2
            · right; left; rw [← e2]; exact e1
            · exact Anc.chain e1 e2
          rcases cmp with e | e | e
          · exact hab e
          · -- `a` above `b`, whose parent is `n`: `a = n` or `a` above `n`; but `n` is the parent of `a`
            rcases Anc.parent_cases' c e pb with e' | e'
            · rw [e'] at pa; exact Anc.irrefl' c hw.tree (Anc.base pa)
            · exact Anc.asymm' c hw.tree (Anc.base pa) e'
          · rcases Anc.parent_cases' c e pa with e' | e'
            · rw [e'] at pb; exact Anc.irrefl' c hw.tree (Anc.base pb)
            · exact Anc.asymm' c hw.tree (Anc.base pb) e'

/-- splitting a concatenation of lists at an element -/
theorem flatMap_split {α β : Type} (f : α → List β) : ∀ (l : List α) (pre : List β) (x : β) (post : List β),
    l.flatMap f = pre ++ x :: post →
    ∃ l1 a l2 p1 p2, l = l1 ++ a :: l2 ∧ f a = p1 ++ x :: p2 ∧ pre = l1.flatMap f ++ p1
  | [], pre, x, post, h => by
    simp only [List.flatMap_nil] at h
    exact absurd (congrArg List.length h) (by simp)
  | a :: l, pre, x, post, h => by
    simp only [List.flatMap_cons] at h
    rcases List.append_eq_append_iff.mp h with ⟨a', e1, e2⟩ | ⟨c', e1, e2⟩
    · -- the element lies after `f a`
      obtain ⟨l1, b, l2, p1, p2, h1, h2, h3⟩ := flatMap_split f l a' x post e2
      refine ⟨a :: l1, b, l2, p1, p2, by rw [h1]; rfl, h2, ?_⟩
      rw [e1, h3]
      simp [List.flatMap_cons, List.append_assoc]
    · cases c' with
      | nil =>
        -- exactly at the end of `f a`: it is the first element of the rest
        simp only [List.nil_append, List.append_nil] at e1 e2
        obtain ⟨l1, b, l2, p1, p2, h1, h2, h3⟩ := flatMap_split f l [] x post e2.symm
        refine ⟨a :: l1, b, l2, p1, p2, by rw [h1]; rfl, h2, ?_⟩
        rw [← e1]
        have : l1.flatMap f ++ p1 = [] := h3.symm
        simp only [List.flatMap_cons, List.append_assoc, this, List.append_nil]
      | cons y c'' =>
        simp only [List.cons_append, List.cons.injEq] at e2
        obtain ⟨rfl, _⟩ := e2
        exact ⟨[], a, l, pre, c'', rfl, e1, by simp⟩

/-- **Parents are read back before their children.** An entry of `flatS` is the root of the
    subtree (first, with the given parent) or comes after the entry of a composite state in whose
    children list it stands, which is the parent it is registered under. -/
theorem flatS_parent_before (c : Chart) :
    ∀ (f : Nat) (n : Name) (par : Option Name) (pre : List (StateDef × Option Name)) (x : StateDef × Option Name)
      (post : List (StateDef × Option Name)), flatS c f n par = pre ++ x :: post →
      (pre = [] ∧ c.stateFor n = some x.1 ∧ x.2 = par) ∨
      (∃ q y m, x.2 = some q ∧ y ∈ pre ∧ c.stateFor q = some y.1 ∧ y.1.kind.isComposite = true ∧
        c.stateFor m = some x.1 ∧ m ∈ c.childrenFor q)
  | 0, _, _, pre, x, post, h => by
    simp only [flatS] at h
    exact absurd (congrArg List.length h) (by simp)
  | f+1, n, par, pre, x, post, h => by
    cases hs : c.stateFor n with
    | none =>
      simp only [flatS, hs] at h
      exact absurd (congrArg List.length h) (by simp)
    | some s =>
      rw [flatS_succ c f n par s hs] at h
      cases pre with
      | nil =>
        simp only [List.nil_append, List.cons.injEq] at h
        exact Or.inl ⟨rfl, by rw [← h.1], by rw [← h.1]⟩
      | cons p0 pre' =>
        simp only [List.cons_append, List.cons.injEq] at h
        obtain ⟨h0, ht⟩ := h
        cases hc : s.kind.isComposite with
        | false =>
          simp only [hc] at ht
          exact absurd (congrArg List.length ht) (by simp)
        | true =>
          simp only [hc, if_true] at ht
          obtain ⟨l1, ch, l2, p1, p2, e1, e2, e3⟩ := flatMap_split _ _ pre' x post ht
          have hchm : ch ∈ c.childrenFor n := by
            have : ch ∈ (c.childrenFor n).reverse := by rw [e1]; simp
            exact List.mem_reverse.mp this
          right
          rcases flatS_parent_before c f ch (some n) p1 x p2 e2 with ⟨hp1, hx1, hx2⟩ | ⟨q, y, m, hq, hy, hyq, hyc, hm, hmq⟩
          · exact ⟨n, p0, ch, hx2, List.mem_cons_self, by rw [← h0]; exact hs, by rw [← h0]; exact hc, hx1, hchm⟩
          · refine ⟨q, y, m, hq, ?_, hyq, hyc, hm, hmq⟩
            rw [e3]
            exact List.mem_cons_of_mem _ (List.mem_append_right _ hy)

/-- what `add_state` asks of the entries of a list, in order -/
structure Adm (L : List (StateDef × Option Name)) : Prop where
  nodup : (L.map (fun x => x.1.name)).Nodup
  ordered : ∀ pre x post, L = pre ++ x :: post →
    (x.2 = none ∧ pre = [] ∧ x.1.kind.isHistory = false) ∨
    (∃ q y, x.2 = some q ∧ y ∈ pre ∧ y.1.name = q ∧ y.1.kind.isComposite = true ∧
      (x.1.kind.isHistory = true → y.1.kind = .compound))

/-- **What is read back from the export of a well-formed statechart is acceptable to `add_state`,
    entry after entry.** -/
theorem flatS_adm (c : Chart) (hw : WFChart c) (r : Name) (hr : c.root = some r) (f : Nat) : Adm (flatS c f r none) where
  nodup := flatS_nodup c hw f r none
  ordered := by
    intro pre x post h
    have hname : ∀ m sd, c.stateFor m = some sd → sd.name = m := fun m sd h => (stateFor_mem c m sd h).2
    rcases flatS_parent_before c f r none pre x post h with ⟨hp, hx, hx2⟩ | ⟨q, y, m, hq, hy, hyq, hyc, hm, hmq⟩
    · left
      refine ⟨hx2, hp, ?_⟩
      -- the root has no parent, a history state has one
      cases hh : x.1.kind.isHistory with
      | false => rfl
      | true =>
        exfalso
        obtain ⟨p, _, hp', _⟩ := hw.history r x.1 hx hh
        obtain ⟨r', h1, h2, _⟩ := hw.root
        rw [hr] at h1
        cases h1
        rw [h2] at hp'; cases hp'
    · right
      refine ⟨q, y, hq, hy, hname q y.1 hyq, hyc, ?_⟩
      intro hh
      obtain ⟨p, m', hp', hk, _⟩ := hw.history m x.1 hm hh
      have : c.parentFor m = some q := (hw.children q m).mp hmq
      rw [this] at hp'
      cases hp'
      simpa [Chart.kindOf, hyq] using hk

theorem find?_of_mem_nodup : ∀ (l : List StateDef) (sd : StateDef), (l.map (·.name)).Nodup → sd ∈ l →
    l.find? (fun s => s.name == sd.name) = some sd
  | [], _, _, h => by cases h
  | y :: ys, sd, hn, hm => by
    rw [List.map_cons] at hn
    obtain ⟨hy, hn'⟩ := List.nodup_cons.mp hn
    simp only [List.find?_cons]
    rcases List.mem_cons.mp hm with e | e
    · subst e; simp
    · have : y.name ≠ sd.name := fun e' => hy (List.mem_map.mpr ⟨sd, e, e'.symm⟩)
      have h1 : (y.name == sd.name) = false := by simp [this]
      simp only [h1]
      exact find?_of_mem_nodup ys sd hn' e

/-- the chart while the read-back states are being registered -/
structure BuildInv (L done : List (StateDef × Option Name)) (ck : Chart) : Prop where
  tidy : Tidy ck
  states : ck.states = done.map (·.1)
  fresh : done = [] → ck.root = none
  parents : ck.parent = done.map (fun x => (x.1.name, x.2))
  kids : ∀ q, ck.childrenFor q = (done.filter (fun x => x.2 == some q)).map (fun x => x.1.name)

/-- **`add_state` accepts every entry of an admissible list, in order.** -/
theorem build_states (L : List (StateDef × Option Name)) (ha : Adm L) :
    ∀ (rest done : List (StateDef × Option Name)) (ck : Chart), L = done ++ rest → BuildInv L done ck →
      ∃ c1, rest.foldl (fun (acc : Except IOErr Chart) p => acc.bind (fun c => addStateStep c p)) (.ok ck) = .ok c1 ∧
        BuildInv L L c1 ∧ c1.transitions = ck.transitions ∧ c1.name = ck.name ∧ c1.description = ck.description ∧
        c1.preamble = ck.preamble
  | [], done, ck, hL, hinv => by
    simp only [List.append_nil] at hL
    subst hL
    exact ⟨ck, rfl, hinv, rfl, rfl, rfl, rfl⟩
  | x :: rest, done, ck, hL, hinv => by
    obtain ⟨s, p⟩ := x
    -- the name is new
    have hnd := ha.nodup
    rw [hL, List.map_append, List.map_cons] at hnd
    have hfreshName : s.name ∉ done.map (fun x => x.1.name) := by
      intro hm
      have := (List.nodup_append.mp hnd).2.2 s.name hm s.name List.mem_cons_self
      exact this rfl
    have hnoState : ck.hasState s.name = false := by
      cases hh : ck.hasState s.name with
      | false => rfl
      | true =>
        exfalso
        have := (hasState_iff_mem ck s.name).mp hh
        rw [hinv.states, List.map_map] at this
        exact hfreshName this
    have hnamesK : (ck.states.map (·.name)).Nodup := hinv.tidy.names
    -- `add_state` succeeds
    have hok : (ck.addState s p).1 = .ok () ∧ (ck.addState s p).2 = addedChart ck s p := by
      rcases ha.ordered done (s, p) rest hL with ⟨hp, hd, hh⟩ | ⟨q, y, hp, hy, hyq, hyc, hyh⟩
      · simp only at hp hh
        subst hp
        have hr := hinv.fresh hd
        unfold Chart.addState addedChart
        simp [hnoState, hr, hh]
      · simp only at hp hyh
        subst hp
        have hsq : ck.stateFor q = some y.1 := by
          unfold Chart.stateFor
          rw [← hyq]
          apply find?_of_mem_nodup _ _ hnamesK
          rw [hinv.states]
          exact List.mem_map.mpr ⟨y, hy, rfl⟩
        unfold Chart.addState addedChart
        simp only [hnoState, Bool.false_eq_true, if_false, hsq, hyc, Bool.not_true]
        cases hh : s.kind.isHistory with
        | false => simp
        | true => simp [hyh hh]
    have hstep : addStateStep ck (s, p) = .ok (addedChart ck s p) := by
      unfold addStateStep
      obtain ⟨r1, r2⟩ := hok
      obtain ⟨res, c', hx⟩ : ∃ res c', ck.addState s p = (res, c') := ⟨_, _, rfl⟩
      rw [hx] at r1 r2
      simp only at r1 r2
      simp only [hx, r1, r2]
    -- the invariant for the next entry
    have hp_state : ∀ par, p = some par → ck.hasState par = true := by
      intro par hp
      rcases ha.ordered done (s, p) rest hL with ⟨hp', _, _⟩ | ⟨q, y, hp', hy, hyq, _, _⟩
      · simp only at hp'; rw [hp'] at hp; cases hp
      · simp only at hp'
        rw [hp'] at hp
        cases hp
        rw [hasState_iff_mem, hinv.states, List.map_map]
        exact List.mem_map.mpr ⟨y, hy, hyq⟩
    have hroot : p = none → ck.root = none := by
      intro hp
      rcases ha.ordered done (s, p) rest hL with ⟨_, hd, _⟩ | ⟨q, y, hp', _⟩
      · exact hinv.fresh hd
      · simp only at hp'; rw [hp] at hp'; cases hp'
    have tidy' := addedChart_tidy ck s p hinv.tidy hnoState hroot hp_state
    have inv' : BuildInv L (done ++ [(s, p)]) (addedChart ck s p) := by
      refine ⟨tidy', ?_, ?_, ?_, ?_⟩
      · show ck.states ++ [s] = _
        rw [hinv.states]; simp
      · intro h; exact absurd h (by simp)
      · show ck.parent ++ [(s.name, p)] = _
        rw [hinv.parents]; simp
      · intro q
        rw [added_childrenFor ck s p hinv.tidy hnoState q hp_state, hinv.kids q]
        simp only [List.filter_append, List.map_append]
        by_cases hpq : p = some q
        · subst hpq; simp
        · have hb : ((p : Option Name) == some q) = false := by simp [hpq]
          simp only [hpq, if_false]
          by_cases hq : q = s.name
          · subst hq
            simp only [if_true]
            -- nobody was registered under the new name
            have : done.filter (fun x => x.2 == some s.name) = [] := by
              rw [List.filter_eq_nil_iff]
              intro x hx hx2
              have hk := hinv.kids s.name
              have hmem : x.1.name ∈ ck.childrenFor s.name := by
                rw [hk]; exact List.mem_map.mpr ⟨x, List.mem_filter.mpr ⟨hx, hx2⟩, rfl⟩
              have := hinv.tidy.childKeysStates s.name (key_of_child ck s.name x.1.name hmem)
              rw [hnoState] at this; cases this
            simp [this, List.filter_cons, hb]
          · simp [hq, List.filter_cons, hb]
    have hL' : L = (done ++ [(s, p)]) ++ rest := by rw [hL]; simp
    obtain ⟨c1, h1, h2, h3, h4, h5, h6⟩ := build_states L ha rest (done ++ [(s, p)]) (addedChart ck s p) hL' inv'
    refine ⟨c1, ?_, h2, h3, h4, h5, h6⟩
    simp only [List.foldl_cons]
    have : (Except.ok ck : Except IOErr Chart).bind (fun c => addStateStep c (s, p)) = .ok (addedChart ck s p) := hstep
    rw [this]
    exact h1

/-- `add_transition` accepts every transition whose ends are registered (the states do not change) -/
theorem build_transitions : ∀ (T : List Trans) (ck : Chart),
    (∀ t ∈ T, (∃ s, ck.stateFor t.source = some s ∧ s.kind.ownsTransitions = true) ∧
      ∀ tg, t.target = some tg → ck.hasState tg = true) →
    ∃ c2, T.foldl (fun (acc : Except IOErr Chart) t => acc.bind (fun c => addTransStep c t)) (.ok ck) = .ok c2 ∧
      c2.states = ck.states ∧ c2.parent = ck.parent ∧ c2.children = ck.children ∧ c2.name = ck.name ∧
      c2.description = ck.description ∧ c2.preamble = ck.preamble ∧
      c2.transitions.map (fun t => { t with id := 0 }) =
        ck.transitions.map (fun t => { t with id := 0 }) ++ T.map (fun t => { t with id := 0 }) ∧
      c2.transitions.map (·.id) = ck.transitions.map (·.id) ++ List.range' ck.transitions.length T.length
  | [], ck, _ => ⟨ck, rfl, rfl, rfl, rfl, rfl, rfl, rfl, by simp, by simp⟩
  | t :: T, ck, h => by
    obtain ⟨⟨sd, hs, hown⟩, htg⟩ := h t List.mem_cons_self
    have hstep : addTransStep ck t = .ok { ck with transitions := ck.transitions ++ [{ t with id := ck.transitions.length }] } := by
      unfold addTransStep Chart.addTransition
      simp only [hs, hown, Bool.not_true, Bool.false_eq_true, if_false]
      cases ht : t.target with
      | none => simp [ht]
      | some tg => simp [ht, htg tg ht]
    have h' : ∀ t' ∈ T, (∃ s, ({ ck with transitions := ck.transitions ++ [{ t with id := ck.transitions.length }] } : Chart).stateFor t'.source = some s ∧
        s.kind.ownsTransitions = true) ∧ ∀ tg, t'.target = some tg →
        ({ ck with transitions := ck.transitions ++ [{ t with id := ck.transitions.length }] } : Chart).hasState tg = true :=
      fun t' ht' => h t' (List.mem_cons_of_mem _ ht')
    obtain ⟨c2, e1, e2, e3, e4, e5, e6, e7, e8, e9⟩ := build_transitions T _ h'
    refine ⟨c2, ?_, e2, e3, e4, e5, e6, e7, ?_, ?_⟩
    · simp only [List.foldl_cons]
      have : (Except.ok ck : Except IOErr Chart).bind (fun c => addTransStep c t) = _ := hstep
      rw [this]; exact e1
    · rw [e8]; simp
    · rw [e9]
      simp only [List.map_append, List.map_cons, List.map_nil, List.length_append, List.length_cons, List.length_nil,
        List.append_assoc, List.cons_append, List.nil_append, List.range'_succ]

theorem flatMap_congr' {α β : Type} {f g : α → List β} : ∀ {l : List α}, (∀ x ∈ l, f x = g x) → l.flatMap f = l.flatMap g
  | [], _ => rfl
  | x :: xs, h => by
    simp only [List.flatMap_cons]
    rw [h x List.mem_cons_self, flatMap_congr' (fun y hy => h y (List.mem_cons_of_mem _ hy))]

/-- a list is, up to order, the concatenation of its classes along a duplicate-free cover of the keys -/
theorem perm_flatMap_filter {α κ : Type} [DecidableEq κ] (key : α → κ) : ∀ (K : List κ) (l : List α), K.Nodup →
    (∀ x ∈ l, key x ∈ K) → l.Perm (K.flatMap (fun k => l.filter (fun x => key x == k)))
  | [], l, _, hcov => by
    cases l with
    | nil => exact List.Perm.refl _
    | cons x xs => exact absurd (hcov x List.mem_cons_self) (by simp)
  | k :: K, l, hn, hcov => by
    obtain ⟨hk, hn'⟩ := List.nodup_cons.mp hn
    simp only [List.flatMap_cons]
    have h1 : l.Perm (l.filter (fun x => key x == k) ++ l.filter (fun x => !(key x == k))) :=
      (List.filter_append_perm _ l).symm
    refine h1.trans (List.Perm.append_left _ ?_)
    have hcov' : ∀ x ∈ l.filter (fun x => !(key x == k)), key x ∈ K := by
      intro x hx
      obtain ⟨hxl, hxk⟩ := List.mem_filter.mp hx
      rcases List.mem_cons.mp (hcov x hxl) with e | e
      · simp [e] at hxk
      · exact e
    have ih := perm_flatMap_filter key K _ hn' hcov'
    refine ih.trans ?_
    -- the classes of the other keys are those of the whole list
    have : ∀ k' ∈ K, (l.filter (fun x => !(key x == k))).filter (fun x => key x == k') = l.filter (fun x => key x == k') := by
      intro k' hk'
      rw [List.filter_filter]
      apply List.filter_congr
      intro x _
      by_cases e : key x = k'
      · have : key x ≠ k := fun e' => hk (e' ▸ e ▸ hk')
        simp [e, this] <;> (rw [← e]; simp [this])
      · simp [e]
    rw [flatMap_congr' this]

theorem flatT_eq_flatMap (c : Chart) : ∀ (f : Nat) (n : Name) (par : Option Name),
    flatT c f n = (flatS c f n par).flatMap (fun x =>
      if x.1.kind.ownsTransitions then (c.transitionsFrom x.1.name).map (fun t => { t with id := 0 }) else [])
  | 0, _, _ => rfl
  | f+1, n, par => by
    cases hs : c.stateFor n with
    | none => simp [flatS, flatT, hs]
    | some s =>
      have hn : s.name = n := (stateFor_mem c n s hs).2
      rw [flatT_succ c f n s hs, flatS_succ c f n par s hs]
      simp only [List.flatMap_cons, hn]
      congr 1
      cases s.kind.isComposite with
      | false => simp
      | true =>
        simp only [if_true, List.flatMap_assoc]
        apply flatMap_congr'
        intro ch _
        exact flatT_eq_flatMap c f ch (some n)

theorem find?_entry_nodup : ∀ (l : List (StateDef × Option Name)) (x : StateDef × Option Name),
    (l.map (fun x => x.1.name)).Nodup → x ∈ l →
    (l.map (fun x => (x.1.name, x.2))).find? (fun p => p.1 == x.1.name) = some (x.1.name, x.2)
  | [], _, _, h => by cases h
  | y :: ys, x, hn, hm => by
    rw [List.map_cons] at hn
    obtain ⟨hy, hn'⟩ := List.nodup_cons.mp hn
    simp only [List.map_cons, List.find?_cons]
    rcases List.mem_cons.mp hm with e | e
    · subst e; simp
    · have : y.1.name ≠ x.1.name := fun e' => hy (List.mem_map.mpr ⟨x, e, e'.symm⟩)
      have h1 : (y.1.name == x.1.name) = false := by simp [this]
      simp only [h1]
      exact find?_entry_nodup ys x hn' e

/-- **`import_from_dict(export_to_dict(c))` succeeds, and what it builds.** For a well-formed
    statechart whose exported tree can be read back: the import returns a statechart `c'` with the
    name, description and preamble of `c`; looking up a state, its parent or its children in `c'`
    gives what it gives in `c` (children up to the order of the list); the transitions of `c'` are
    those of `c` but for their identities, up to order. -/
theorem import_export_succeeds (c : Chart) (hw : WFChart c) (r : Name) (hr : c.root = some r)
    (hcov : Covered c (c.states.length + 1) r)
    (hdesc : c.description ≠ some "") (hpre : ∀ p, c.preamble = some p → p = mkCode p.src ∧ p.src ≠ "")
    (fuel : Nat) (hfuel : sizeS c (c.states.length + 1) r < fuel) :
    ∃ c', importDict fuel (exportDict c) = .ok c' ∧
      c'.name = c.name ∧ c'.description = c.description ∧ c'.preamble = c.preamble ∧
      (∀ n, c'.stateFor n = c.stateFor n) ∧ (∀ n, c'.parentFor n = c.parentFor n) ∧
      (∀ q m, m ∈ c'.childrenFor q ↔ m ∈ c.childrenFor q) ∧ (∀ q, (c'.childrenFor q).Nodup) ∧
      (c'.transitions.map (fun t => { t with id := 0 })).Perm (c.transitions.map (fun t => { t with id := 0 })) ∧
      Tidy c' ∧ (c'.transitions.map (·.id)).Nodup := by
  rw [importDict_export c r hr hcov hdesc hpre fuel hfuel]
  obtain ⟨L, hLdef⟩ : ∃ L, L = flatS c (c.states.length + 1) r none := ⟨_, rfl⟩
  obtain ⟨T, hTdef⟩ : ∃ T, T = flatT c (c.states.length + 1) r := ⟨_, rfl⟩
  rw [← hLdef, ← hTdef]
  have ha : Adm L := hLdef ▸ flatS_adm c hw r hr _
  have hcompl := flat_complete c hw r hr _ hcov
  rw [← hLdef, ← hTdef] at hcompl
  have hname : ∀ m sd, c.stateFor m = some sd → sd.name = m := fun m sd h => (stateFor_mem c m sd h).2
  -- 1. the states
  obtain ⟨c0, hc0⟩ : ∃ c0 : Chart, c0 = (⟨c.name, c.description, c.preamble, [], [], [(none, [])], []⟩ : Chart) := ⟨_, rfl⟩
  rw [← hc0]
  have inv0 : BuildInv L [] c0 := by
    rw [hc0]
    exact ⟨empty_tidy' c.name c.description c.preamble, rfl, fun _ => rfl, rfl, fun q => by simp [Chart.childrenFor]⟩
  obtain ⟨c1, hfold1, inv1, htr1, hn1, hd1, hp1⟩ := build_states L ha L [] c0 (by simp) inv0
  have htr1' : c1.transitions = [] := by rw [htr1, hc0]
  -- lookups in `c1`
  have F1 : ∀ n, c1.stateFor n = c.stateFor n := by
    intro n
    cases hs : c.stateFor n with
    | some sd =>
      have hm := hcompl.1 n sd hs
      have : c1.states.find? (fun s => s.name == sd.name) = some sd :=
        find?_of_mem_nodup _ _ inv1.tidy.names (by rw [inv1.states]; exact List.mem_map.mpr ⟨_, hm, rfl⟩)
      rw [hname n sd hs] at this
      exact this
    | none =>
      cases hs1 : c1.stateFor n with
      | none => rfl
      | some sd' =>
        exfalso
        obtain ⟨hmem, hnm⟩ := stateFor_mem c1 n sd' hs1
        rw [inv1.states] at hmem
        obtain ⟨x, hx, rfl⟩ := List.mem_map.mp hmem
        rcases flatS_sound c _ r none x (hLdef ▸ hx) with ⟨h1, _⟩ | ⟨m, q, h1, _, _⟩
        · rw [hname r x.1 h1] at hnm; rw [← hnm, h1] at hs; cases hs
        · rw [hname m x.1 h1] at hnm; rw [← hnm, h1] at hs; cases hs
  have HS : ∀ n, c1.hasState n = c.hasState n := fun n => by simp [Chart.hasState, F1]
  have F2 : ∀ n, c1.parentFor n = c.parentFor n := by
    intro n
    unfold Chart.parentFor
    rw [inv1.parents]
    cases hs : c.stateFor n with
    | some sd =>
      have hm := hcompl.1 n sd hs
      have := find?_entry_nodup L (sd, c.parentFor n) ha.nodup hm
      simp only [hname n sd hs] at this
      rw [this]
      unfold Chart.parentFor
      cases c.parent.find? (fun p => p.1 == n) <;> rfl
    | none =>
      -- not a state: no entry on either side
      have h1 : (L.map (fun x => (x.1.name, x.2))).find? (fun p => p.1 == n) = none := by
        rw [List.find?_eq_none]
        intro p hp hpn
        obtain ⟨x, hx, rfl⟩ := List.mem_map.mp hp
        have hxn : x.1.name = n := by simpa using hpn
        rcases flatS_sound c _ r none x (hLdef ▸ hx) with ⟨h1, _⟩ | ⟨m, q, h1, _, _⟩
        · rw [hname r x.1 h1] at hxn; rw [← hxn, h1] at hs; cases hs
        · rw [hname m x.1 h1] at hxn; rw [← hxn, h1] at hs; cases hs
      rw [h1]
      cases hp : c.parentFor n with
      | none => unfold Chart.parentFor at hp; rw [hp]
      | some p =>
        exfalso
        have := (hw.parentState n p hp).1
        simp [Chart.hasState, hs] at this
  have F3 : ∀ q m, m ∈ c1.childrenFor q ↔ m ∈ c.childrenFor q := by
    intro q m
    rw [inv1.kids q]
    simp only [List.mem_map, List.mem_filter, beq_iff_eq]
    constructor
    · rintro ⟨x, ⟨hx, hx2⟩, rfl⟩
      rcases flatS_sound c _ r none x (hLdef ▸ hx) with ⟨_, h2⟩ | ⟨m', q', h1, h2, h3⟩
      · rw [h2] at hx2; cases hx2
      · rw [h2] at hx2
        cases hx2
        rw [hname m' x.1 h1]; exact h3
    · intro hm
      have hp := (hw.children q m).mp hm
      have hsm := (hw.parentState m q hp).1
      obtain ⟨sd, hsd⟩ : ∃ sd, c.stateFor m = some sd := by
        simpa [Chart.hasState, Option.isSome_iff_exists] using hsm
      exact ⟨(sd, c.parentFor m), ⟨hcompl.1 m sd hsd, hp⟩, hname m sd hsd⟩
  -- 2. the transitions
  have hTok : ∀ t ∈ T, (∃ s, c1.stateFor t.source = some s ∧ s.kind.ownsTransitions = true) ∧
      ∀ tg, t.target = some tg → c1.hasState tg = true := by
    intro t' ht'
    obtain ⟨t, ht, rfl⟩ := flatT_sound c _ r t' (hTdef ▸ ht')
    obtain ⟨hsrc, htg⟩ := hw.transitions t ht
    obtain ⟨sd, hsd⟩ : ∃ sd, c.stateFor t.source = some sd := by
      simpa [Chart.hasState, Option.isSome_iff_exists] using hsrc
    refine ⟨⟨sd, by rw [F1]; exact hsd, hw.sourceKind t ht sd.kind (by simp [Chart.kindOf, hsd])⟩, ?_⟩
    intro tg h
    rw [HS]; exact htg tg h
  obtain ⟨c2, hfold2, hs2, hp2, hc2, hn2, hd2, hpr2, ht2, hids2⟩ := build_transitions T c1 hTok
  have G1 : ∀ n, c2.stateFor n = c.stateFor n := fun n => by simp [Chart.stateFor, hs2]; exact F1 n
  have GS : ∀ n, c2.hasState n = c.hasState n := fun n => by simp [Chart.hasState, G1]
  have G2 : ∀ n, c2.parentFor n = c.parentFor n := fun n => by simp [Chart.parentFor, hp2]; exact F2 n
  have GC : ∀ q, c2.childrenFor q = c1.childrenFor q := fun q => by simp [Chart.childrenFor, hc2]
  -- 3. `validate()`
  have hval : c2.validate = true := by
    unfold Chart.validate
    simp only [Bool.and_eq_true, List.all_eq_true]
    have memL : ∀ sd ∈ c2.states, c.stateFor sd.name = some sd := by
      intro sd hsd
      rw [hs2, inv1.states] at hsd
      obtain ⟨x, hx, rfl⟩ := List.mem_map.mp hsd
      rcases flatS_sound c _ r none x (hLdef ▸ hx) with ⟨h1, _⟩ | ⟨m, q, h1, _, _⟩
      · rw [hname r x.1 h1]; exact h1
      · rw [hname m x.1 h1]; exact h1
    constructor
    · intro sd hsd
      have hst := memL sd hsd
      cases hk : (sd.kind == Kind.compound) with
      | false => simp
      | true =>
        simp only [if_true]
        obtain ⟨i, hi, hpi⟩ := hw.initial sd.name sd hst (by simpa using hk)
        rw [hi]
        simp only [Bool.and_eq_true, List.contains_iff_mem]
        refine ⟨by rw [GS]; exact (hw.parentState i sd.name hpi).1, ?_⟩
        rw [GC, F3]
        exact (hw.children sd.name i).mpr hpi
    · intro sd hsd
      have hst := memL sd hsd
      cases hk : sd.kind.isHistory with
      | false => simp
      | true =>
        simp only [if_true]
        obtain ⟨p, m, hp, _, hm, hpm, hne⟩ := hw.history sd.name sd hst hk
        rw [hm]
        simp only [G2, hp, Bool.and_eq_true, bne_iff_ne, ne_eq, List.contains_iff_mem]
        refine ⟨⟨hne, by rw [GS]; exact (hw.parentState m p hpm).1⟩, ?_⟩
        rw [GC, F3]
        exact (hw.children p m).mpr hpm
  -- 4. assemble
  refine ⟨c2, ?_, by rw [hn2, hn1, hc0], by rw [hd2, hd1, hc0], by rw [hpr2, hp1, hc0], G1, G2, ?_, ?_, ?_,
    tidy_of_same_dicts inv1.tidy hs2 hp2 hc2, by rw [hids2, htr1']; simpa using List.nodup_range' (s := 0) (n := T.length)⟩
  · unfold buildChart
    simp only [hfold1, hfold2, hval, if_true]
  · intro q m; rw [GC]; exact F3 q m
  · intro q; rw [GC]; exact inv1.tidy.childrenNodup q
  · rw [ht2, htr1']
    simp only [List.map_nil, List.nil_append]
    -- the registered transitions are those of `c` (identity reset), each once
    have hstrip : T.map (fun t => { t with id := 0 }) = T := by
      rw [List.map_congr_left (g := id)]
      · simp
      · intro t' ht'
        obtain ⟨t, _, rfl⟩ := flatT_sound c _ r t' (hTdef ▸ ht')
        rfl
    rw [hstrip, hTdef, flatT_eq_flatMap c _ r none, ← hLdef]
    -- classes of the transitions of `c` along the names read back
    have hK := perm_flatMap_filter (fun (t : Trans) => t.source) (L.map (fun x => x.1.name)) c.transitions ha.nodup (by
      intro t ht
      obtain ⟨hsrc, _⟩ := hw.transitions t ht
      obtain ⟨sd, hsd⟩ : ∃ sd, c.stateFor t.source = some sd := by
        simpa [Chart.hasState, Option.isSome_iff_exists] using hsrc
      exact List.mem_map.mpr ⟨_, hcompl.1 t.source sd hsd, hname t.source sd hsd⟩)
    refine List.Perm.symm ((hK.map (fun t => { t with id := 0 })).trans ?_)
    rw [List.map_flatMap, List.flatMap_map]
    apply List.Perm.of_eq
    apply flatMap_congr'
    intro x hx
    -- a state that owns no transition has none (W7)
    cases ho : x.1.kind.ownsTransitions with
    | true => simp only [if_true]; rfl
    | false =>
      simp only [Bool.false_eq_true, if_false, List.map_eq_nil_iff, List.filter_eq_nil_iff]
      intro t ht hts
      have hsrc : t.source = x.1.name := by simpa using hts
      have hxs : c.stateFor x.1.name = some x.1 := by
        rcases flatS_sound c _ r none x (hLdef ▸ hx) with ⟨h1, _⟩ | ⟨m, q, h1, _, _⟩
        · rw [hname r x.1 h1]; exact h1
        · rw [hname m x.1 h1]; exact h1
      have := hw.sourceKind t ht x.1.kind (by rw [hsrc]; simp [Chart.kindOf, hxs])
      rw [ho] at this; cases this

end Sismic
