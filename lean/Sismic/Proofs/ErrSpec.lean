import Sismic.Proofs.Frame
/-!
# Sismic.Proofs.ErrSpec — where exceptions come from

`ErrSpec P m`: whenever `m` raises `e`, `P e` holds of the state in which it is raised.  Generic
traversal of `execute_once` for any `P` that holds at the primitive raising sites.
-/
namespace Sismic
open M

variable {σ ω : Type} (env : Env σ ω)

structure ErrSpec {α : Type} (P : Err → RS σ ω → Prop) (m : M σ ω α) : Prop where
  spec : ∀ rs e rs', m rs = (.error e, rs') → P e rs'

namespace ErrSpec
variable {α β γ : Type} {P : Err → RS σ ω → Prop}

theorem pure (a : α) : ErrSpec P (M.pure a : M σ ω α) := by
  constructor; intro rs e rs' h; simp [M.pure] at h

theorem bind {x : M σ ω α} {f : α → M σ ω β} (hx : ErrSpec P x) (hf : ∀ a, ErrSpec P (f a)) :
    ErrSpec P (M.bind x f) := by
  constructor
  intro rs e rs' h
  rcases bind_error.mp h with h | ⟨a, r1, _, h2⟩
  · exact hx.spec rs e rs' h
  · exact (hf a).spec r1 e rs' h2

theorem get : ErrSpec P (M.get : M σ ω _) := by
  constructor; intro rs e rs' h; simp [M.get] at h

theorem modify (f : IState σ → IState σ) : ErrSpec P (M.modify f : M σ ω _) := by
  constructor; intro rs e rs' h; simp [M.modify] at h

theorem emit (x : Effect) : ErrSpec P (M.emit x : M σ ω _) := by
  constructor; intro rs e rs' h; simp [M.emit] at h

theorem throw (e : Err) (h : ∀ rs, P e rs) : ErrSpec P (M.throw e : M σ ω α) := by
  constructor
  intro rs e' rs' h'
  rw [throw_error] at h'
  obtain ⟨rfl, rfl⟩ := h'
  exact h rs

theorem forEach {f : γ → M σ ω Unit} (hf : ∀ a, ErrSpec P (f a)) : ∀ l : List γ, ErrSpec P (M.forEach f l)
  | [] => ErrSpec.pure ()
  | x :: xs => ErrSpec.bind (hf x) (fun _ => forEach hf xs)

end ErrSpec

/-- errors raised by the interpreter's own bookkeeping (not by contracts, listeners or the
    non-determinism / conflict checks) -/
def Err.plain : Err → Bool
  | .codeError | .statechartError | .assertion | .fuel | .unsupported => true
  | _ => false

/-- what `P` must satisfy at the primitive raising sites -/
structure Raises (P : Err → RS σ ω → Prop) : Prop where
  plain : ∀ e, e.plain = true → ∀ rs, P e rs
  raise : ∀ m : Event, ErrSpec P (raiseMeta env m)
  contract : ∀ (kind : CondKind) (obj : Obj) (ev : Option Event), ErrSpec P (evalContract env kind obj ev)

theorem memoryOf_plain (c : Chart) (cfg0 : List Name) (s : StateDef) (ch : Name) (e : Err)
    (h : memoryOf c cfg0 s ch = .error e) : e.plain = true := by
  unfold memoryOf at h
  split at h
  · split at h <;> simp at h; subst h; rfl
  · split at h <;> simp at h; subst h; rfl
  · simp at h
  · simp at h; subst h; rfl

section Generic
variable {env}
variable {P : Err → RS σ ω → Prop} (H : Raises env P)
include H

theorem es_queueEvent (i : Bool) (e : Event) : ErrSpec P (queueEvent (σ := σ) (ω := ω) i e) := by
  unfold queueEvent; exact ErrSpec.modify _

theorem es_raiseSent (s : Sent) : ErrSpec P (raiseSent env s) := by
  cases s with
  | notify m => exact H.raise m
  | internal e =>
    unfold raiseSent
    apply ErrSpec.bind (es_queueEvent H _ _); intro _
    apply ErrSpec.bind (H.raise _); intro _
    split
    · exact H.raise _
    · exact ErrSpec.pure _

theorem es_stateObj (n : Name) : ErrSpec P (stateObj env n) := by
  unfold stateObj
  split
  · exact ErrSpec.pure _
  · exact ErrSpec.throw _ (H.plain _ rfl)

theorem es_stateObjs : ∀ ns : List Name, ErrSpec P (stateObjs env ns)
  | [] => ErrSpec.pure _
  | n :: ns => by
    unfold stateObjs
    apply ErrSpec.bind (es_stateObj H n); intro s
    apply ErrSpec.bind (es_stateObjs ns); intro ss
    exact ErrSpec.pure _

theorem es_runCode (k : ExecKind) (ev : Option Event) : ErrSpec P (runCode env k ev) := by
  unfold runCode
  apply ErrSpec.bind ErrSpec.get; intro st
  apply ErrSpec.bind (ErrSpec.modify _); intro _
  split
  · exact ErrSpec.pure _
  · exact ErrSpec.throw _ (H.plain _ rfl)

theorem es_saveMemory (cfg0 : List Name) (s : StateDef) : ∀ chs : List Name, ErrSpec P (saveMemory env cfg0 s chs)
  | [] => ErrSpec.pure _
  | ch :: rest => by
    unfold saveMemory
    split
    · next e he => exact ErrSpec.throw _ (H.plain _ (memoryOf_plain _ _ _ _ _ he))
    · exact es_saveMemory cfg0 s rest
    · apply ErrSpec.bind (ErrSpec.modify _); intro _
      exact es_saveMemory cfg0 s rest

theorem es_exitState (cfg0 : List Name) (step : Micro) (s : StateDef) : ErrSpec P (exitState env cfg0 step s) := by
  unfold exitState
  apply ErrSpec.bind (ErrSpec.emit _); intro _
  apply ErrSpec.bind (es_runCode H _ _); intro sent
  apply ErrSpec.bind
  · split
    · exact es_saveMemory H cfg0 s _
    · exact ErrSpec.pure _
  intro _
  apply ErrSpec.bind ErrSpec.get; intro st
  apply ErrSpec.bind
  · split
    · exact ErrSpec.throw _ (H.plain _ rfl)
    · exact ErrSpec.pure _
  intro _
  apply ErrSpec.bind (ErrSpec.modify _); intro _
  apply ErrSpec.bind (H.contract _ _ _); intro _
  apply ErrSpec.bind (H.raise _); intro _
  exact ErrSpec.pure _

theorem es_enterState (step : Micro) (s : StateDef) : ErrSpec P (enterState env step s) := by
  unfold enterState
  apply ErrSpec.bind (H.contract _ _ _); intro _
  apply ErrSpec.bind (ErrSpec.emit _); intro _
  apply ErrSpec.bind (es_runCode H _ _); intro sent
  apply ErrSpec.bind (ErrSpec.modify _); intro _
  apply ErrSpec.bind (H.raise _); intro _
  exact ErrSpec.pure _

theorem es_fireTransition (step : Micro) (t : Trans) : ErrSpec P (fireTransition env step t) := by
  unfold fireTransition
  apply ErrSpec.bind (H.contract _ _ _); intro _
  apply ErrSpec.bind (H.contract _ _ _); intro _
  apply ErrSpec.bind (ErrSpec.emit _); intro _
  apply ErrSpec.bind (es_runCode H _ _); intro sent
  apply ErrSpec.bind (H.contract _ _ _); intro _
  apply ErrSpec.bind (H.contract _ _ _); intro _
  apply ErrSpec.bind (ErrSpec.modify _); intro _
  apply ErrSpec.bind (H.raise _); intro _
  exact ErrSpec.pure _

theorem es_collect {γ : Type} (f : γ → M σ ω (List Sent)) (hf : ∀ x, ErrSpec P (f x)) :
    ∀ l : List γ, ErrSpec P (collect f l)
  | [] => ErrSpec.pure _
  | x :: xs => by
    unfold collect
    apply ErrSpec.bind (hf x); intro a
    apply ErrSpec.bind (es_collect f hf xs); intro b
    exact ErrSpec.pure _

theorem es_raiseAll (sent : List Sent) : ErrSpec P (raiseAll env sent) := by
  unfold raiseAll
  apply ErrSpec.forEach
  intro ev
  apply ErrSpec.bind (es_raiseSent H ev); intro _
  exact ErrSpec.modify _

theorem es_applyStep (step : Micro) : ErrSpec P (applyStep env step) := by
  unfold applyStep
  apply ErrSpec.bind (es_stateObjs H _); intro entered
  apply ErrSpec.bind (es_stateObjs H _); intro exited
  apply ErrSpec.bind ErrSpec.get; intro st0
  apply ErrSpec.bind (es_collect H _ (es_exitState H _ _) _); intro s1
  apply ErrSpec.bind
  · split
    · exact es_fireTransition H _ _
    · exact ErrSpec.pure _
  intro s2
  apply ErrSpec.bind (es_collect H _ (es_enterState H _) _); intro s3
  apply ErrSpec.bind (es_raiseAll H _); intro _
  exact ErrSpec.pure _

theorem es_stabilize : ∀ n : Nat, ErrSpec P (stabilize env n)
  | 0 => ErrSpec.throw _ (H.plain _ rfl)
  | n+1 => by
    unfold stabilize
    apply ErrSpec.bind ErrSpec.get; intro st
    split
    · exact ErrSpec.pure _
    · apply ErrSpec.bind (es_applyStep H _); intro a
      apply ErrSpec.bind (es_stabilize n); intro rest
      exact ErrSpec.pure _

theorem es_logGuards (st : IState σ) (ev : Option Event) : ∀ l : List (Trans × Bool), ErrSpec P (logGuards env st ev l)
  | [] => ErrSpec.pure _
  | (t, exposed) :: rest => by
    unfold logGuards
    apply ErrSpec.bind (ErrSpec.emit _); intro _
    split
    · exact ErrSpec.throw _ (H.plain _ rfl)
    · exact es_logGuards st ev rest

theorem es_applyAll : ∀ l : List Micro, ErrSpec P (applyAll env l)
  | [] => ErrSpec.pure _
  | s :: rest => by
    unfold applyAll
    apply ErrSpec.bind (es_applyStep H s); intro a
    apply ErrSpec.bind (es_stabilize H _); intro stab
    apply ErrSpec.bind (es_applyAll rest); intro more
    exact ErrSpec.pure _

theorem es_computeSteps (hnd : ∀ rs, P .nonDeterminism rs) (hcf : ∀ rs, P .conflicting rs) :
    ErrSpec P (computeSteps env) := by
  unfold computeSteps
  apply ErrSpec.bind ErrSpec.get; intro st
  split
  · apply ErrSpec.bind (ErrSpec.modify _); intro _
    exact ErrSpec.pure _
  · simp only
    apply ErrSpec.bind (es_logGuards H _ _ _); intro _
    split
    · split
      · exact ErrSpec.pure _
      · exact ErrSpec.pure _
    · split
      · exact ErrSpec.throw _ hnd
      · exact ErrSpec.throw _ hcf
      · exact ErrSpec.pure _

theorem es_finishStep (ms : Option MacroStep) : ErrSpec P (finishStep env ms) := by
  unfold finishStep
  apply ErrSpec.bind ErrSpec.get; intro st
  apply ErrSpec.bind
  · apply ErrSpec.forEach
    intro n
    apply ErrSpec.bind (es_stateObj H n); intro s
    exact H.contract _ _ _
  intro _
  apply ErrSpec.bind (H.raise _); intro _
  exact ErrSpec.pure _

theorem es_runSteps (computed : List Micro) : ErrSpec P (runSteps env computed) := by
  unfold runSteps
  split
  · exact ErrSpec.pure _
  · apply ErrSpec.bind
    · split
      · apply ErrSpec.bind ErrSpec.get; intro st
        apply ErrSpec.bind (ErrSpec.modify _); intro _
        exact H.raise _
      · exact ErrSpec.pure _
    intro _
    apply ErrSpec.bind (es_applyAll H _); intro executed
    apply ErrSpec.bind ErrSpec.get; intro st
    exact ErrSpec.pure _

theorem es_executeOnce (hnd : ∀ rs, P .nonDeterminism rs) (hcf : ∀ rs, P .conflicting rs) (clock : Int) :
    ErrSpec P (executeOnce env clock) := by
  unfold executeOnce
  apply ErrSpec.bind (ErrSpec.modify _); intro _
  apply ErrSpec.bind (H.raise _); intro _
  apply ErrSpec.bind (es_computeSteps H hnd hcf); intro computed
  apply ErrSpec.bind (es_runSteps H computed); intro ms
  exact es_finishStep H ms

end Generic

/-! ### instance: an exception tells where it was raised

A contract error is raised right after the evaluation, logged as false, of a condition of that
kind of that object; an exception coming from a listener is raised right after the meta-event that
was being delivered was logged — in both cases nothing is logged afterwards. -/

def Err.fromListener : Err → Bool
  | .propertyFailed _ | .listener _ => true
  | _ => false

/-- listeners raise only listener-class exceptions (`PropertyStatechartError`, or whatever a
    callable raises); in particular no contract error of a nested interpreter leaks out -/
def ListenerErrs (env : Env σ ω) : Prop :=
  ∀ l m t w e, (env.deliver l m t w).1 = .error e → e.fromListener = true

def RaisedAt (e : Err) (rs : RS σ ω) : Prop :=
  match e with
  | .precondition o _ => ∃ i ev, rs.eff.getLast? = some (.cond .pre o i ev (some false))
  | .postcondition o _ => ∃ i ev, rs.eff.getLast? = some (.cond .post o i ev (some false))
  | .invariant o _ => ∃ i ev, rs.eff.getLast? = some (.cond .inv o i ev (some false))
  | .propertyFailed _ => ∃ m, rs.eff.getLast? = some (.metaEv m)
  | .listener _ => ∃ m, rs.eff.getLast? = some (.metaEv m)
  | _ => True

theorem callListener_eff (m : Event) (l : Nat) (rs : RS σ ω) : (callListener env m l rs).2.eff = rs.eff := rfl

theorem forEach_callListener_error (hd : ListenerErrs env) (m : Event) :
    ∀ (ls : List Nat) (rs rs' : RS σ ω) (e : Err),
      M.forEach (callListener env m) ls rs = (.error e, rs') → e.fromListener = true ∧ rs'.eff = rs.eff
  | [], rs, rs', e, h => by simp [M.forEach, M.pure] at h
  | l :: ls, rs, rs', e, h => by
    simp only [M.forEach] at h
    rcases bind_error.mp h with h1 | ⟨a, r1, h1, h2⟩
    · have he : (env.deliver l m rs.st.time rs.world).1 = .error e := by
        have := congrArg Prod.fst h1; simpa [callListener] using this
      have hs : rs' = (callListener env m l rs).2 := by rw [h1]
      exact ⟨hd _ _ _ _ _ he, by rw [hs]; rfl⟩
    · have := forEach_callListener_error hd m ls r1 rs' e h2
      have hs : r1 = (callListener env m l rs).2 := by rw [h1]
      exact ⟨this.1, by rw [this.2, hs]; rfl⟩

theorem raisedAt_raises (hd : ListenerErrs env) : Raises env (RaisedAt : Err → RS σ ω → Prop) where
  plain e he rs := by cases e <;> simp [Err.plain] at he <;> trivial
  raise m := by
    constructor
    intro rs e rs' h
    unfold raiseMeta at h
    rcases bind_error.mp h with h | ⟨a, r1, h1, h2⟩
    · simp [M.emit] at h
    · rw [emit_ok] at h1; subst h1
      rcases bind_error.mp h2 with h | ⟨st, r2, h3, h4⟩
      · simp [M.get] at h
      · rw [get_ok] at h3; obtain ⟨rfl, rfl⟩ := h3
        obtain ⟨hl, heff⟩ := forEach_callListener_error env hd m _ _ rs' e h4
        have hlast : rs'.eff.getLast? = some (.metaEv m) := by rw [heff]; simp
        cases e <;> simp [Err.fromListener] at hl
        · exact ⟨m, hlast⟩
        · exact ⟨m, hlast⟩
  contract kind obj ev := by
    constructor
    intro rs e rs' h
    have hconds : ∀ (codes : List Code) (i : Nat) (rs rs' : RS σ ω) (e : Err),
        evalConds env kind obj ev i codes rs = (.error e, rs') → RaisedAt e rs' := by
      intro codes
      induction codes with
      | nil => intro i rs rs' e h; simp [evalConds, M.pure] at h
      | cons c cs ih =>
        intro i rs rs' e h
        unfold evalConds at h
        rcases bind_error.mp h with h | ⟨st, r1, h1, h⟩
        · simp [M.get] at h
        · rw [get_ok] at h1; obtain ⟨rfl, rfl⟩ := h1
          rcases bind_error.mp h with h | ⟨a, r2, h2, h⟩
          · simp [M.emit] at h
          · rw [emit_ok] at h2; subst h2
            cases hr : env.E.cond rs.st kind obj c ev with
            | none =>
              simp only [hr, throw_error] at h
              obtain ⟨rfl, rfl⟩ := h
              trivial
            | some b =>
              cases b with
              | true => simp only [hr] at h; exact ih _ _ _ _ h
              | false =>
                simp only [hr, throw_error] at h
                obtain ⟨rfl, rfl⟩ := h
                cases kind <;> exact ⟨i, ev, by simp [hr]⟩
    unfold evalContract at h
    split at h
    · simp [M.pure] at h
    · rcases bind_error.mp h with h | ⟨a, r1, _, h⟩
      · split at h
        · simp [M.modify] at h
        · simp [M.pure] at h
      · exact hconds _ _ _ _ _ h

/-- **Where `execute_once` raises.** -/
theorem executeOnce_raisedAt (hd : ListenerErrs env) (clock : Int) (rs rs' : RS σ ω) (e : Err)
    (h : executeOnce env clock rs = (.error e, rs')) : RaisedAt e rs' :=
  (es_executeOnce (raisedAt_raises env hd) (fun _ => trivial) (fun _ => trivial) clock).spec rs e rs' h

end Sismic
