import Sismic.Proofs.EditValid
/-!
# `add_state` and `validate()`: the exact condition

`EditValid` shows that `add_state` of a state without `initial` / `memory` keeps `validate()` passing.
Here the hypothesis is replaced by the one that is *necessary and sufficient*: on a statechart with
consistent dictionaries on which `validate()` passes, a successful `add_state(s, p)` leaves
`validate()` passing **iff** `s` fits under `p` — a compound state comes without `initial` (it has
no child yet, so any `initial` dangles), and a history state comes without `memory` or with a
memory that already is another child of the same parent.  So nothing is left open about
`add_state`: the sessions after which `validate()` passes are exactly those whose added states fit.
-/
namespace Sismic
namespace Chart

/-- what `add_state(s, p)` may be handed for `validate()` to pass afterwards -/
def _root_.Sismic.StateDef.FitsUnder (s : StateDef) (c : Chart) (p : Option Name) : Prop :=
  (s.kind = .compound → s.initial = none) ∧
  (s.kind.isHistory = true → ∀ m, s.memory = some m →
    m ≠ s.name ∧ ∃ par, p = some par ∧ c.parentFor m = some par)

theorem StateDef.Bare.fitsUnder {s : StateDef} (h : s.Bare) (c : Chart) (p : Option Name) : s.FitsUnder c p :=
  ⟨h.1, fun hk m hm => by rw [h.2 hk] at hm; cases hm⟩

/-- nobody is a child of a name that is not a state -/
theorem no_child_of_fresh (c : Chart) (ht : Tidy c) (n : Name) (hfresh : c.hasState n = false) (x : Name) :
    c.parentFor x ≠ some n := by
  intro h
  have hx : x ∈ c.childrenFor n := (ht.childParent n x).2 h
  have := ht.childKeysStates n (key_of_child c n x hx)
  rw [hfresh] at this
  cases this

theorem addedChart_soundRefs_iff (c : Chart) (s : StateDef) (p : Option Name) (ht : Tidy c)
    (hfresh : c.hasState s.name = false) (hp : ∀ par, p = some par → c.hasState par = true)
    (hc : c.SoundRefs) : (addedChart c s p).SoundRefs ↔ s.FitsUnder c p := by
  have fresh : ∀ x q, c.parentFor x = some q → x ≠ s.name := by
    intro x q hx e
    have := ht.parentKeysStates x (key_of_parentFor c x q hx)
    rw [e, hfresh] at this
    cases this
  have hst : (addedChart c s p).states = c.states ++ [s] := rfl
  have hpne : p ≠ some s.name := by
    intro e
    have := hp _ e
    rw [hfresh] at this
    cases this
  constructor
  · intro h
    have hs : s ∈ (addedChart c s p).states := by rw [hst]; simp
    obtain ⟨h1, h2⟩ := h s hs
    simp only [added_parentFor c s p ht hfresh] at h1 h2
    constructor
    · intro hk
      cases hi : s.initial with
      | none => rfl
      | some i =>
        exfalso
        have := h1 hk i hi
        by_cases e : i = s.name
        · simp only [e, if_true] at this
          exact hpne this
        · simp only [e, if_false] at this
          exact no_child_of_fresh c ht s.name hfresh i this
    · intro hk m hm
      obtain ⟨hne, q, hq1, hq2⟩ := h2 hk m hm
      simp only [if_true] at hq1
      simp only [hne, if_false] at hq2
      exact ⟨hne, q, hq1, hq2⟩
  · intro hb s' hs'
    rw [hst, List.mem_append, List.mem_singleton] at hs'
    simp only [added_parentFor c s p ht hfresh]
    rcases hs' with hs' | rfl
    · obtain ⟨h1, h2⟩ := hc s' hs'
      constructor
      · intro hk i hi
        have := h1 hk i hi
        simp only [fresh i _ this, if_false]
        exact this
      · intro hk m hm
        obtain ⟨hne, q, hq1, hq2⟩ := h2 hk m hm
        simp only [fresh _ _ hq1, fresh _ _ hq2, if_false]
        exact ⟨hne, q, hq1, hq2⟩
    · constructor
      · intro hk i hi
        rw [hb.1 hk] at hi
        cases hi
      · intro hk m hm
        obtain ⟨hne, par, hpar, hm'⟩ := hb.2 hk m hm
        refine ⟨hne, par, ?_, ?_⟩
        · simp only [if_true]; exact hpar
        · simp only [hne, if_false]; exact hm'

/-- **`add_state` and `validate()`, exactly**: after a successful `add_state(s, p)` on a consistent
    statechart on which `validate()` passes, `validate()` passes iff `s` fits under `p`. -/
theorem addState_validate_iff (c : Chart) (s : StateDef) (p : Option Name) (ht : Tidy c) (hv : c.validate = true)
    (h : (c.addState s p).1 = .ok ()) : (c.addState s p).2.validate = true ↔ s.FitsUnder c p := by
  rw [validate_iff _ (addState_tidy c s p ht h)]
  have hc := (validate_iff c ht).1 hv
  cases p with
  | none =>
    obtain ⟨hf, _, _, he⟩ := addState_root_fields c s h
    rw [he]
    exact addedChart_soundRefs_iff c s none ht hf (fun _ e => by cases e) hc
  | some par =>
    obtain ⟨hf, ⟨ps, hps, _⟩, he⟩ := addState_child_fields c s par h
    rw [he]
    refine addedChart_soundRefs_iff c s (some par) ht hf (fun q e => ?_) hc
    cases e
    simp [hasState, hps]

/-- the states `add_state` is given fit where they are put (decided against the statechart *at that moment*) -/
def EditOp.Fits (c : Chart) : EditOp → Prop
  | .addState s p => s.FitsUnder c p
  | _ => True

theorem applyEdit_validate_fits (c : Chart) (op : EditOp) (ht : Tidy c) (hv : c.validate = true) (hop : op.Fits c) :
    (c.applyEdit op).2.validate = true := by
  cases op with
  | addState s p =>
    show (c.addState s p).2.validate = true
    cases hr : (c.addState s p).1 with
    | error e => rw [addState_atomic c s p e hr]; exact hv
    | ok u => exact (addState_validate_iff c s p ht hv hr).2 hop
  | addTransition t => exact applyEdit_validate c _ ht hv trivial
  | removeTransition t => exact applyEdit_validate c _ ht hv trivial
  | removeState n => exact applyEdit_validate c _ ht hv trivial
  | renameState a b => exact applyEdit_validate c _ ht hv trivial
  | moveState a b => exact applyEdit_validate c _ ht hv trivial
  | rotateTransition i s t => exact applyEdit_validate c _ ht hv trivial

/-- a session every `add_state` of which fits the statechart it is applied to -/
def FitsSession : List EditOp → Chart → Prop
  | [], _ => True
  | op :: ops, c => op.Fits c ∧ FitsSession ops (c.applyEdit op).2

theorem applyEdits_validate_fits : ∀ (ops : List EditOp) (c : Chart), Tidy c → c.validate = true → FitsSession ops c →
    (c.applyEdits ops).validate = true
  | [], _, _, hv, _ => hv
  | op :: ops, c, ht, hv, h =>
    applyEdits_validate_fits ops _ (applyEdit_tidy c op ht) (applyEdit_validate_fits c op ht hv h.1) h.2

end Chart
end Sismic
