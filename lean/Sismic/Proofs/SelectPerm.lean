import Sismic.Proofs.ChartPerm
import Sismic.Proofs.Select
/-!
# Sismic.Proofs.SelectPerm — `_select_transitions` on permuted transition lists: same transitions
selected, same guards evaluated (as multisets)
-/
namespace Sismic

section
variable {α κ : Type} [DecidableEq κ]

theorem strictSorted_nodup (le : κ → κ → Bool) (l : List κ) (h : StrictSorted le l) : l.Nodup :=
  h.imp (fun hab => hab.2)

theorem strictSorted_unique (le : κ → κ → Bool) (hle : TotalLE le) (l l' : List κ)
    (h : StrictSorted le l) (h' : StrictSorted le l') (hm : ∀ x, x ∈ l ↔ x ∈ l') : l = l' := by
  apply List.Perm.eq_of_pairwise (le := fun a b => le a b = true ∧ a ≠ b)
  · intro a b _ _ hab hba; exact hle.antisymm a b hab.1 hba.1
  · exact h
  · exact h'
  · exact (List.perm_ext_iff_of_nodup (strictSorted_nodup le l h) (strictSorted_nodup le l' h')).mpr hm

theorem keysSorted_perm (le : κ → κ → Bool) (hle : TotalLE le) (key : α → κ) (xs xs' : List α)
    (hp : xs'.Perm xs) : keysSorted le key xs' = keysSorted le key xs := by
  apply strictSorted_unique le hle _ _ (keysSorted_sorted le hle key xs') (keysSorted_sorted le hle key xs)
  intro k
  rw [mem_keysSorted, mem_keysSorted]
  constructor
  · rintro ⟨x, hx, hk⟩; exact ⟨x, hp.mem_iff.mp hx, hk⟩
  · rintro ⟨x, hx, hk⟩; exact ⟨x, hp.mem_iff.mpr hx, hk⟩
end

theorem any_perm {α} (p : α → Bool) {l l' : List α} (h : l'.Perm l) : l'.any p = l.any p := by
  rw [Bool.eq_iff_iff]
  simp only [List.any_eq_true]
  constructor
  · rintro ⟨x, hx, hp⟩; exact ⟨x, h.mem_iff.mp hx, hp⟩
  · rintro ⟨x, hx, hp⟩; exact ⟨x, h.mem_iff.mpr hx, hp⟩

theorem goEvaluated_perm (ok : Trans → Bool) (G G' : List Trans) (hp : G'.Perm G) :
    ∀ prios : List Int, (goEvaluated ok G' prios).Perm (goEvaluated ok G prios)
  | [] => List.Perm.refl _
  | p :: ps => by
    simp only [goEvaluated]
    have hc : (G'.filter (fun t => t.priority = p)).Perm (G.filter (fun t => t.priority = p)) := hp.filter _
    rw [any_perm ok hc]
    split
    · exact hc
    · exact hc.append (goEvaluated_perm ok G G' hp ps)

/-- `none`, or two selections that are permutations of each other -/
def OptPerm : Option (List Trans) → Option (List Trans) → Prop
  | none, none => True
  | some a, some b => a.Perm b
  | _, _ => False

theorem goClasses_perm (ok : Trans → Bool) (G G' : List Trans) (hp : G'.Perm G) :
    ∀ prios : List Int, OptPerm (goClasses ok G' prios) (goClasses ok G prios)
  | [] => trivial
  | p :: ps => by
    simp only [goClasses]
    have hc : (G'.filter (fun t => t.priority = p)).Perm (G.filter (fun t => t.priority = p)) := hp.filter _
    rw [any_perm ok hc]
    split
    · exact hc.filter _
    · exact goClasses_perm ok G G' hp ps

structure SelRel (st' st : SelSt) : Prop where
  selected : st'.selected.Perm st.selected
  ignored : st'.ignored = st.ignored
  evaluated : st'.evaluated.Perm st.evaluated

theorem lePrio_totalLE : TotalLE lePrio := lePrio_total

theorem stepSrc_perm {c c' : Chart} (hc : ChartPerm c c') (ok : Trans → Bool) (G G' : List Trans)
    (hp : G'.Perm G) (st st' : SelSt) (hs : SelRel st' st) (src : Name) :
    SelRel (stepSrc c' ok G' st' src) (stepSrc c ok G st src) := by
  unfold stepSrc
  rw [hs.ignored]
  split
  · exact hs
  · have ht : (G'.filter (fun t => t.source = src)).Perm (G.filter (fun t => t.source = src)) := hp.filter _
    have hk := keysSorted_perm lePrio lePrio_totalLE (·.priority) _ _ ht
    simp only [hk, hc.ancestors]
    have hev := goEvaluated_perm ok _ _ ht (keysSorted lePrio (·.priority) (G.filter (fun t => t.source = src)))
    have hcl := goClasses_perm ok _ _ ht (keysSorted lePrio (·.priority) (G.filter (fun t => t.source = src)))
    cases h1 : goClasses ok (G'.filter (fun t => t.source = src))
        (keysSorted lePrio (·.priority) (G.filter (fun t => t.source = src))) with
    | none =>
      cases h2 : goClasses ok (G.filter (fun t => t.source = src))
          (keysSorted lePrio (·.priority) (G.filter (fun t => t.source = src))) with
      | none => exact ⟨hs.selected, rfl, hs.evaluated.append hev⟩
      | some b => rw [h1, h2] at hcl; exact hcl.elim
    | some a =>
      cases h2 : goClasses ok (G.filter (fun t => t.source = src))
          (keysSorted lePrio (·.priority) (G.filter (fun t => t.source = src))) with
      | none => rw [h1, h2] at hcl; exact hcl.elim
      | some b =>
        rw [h1, h2] at hcl
        exact ⟨hs.selected.append hcl, by simp only, hs.evaluated.append hev⟩

theorem selectGroup_perm {c c' : Chart} (hc : ChartPerm c c') (hT : TreeOK c) (ok : Trans → Bool)
    (G G' : List Trans) (hp : G'.Perm G) : SelRel (selectGroup c' ok G') (selectGroup c ok G) := by
  unfold selectGroup
  have hle : leSrc c' = leSrc c := by funext a b; simp [leSrc, hc.depth]
  rw [hle, keysSorted_perm (leSrc c) (leSrc_total c) (·.source) _ _ hp]
  generalize keysSorted (leSrc c) (·.source) G = keys
  have : ∀ (st st' : SelSt), SelRel st' st →
      SelRel (keys.foldl (stepSrc c' ok G') st') (keys.foldl (stepSrc c ok G) st) := by
    induction keys with
    | nil => intro st st' h; exact h
    | cons k ks ih => intro st st' h; exact ih _ _ (stepSrc_perm hc ok G G' hp st st' h k)
  exact this {} {} ⟨List.Perm.refl _, rfl, List.Perm.refl _⟩

/-- **same selection, same guard evaluations** — up to order -/
theorem selectTransitions_perm {c c' : Chart} (hc : ChartPerm c c') (hT : TreeOK c) (cfg : List Name)
    (evName : Option String) (ok : Trans → Bool → Bool) :
    (selectTransitions c' cfg evName ok).selected.Perm (selectTransitions c cfg evName ok).selected ∧
    (selectTransitions c' cfg evName ok).calls.Perm (selectTransitions c cfg evName ok).calls := by
  unfold selectTransitions
  have hcons : (c'.transitions.filter (fun t => cfg.contains t.source && (t.event.isNone || t.event == evName))).Perm
      (c.transitions.filter (fun t => cfg.contains t.source && (t.event.isNone || t.event == evName))) :=
    hc.transitions.filter _
  have r0 := selectGroup_perm hc hT (fun t => ok t false) _ _ (hcons.filter (fun t => t.event.isNone))
  have r1 := selectGroup_perm hc hT (fun t => ok t true) _ _ (hcons.filter (fun t => t.event.isSome))
  have hemp : ∀ {a b : List Trans}, a.Perm b → a.isEmpty = b.isEmpty := by
    intro a b hab
    rw [Bool.eq_iff_iff]
    simp only [List.isEmpty_iff]
    constructor
    · intro e; rw [e] at hab; exact hab.symm.eq_nil
    · intro e; rw [e] at hab; exact hab.eq_nil
  have hg : ∀ {s' s : SelSt} (b : Bool), SelRel s' s → (guardCalls s' b).Perm (guardCalls s b) := by
    intro s' s b hr
    exact (hr.evaluated.filter _).map _
  simp only
  rw [hemp r0.selected]
  split
  · exact ⟨r0.selected, hg false r0⟩
  · exact ⟨r1.selected, (hg false r0).append (hg true r1)⟩

end Sismic

namespace Sismic

theorem pairs_any_perm {α} (P : α → α → Bool) (hsym : ∀ a b, P a b = P b a) {l l' : List α} (hp : l'.Perm l) :
    (pairs l').any (fun p => P p.1 p.2) = (pairs l).any (fun p => P p.1 p.2) := by
  induction hp with
  | nil => rfl
  | cons x _ ih =>
    rename_i l₁ l₂ hp
    simp only [pairs, List.any_append, List.any_map, Function.comp_def, ih]
    rw [any_perm (fun y => P x y) hp]
  | swap x y l =>
    simp only [pairs, List.any_append, List.any_map, Function.comp_def, List.map_cons, List.any_cons,
      List.cons_append]
    rw [hsym y x]
    cases P x y <;> cases l.any (fun z => P y z) <;> cases l.any (fun z => P x z) <;> simp
  | trans _ _ ih1 ih2 => rw [ih1, ih2]

theorem lca_symm (c : Chart) (hT : TreeOK c) (a b : Name) : c.lca a b = c.lca b a := by
  cases h1 : c.lca a b with
  | none =>
    cases h2 : c.lca b a with
    | none => rfl
    | some l' =>
      exfalso
      obtain ⟨hb, ha, _⟩ := lca_spec c hT b a l' h2
      simp only [Chart.lca] at h1
      have := List.find?_eq_none.mp h1 l' ((mem_ancestors c hT a l').mpr ha)
      simp [(mem_ancestors c hT b l').mpr hb] at this
  | some l =>
    obtain ⟨ha, hb, hmax⟩ := lca_spec c hT a b l h1
    cases h2 : c.lca b a with
    | none =>
      exfalso
      simp only [Chart.lca] at h2
      have := List.find?_eq_none.mp h2 l ((mem_ancestors c hT b l).mpr hb)
      simp [(mem_ancestors c hT a l).mpr ha] at this
    | some l' =>
      obtain ⟨hb', ha', hmax'⟩ := lca_spec c hT b a l' h2
      rcases hmax l' ha' hb' with e | e
      · rw [e]
      · rcases hmax' l hb ha with e' | e'
        · rw [e']
        · exact (Anc.asymm' c hT e e').elim

theorem nonDetPair_symm (c : Chart) (hT : TreeOK c) (a b : Trans) : nonDetPair c a b = nonDetPair c b a := by
  simp only [nonDetPair, lca_symm c hT a.source b.source]
  rw [show (a.source == b.source) = (b.source == a.source) from by
    rw [Bool.eq_iff_iff]; simp only [beq_iff_eq]; exact eq_comm]

theorem conflictPair_symm (c : Chart) (hT : TreeOK c) (a b : Trans) : conflictPair c a b = conflictPair c b a := by
  simp only [conflictPair, lca_symm c hT a.source b.source, Bool.or_comm]

namespace ChartPerm
variable {c c' : Chart} (h : ChartPerm c c')
include h

theorem nonDetPair (a b : Trans) : Sismic.nonDetPair c' a b = Sismic.nonDetPair c a b := by
  simp only [Sismic.nonDetPair, h.lca, h.kindOf]

theorem conflictPair (hw : WFChart c) (a b : Trans) : Sismic.conflictPair c' a b = Sismic.conflictPair c a b := by
  have hl : ∀ l t, Sismic.leavesRegion c' l t = Sismic.leavesRegion c l t := by
    intro l t
    simp only [Sismic.leavesRegion, h.lastBefore]
    cases t.target with
    | none => rfl
    | some tg =>
      simp only
      congr 1
      rw [Bool.eq_iff_iff]
      simp only [List.contains_iff_mem, List.mem_cons]
      rw [h.mem_descendants_iff hw]
  simp only [Sismic.conflictPair, h.lca, hl]

/-- `_sort_transitions`: same verdict, same order -/
theorem sortTransitions (hw : WFChart c) {sel sel' : List Trans} (hp : sel'.Perm sel) :
    Sismic.sortTransitions c' sel' = Sismic.sortTransitions c sel := by
  have hT := hw.tree
  have e1 : (pairs sel').any (fun p => Sismic.nonDetPair c' p.1 p.2) = (pairs sel).any (fun p => Sismic.nonDetPair c p.1 p.2) := by
    have : (fun (p : Trans × Trans) => Sismic.nonDetPair c' p.1 p.2) = (fun p => Sismic.nonDetPair c p.1 p.2) :=
      funext (fun p => h.nonDetPair p.1 p.2)
    rw [this]
    exact pairs_any_perm (Sismic.nonDetPair c) (nonDetPair_symm c hT) hp
  have e2 : (pairs sel').any (fun p => Sismic.conflictPair c' p.1 p.2) = (pairs sel).any (fun p => Sismic.conflictPair c p.1 p.2) := by
    have : (fun (p : Trans × Trans) => Sismic.conflictPair c' p.1 p.2) = (fun p => Sismic.conflictPair c p.1 p.2) :=
      funext (fun p => h.conflictPair hw p.1 p.2)
    rw [this]
    exact pairs_any_perm (Sismic.conflictPair c) (conflictPair_symm c hT) hp
  have hle : Sismic.leTrans c' = Sismic.leTrans c := by funext a b; simp [Sismic.leTrans, h.leRevDepthName]
  unfold Sismic.sortTransitions
  rw [hp.length_eq, e1, e2, hle]
  by_cases hlen : sel.length ≤ 1
  · simp only [hlen, if_true]
    match sel, sel', hp, hlen with
    | [], _, hp, _ => rw [hp.eq_nil]
    | [a], _, hp, _ => rw [List.perm_singleton.mp hp]
  · simp only [hlen, if_false]
    split
    · rfl
    · split
      · rfl
      · next hnd _ =>
        congr 1
        symm
        apply isort_canonical (Sismic.leTrans c) (fun a b => leRevDepthName_total c _ _)
          (fun a b d => leRevDepthName_trans c _ _ _) sel sel' _ hp.symm
        intro a b ha hb h1 h2
        have hs : a.source = b.source := leRevDepthName_anti c _ _ h1 h2
        rcases mem_pairs_of_mem sel a b ha hb with e | e | e
        · exact e
        · exact absurd (List.any_eq_true.mpr ⟨(a, b), e, by simp [Sismic.nonDetPair, hs]⟩) hnd
        · exact absurd (List.any_eq_true.mpr ⟨(b, a), e, by simp [Sismic.nonDetPair, hs]⟩) hnd

end ChartPerm
end Sismic
