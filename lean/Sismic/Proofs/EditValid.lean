import Sismic.Proofs.EditTree
import Sismic.Proofs.EditRefs
/-!
# Sismic.Proofs.EditValid — `validate()` still passes after `remove_state`, `move_state`, `rename_state`

On a statechart whose dictionaries are consistent (`Tidy`), `validate()` says: the `initial` of a
compound state is one of its children, the `memory` of a history state is another child of its
parent (`SoundRefs`, in terms of parent pointers: `validate_iff`).  The three operations that
restructure states keep that true — they reset or rewrite exactly the references they invalidate.
-/
namespace Sismic
namespace Chart

/-- what `validate()` checks, in terms of parent pointers -/
def SoundRefs (c : Chart) : Prop :=
  ∀ s ∈ c.states,
    (s.kind = .compound → ∀ i, s.initial = some i → c.parentFor i = some s.name) ∧
    (s.kind.isHistory = true → ∀ m, s.memory = some m →
      m ≠ s.name ∧ ∃ p, c.parentFor s.name = some p ∧ c.parentFor m = some p)

theorem validate_iff (c : Chart) (ht : Tidy c) : c.validate = true ↔ c.SoundRefs := by
  unfold validate SoundRefs
  simp only [Bool.and_eq_true, List.all_eq_true]
  constructor
  · rintro ⟨h1, h2⟩ s hs
    constructor
    · intro hk i hi
      have := h1 s hs
      simp only [hk, beq_self_eq_true, if_true, hi, Bool.and_eq_true, List.contains_iff_mem] at this
      exact (ht.childParent s.name i).1 this.2
    · intro hk m hm
      have := h2 s hs
      simp only [hk, if_true, hm, Bool.and_eq_true, bne_iff_ne, ne_eq] at this
      obtain ⟨⟨hne, _⟩, hp⟩ := this
      refine ⟨hne, ?_⟩
      cases hpf : c.parentFor s.name with
      | none => simp [hpf] at hp
      | some p =>
        simp only [hpf, List.contains_iff_mem] at hp
        exact ⟨p, rfl, (ht.childParent p m).1 hp⟩
  · intro h
    constructor
    · intro s hs
      split
      · next hk =>
        have hk' : s.kind = .compound := by simpa using hk
        cases hi : s.initial with
        | none => rfl
        | some i =>
          have hp := (h s hs).1 hk' i hi
          simp only [Bool.and_eq_true, List.contains_iff_mem]
          exact ⟨ht.parentKeysStates i (key_of_parentFor c i _ hp), (ht.childParent s.name i).2 hp⟩
      · rfl
    · intro s hs
      split
      · next hk =>
        cases hm : s.memory with
        | none => rfl
        | some m =>
          obtain ⟨hne, p, hp1, hp2⟩ := (h s hs).2 hk m hm
          simp only [Bool.and_eq_true, bne_iff_ne, ne_eq, hp1, List.contains_iff_mem]
          exact ⟨⟨hne, ht.parentKeysStates m (key_of_parentFor c m _ hp2)⟩, (ht.childParent p m).2 hp2⟩
      · rfl

/-! ### `remove_state` -/

theorem find?_eraseFirst_ne {ν : Type} (n x : Name) (hx : x ≠ n) : ∀ (l : List (Name × ν)),
    (eraseFirst (fun p => p.1 == n) l).find? (fun p => p.1 == x) = l.find? (fun p => p.1 == x)
  | [] => rfl
  | (k, v) :: r => by
    unfold eraseFirst
    by_cases hk : k = n
    · have h1 : (k == n) = true := by simp [hk]
      have h2 : (k == x) = false := by simp [hk, Ne.symm hx]
      simp [h1, h2]
    · have h1 : (k == n) = false := by simp [hk]
      simp only [h1, Bool.false_eq_true, if_false, List.find?_cons]
      rw [find?_eraseFirst_ne n x hx r]

theorem removeLeaf_parentFor (c : Chart) (n x : Name) (hx : x ≠ n) : (c.removeLeaf n).parentFor x = c.parentFor x := by
  unfold parentFor
  rw [(removeLeaf_fields c n).2.1]
  unfold assocErase
  rw [find?_eraseFirst_ne n x hx]

theorem unref_initial (n : Name) (s : StateDef) (hk : s.kind = .compound) (i : Name)
    (h : (unref n s).initial = some i) : s.initial = some i ∧ i ≠ n := by
  unfold unref at h
  have hk' : (s.kind == Kind.compound) = true := by simp [hk]
  have hh : s.kind.isHistory = false := by rw [hk]; rfl
  by_cases e : s.initial = some n
  · simp [hk', e] at h
  · simp only [hk', Bool.true_and, beq_iff_eq, e, if_false, hh, Bool.false_and, Bool.false_eq_true] at h
    exact ⟨h, fun x => e (by rw [h, x])⟩

theorem unref_memory (n : Name) (s : StateDef) (hk : s.kind.isHistory = true) (m : Name)
    (h : (unref n s).memory = some m) : s.memory = some m ∧ m ≠ n := by
  unfold unref at h
  have hk' : (s.kind == Kind.compound) = false := by
    cases hkk : s.kind <;> simp_all [Kind.isHistory]
  by_cases e : s.memory = some n
  · simp [hk', hk, e] at h
  · simp only [hk', Bool.false_and, Bool.false_eq_true, if_false, hk, Bool.true_and, beq_iff_eq, e] at h
    exact ⟨h, fun x => e (by rw [h, x])⟩

theorem removeLeaf_soundRefs (c : Chart) (n : Name) (hc : c.SoundRefs) : (c.removeLeaf n).SoundRefs := by
  intro s' hs'
  rw [(removeLeaf_states c n).1, List.mem_filter, List.mem_map] at hs'
  obtain ⟨⟨s, hs, rfl⟩, hname⟩ := hs'
  have hsn : s.name ≠ n := by simpa [unref_name] using hname
  obtain ⟨h1, h2⟩ := hc s hs
  rw [unref_kind, unref_name]
  constructor
  · intro hk i hi
    obtain ⟨e1, e2⟩ := unref_initial n s hk i hi
    rw [removeLeaf_parentFor c n i e2]
    exact h1 hk i e1
  · intro hk m hm
    obtain ⟨e1, e2⟩ := unref_memory n s hk m hm
    obtain ⟨hne, p, hp1, hp2⟩ := h2 hk m e1
    exact ⟨hne, p, by rw [removeLeaf_parentFor c n _ hsn]; exact hp1, by rw [removeLeaf_parentFor c n m e2]; exact hp2⟩

/-- whatever `remove_state` leaves — also when it raises half-way — passes these checks -/
theorem removeStateF_soundRefs : ∀ (f : Nat) (c : Chart) (n : Name), c.SoundRefs → (removeStateF f c n).2.SoundRefs
  | 0, c, n, hc => by simpa [removeStateF] using hc
  | f+1, c, n, hc => by
    unfold removeStateF
    split
    · exact hc
    have hgo : ∀ (l : List Name) (c0 : Chart), c0.SoundRefs → (removeStateF.go f c0 l).2.SoundRefs := by
      intro l
      induction l with
      | nil => intro c0 h0; unfold removeStateF.go; exact h0
      | cons ch rest ih =>
        intro c0 h0
        unfold removeStateF.go
        have h1 := removeStateF_soundRefs f c0 ch h0
        obtain ⟨res, c1, hx⟩ : ∃ res c1, removeStateF f c0 ch = (res, c1) := ⟨_, _, rfl⟩
        simp only [hx] at h1 ⊢
        cases res with
        | error e => exact h1
        | ok u => exact ih c1 h1
    have h1 := hgo (c.childrenFor n) c hc
    obtain ⟨res, c1, hx⟩ : ∃ res c1, removeStateF.go f c (c.childrenFor n) = (res, c1) := ⟨_, _, rfl⟩
    simp only [hx] at h1 ⊢
    cases res with
    | error e => exact h1
    | ok u => exact removeLeaf_soundRefs c1 n h1

theorem removeState_validate (c : Chart) (n : Name) (ht : Tidy c) (hv : c.validate = true) :
    (c.removeState n).2.validate = true :=
  (validate_iff _ (removeState_tidy c n ht)).2 (removeStateF_soundRefs _ c n ((validate_iff c ht).1 hv))

/-! ### `move_state` -/

theorem moveState_parentFor (c : Chart) (a b : Name) (ht : Tidy c) (h : (c.moveState a b).1 = .ok ()) (x : Name) :
    (c.moveState a b).2.parentFor x = if x = a then some b else c.parentFor x := by
  obtain ⟨ha, _, _, hp, _⟩ := moveState_fields c a b h
  unfold parentFor
  rw [hp, find?_assocSetP a (some b) x c.parent (ht.statesHaveEntry a ha)]
  by_cases e : x = a
  · simp [e]
  · simp only [e, if_false]

/-- in a list of states with distinct names, looking a state up by its name finds it -/
theorem find?_of_mem_nodup (s : StateDef) : ∀ (l : List StateDef), (l.map (·.name)).Nodup → s ∈ l →
    l.find? (fun x => x.name == s.name) = some s
  | [], _, hs => by cases hs
  | x :: xs, hn, hs => by
    rw [List.map_cons, List.nodup_cons] at hn
    rw [List.find?_cons]
    rcases List.mem_cons.1 hs with e | hm
    · subst e; simp
    · have : x.name ≠ s.name := fun e => hn.1 (e ▸ List.mem_map.2 ⟨s, hm, rfl⟩)
      have h1 : (x.name == s.name) = false := by simp [this]
      rw [h1]
      exact find?_of_mem_nodup s xs hn.2 hm

theorem stateFor_of_mem (c : Chart) (hn : (c.states.map (·.name)).Nodup) (s : StateDef) (hs : s ∈ c.states) :
    c.stateFor s.name = some s := find?_of_mem_nodup s c.states hn hs

theorem mvref_memory' (a : Name) (hist : Bool) (s : StateDef) (hk : s.kind.isHistory = true) (m : Name)
    (h : (mvref a hist s).memory = some m) : s.memory = some m ∧ m ≠ a ∧ ¬(s.name = a ∧ hist = true) := by
  unfold mvref at h
  have hk' : (s.kind == Kind.compound) = false := by
    cases hkk : s.kind <;> simp_all [Kind.isHistory]
  by_cases hn : (s.name == a && hist) = true
  · simp [hn, hk', hk] at h
  · have hn' : (s.name == a && hist) = false := by simpa using hn
    simp only [hn', Bool.false_eq_true, if_false, hk', Bool.false_and, hk, Bool.true_and, beq_iff_eq] at h
    by_cases e : s.memory = some a
    · simp [e] at h
    · simp only [e, if_false] at h
      refine ⟨h, fun x => e (by rw [h, x]), ?_⟩
      rintro ⟨e1, e2⟩
      simp [e1, e2] at hn'

theorem moveState_soundRefs (c : Chart) (a b : Name) (ht : Tidy c) (hc : c.SoundRefs) (h : (c.moveState a b).1 = .ok ()) :
    (c.moveState a b).2.SoundRefs := by
  obtain ⟨st, hst, hs⟩ := moveState_states c a b h
  intro s' hs'
  rw [hs, List.mem_map] at hs'
  obtain ⟨s, hsm, rfl⟩ := hs'
  obtain ⟨h1, h2⟩ := hc s hsm
  rw [mvref_kind, mvref_name]
  simp only [moveState_parentFor c a b ht h]
  constructor
  · intro hk i hi
    have hi0 := mvref_initial a st.kind.isHistory s i hi
    have hia : i ≠ a := by
      intro e
      subst e
      unfold mvref at hi
      have hk' : (s.kind == Kind.compound) = true := by simp [hk]
      by_cases hn : (s.name == i && st.kind.isHistory) = true
      · simp [hn, hk', hi0] at hi
      · simp [hn, hk', hi0] at hi
    simp only [hia, if_false]
    exact h1 hk i hi0
  · intro hk m hm
    obtain ⟨e1, e2, e3⟩ := mvref_memory' a st.kind.isHistory s hk m hm
    have hsa : s.name ≠ a := by
      intro e
      apply e3
      refine ⟨e, ?_⟩
      have := stateFor_of_mem c ht.names s hsm
      rw [e, hst] at this
      cases this
      exact hk
    obtain ⟨hne, p, hp1, hp2⟩ := h2 hk m e1
    simp only [hsa, e2, if_false]
    exact ⟨hne, p, hp1, hp2⟩

theorem moveState_validate (c : Chart) (a b : Name) (ht : Tidy c) (hv : c.validate = true)
    (h : (c.moveState a b).1 = .ok ()) : (c.moveState a b).2.validate = true :=
  (validate_iff _ (moveState_tidy c a b ht h)).2 (moveState_soundRefs c a b ht ((validate_iff c ht).1 hv) h)

/-! ### `rename_state` -/

theorem renameState_soundRefs (c : Chart) (a b : Name) (ht : Tidy c) (hc : c.SoundRefs)
    (h : (c.renameState a b).1 = .ok ()) (hne : a ≠ b) : (c.renameState a b).2.SoundRefs := by
  obtain ⟨hb, ha, hs⟩ := renameState_states c a b h hne
  have hpf := rename_parentFor c a b ht h hne
  -- whoever has a parent is a state, hence is not `b`
  have notb : ∀ x q, c.parentFor x = some q → x ≠ b := by
    intro x q hx e
    have := ht.parentKeysStates x (key_of_parentFor c x q hx)
    rw [e, hb] at this
    cases this
  have memb : ∀ s ∈ c.states, s.name ≠ b := by
    intro s hsm e
    have := (hasState_iff_mem c s.name).2 (List.mem_map.2 ⟨s, hsm, rfl⟩)
    rw [e, hb] at this
    cases this
  -- the parent pointers of the states that keep their name
  have pkeep : ∀ x q, c.parentFor x = some q → x ≠ a →
      (c.renameState a b).2.parentFor x = some (if q = a then b else q) := by
    intro x q hx hxa
    rw [hpf x]
    simp only [hxa, if_false, notb x q hx, hx, Option.some.injEq]
    by_cases e : q = a <;> simp [e]
  have pb : (c.renameState a b).2.parentFor b = c.parentFor a := by
    rw [hpf b]
    simp [Ne.symm hne]
  -- one state of the old statechart, under its new name `nm`
  have key : ∀ s ∈ c.states, ∀ s' : StateDef, s'.kind = s.kind → s'.initial = (reref a b s).initial →
      s'.memory = (reref a b s).memory → s'.name = (if s.name = a then b else s.name) →
      (s'.kind = .compound → ∀ i, s'.initial = some i → (c.renameState a b).2.parentFor i = some s'.name) ∧
      (s'.kind.isHistory = true → ∀ m, s'.memory = some m →
        m ≠ s'.name ∧ ∃ p, (c.renameState a b).2.parentFor s'.name = some p ∧ (c.renameState a b).2.parentFor m = some p) := by
    intro s hsm s' hk hi hm hnm
    obtain ⟨h1, h2⟩ := hc s hsm
    rw [hk, hi, hm, hnm]
    constructor
    · intro hkc i hii
      rcases reref_initial a b s hkc i hii with ⟨e0, e⟩ | ⟨e1, e2⟩
      · -- the initial state is the renamed one
        have hpa := h1 hkc a e0
        have hsa : s.name ≠ a := fun x => ht.noSelf a (by rw [hpa, x])
        rw [e, pb, hpa]
        simp [hsa]
      · have hp := h1 hkc i e1
        rw [pkeep i s.name hp e2]
    · intro hkh m hmm
      rcases reref_memory a b s hkh m hmm with ⟨e0, e⟩ | ⟨e1, e2⟩
      · -- the memory is the renamed state: a sibling of `s`, so `s` keeps its name
        obtain ⟨hna, p, hp1, hp2⟩ := h2 hkh a e0
        have hsa : s.name ≠ a := Ne.symm hna
        have hpa : p ≠ a := fun x => ht.noSelf a (by rw [hp2, x])
        simp only [hsa, if_false]
        refine ⟨by rw [e]; exact Ne.symm (memb s hsm), p, ?_, ?_⟩
        · rw [pkeep s.name p hp1 hsa]; simp [hpa]
        · rw [e, pb]; exact hp2
      · obtain ⟨hna, p, hp1, hp2⟩ := h2 hkh m e1
        have hmb : m ≠ b := notb m p hp2
        by_cases hsa : s.name = a
        · -- `s` is the renamed state: its parent is not itself
          have hpa : p ≠ a := fun x => ht.noSelf a (by rw [← hsa, hp1, x, hsa])
          simp only [hsa, if_true]
          refine ⟨hmb, p, ?_, ?_⟩
          · rw [pb, ← hsa]; exact hp1
          · rw [pkeep m p hp2 e2]; simp [hpa]
        · simp only [hsa, if_false]
          exact ⟨hna, _, pkeep s.name p hp1 hsa, pkeep m p hp2 e2⟩
  intro s' hs'
  rw [hs, List.mem_append] at hs'
  rcases hs' with hs' | hs'
  · rw [List.mem_filter, List.mem_map] at hs'
    obtain ⟨⟨s, hsm, rfl⟩, hname⟩ := hs'
    have hsa : s.name ≠ a := by simpa [reref_name] using hname
    exact key s hsm _ (reref_kind a b s) rfl rfl (by rw [reref_name]; simp [hsa])
  · cases hf : (c.states.map (reref a b)).find? (fun s => s.name == a) with
    | none => simp [hf] at hs'
    | some x =>
      simp only [hf, Option.map_some, Option.toList_some, List.mem_singleton] at hs'
      have hx := List.mem_of_find?_eq_some hf
      have hxa : x.name = a := by simpa using List.find?_some hf
      rw [List.mem_map] at hx
      obtain ⟨s, hsm, rfl⟩ := hx
      subst hs'
      rw [reref_name] at hxa
      exact key s hsm _ (reref_kind a b s) rfl rfl (by simp [hxa])

theorem renameState_validate (c : Chart) (a b : Name) (ht : Tidy c) (hv : c.validate = true)
    (h : (c.renameState a b).1 = .ok ()) : (c.renameState a b).2.validate = true := by
  by_cases hne : a = b
  · subst hne; rw [rename_same_is_noop]; exact hv
  · exact (validate_iff _ (renameState_tidy c a b ht h)).2
      (renameState_soundRefs c a b ht ((validate_iff c ht).1 hv) h hne)

/-- the transition operations do not touch what `validate()` looks at -/
theorem validate_of_same_dicts {c c' : Chart} (hs : c'.states = c.states) (hp : c'.parent = c.parent)
    (hch : c'.children = c.children) (hv : c.validate = true) : c'.validate = true := by
  unfold validate at hv ⊢
  simp only [hasState, stateFor, childrenFor, parentFor, hs, hp, hch] at hv ⊢
  exact hv

/-! ### `add_state` and sessions -/

/-- a state handed to `add_state` without `initial` / `memory` (they are set once the children exist) -/
def _root_.Sismic.StateDef.Bare (s : StateDef) : Prop :=
  (s.kind = .compound → s.initial = none) ∧ (s.kind.isHistory = true → s.memory = none)

theorem addedChart_soundRefs (c : Chart) (s : StateDef) (p : Option Name) (ht : Tidy c) (hfresh : c.hasState s.name = false)
    (hc : c.SoundRefs) (hb : s.Bare) : (addedChart c s p).SoundRefs := by
  have fresh : ∀ x q, c.parentFor x = some q → x ≠ s.name := by
    intro x q hx e
    have := ht.parentKeysStates x (key_of_parentFor c x q hx)
    rw [e, hfresh] at this
    cases this
  intro s' hs'
  have hst : (addedChart c s p).states = c.states ++ [s] := rfl
  rw [hst, List.mem_append, List.mem_singleton] at hs'
  simp only [added_parentFor c s p ht hfresh]
  rcases hs' with hs' | rfl
  · obtain ⟨h1, h2⟩ := hc s' hs'
    constructor
    · intro hk i hi
      have := h1 hk i hi
      simp only [fresh i _ this, if_false]
      exact this
    · intro hk m hm
      obtain ⟨hne, q, hq1, hq2⟩ := h2 hk m hm
      simp only [fresh _ _ hq1, fresh _ _ hq2, if_false]
      exact ⟨hne, q, hq1, hq2⟩
  · constructor
    · intro hk i hi
      rw [hb.1 hk] at hi
      cases hi
    · intro hk m hm
      rw [hb.2 hk] at hm
      cases hm

theorem addState_validate (c : Chart) (s : StateDef) (p : Option Name) (ht : Tidy c) (hv : c.validate = true)
    (hb : s.Bare) (h : (c.addState s p).1 = .ok ()) : (c.addState s p).2.validate = true := by
  refine (validate_iff _ (addState_tidy c s p ht h)).2 ?_
  have hc := (validate_iff c ht).1 hv
  cases p with
  | none =>
    obtain ⟨hf, _, _, he⟩ := addState_root_fields c s h
    rw [he]
    exact addedChart_soundRefs c s none ht hf hc hb
  | some par =>
    obtain ⟨hf, _, he⟩ := addState_child_fields c s par h
    rw [he]
    exact addedChart_soundRefs c s (some par) ht hf hc hb

/-- the states `add_state` is given in this session are bare -/
def EditOp.Bare : EditOp → Prop
  | .addState s _ => s.Bare
  | _ => True

theorem applyEdit_validate (c : Chart) (op : EditOp) (ht : Tidy c) (hv : c.validate = true) (hop : op.Bare) :
    (c.applyEdit op).2.validate = true := by
  have atomic : ∀ (r : EditRes), (∀ e, r.1 = .error e → r.2 = c) → (r.1 = .ok () → r.2.validate = true) →
      r.2.validate = true := by
    intro r h1 h2
    cases hr : r.1 with
    | error e => rw [h1 e hr]; exact hv
    | ok u => exact h2 hr
  cases op with
  | addState s p => exact atomic _ (addState_atomic c s p) (addState_validate c s p ht hv hop)
  | addTransition t =>
    exact atomic _ (addTransition_atomic c t) (fun h => by
      show (c.addTransition t).2.validate = true
      refine validate_of_same_dicts ?_ ?_ ?_ hv <;>
      · unfold addTransition; repeat' split
        all_goals rfl)
  | removeTransition t =>
    exact atomic _ (removeTransition_atomic c t) (fun h => by
      show (c.removeTransition t).2.validate = true
      refine validate_of_same_dicts ?_ ?_ ?_ hv <;>
      · unfold removeTransition; split <;> rfl)
  | removeState n => exact removeState_validate c n ht hv
  | renameState a b => exact atomic _ (renameState_atomic c a b) (renameState_validate c a b ht hv)
  | moveState a b => exact atomic _ (moveState_atomic c a b) (moveState_validate c a b ht hv)
  | rotateTransition i s t =>
    exact atomic _ (rotateTransition_atomic c i s t) (fun h => by
      show (c.rotateTransition i s t).2.validate = true
      refine validate_of_same_dicts ?_ ?_ ?_ hv <;>
      · unfold rotateTransition; repeat' split
        all_goals rfl)

theorem applyEdits_validate : ∀ (ops : List EditOp) (c : Chart), Tidy c → c.validate = true → (∀ op ∈ ops, op.Bare) →
    (c.applyEdits ops).validate = true
  | [], _, _, hv, _ => hv
  | op :: ops, c, ht, hv, h =>
    applyEdits_validate ops _ (applyEdit_tidy c op ht) (applyEdit_validate c op ht hv (h op (by simp)))
      (fun o ho => h o (by simp [ho]))

end Chart
end Sismic

namespace Sismic
namespace Chart

/-- **Well-formed statecharts are valid**: what `validate()` checks (`SoundRefs`) is part of W4 and W6, so
    every well-formed statechart with duplicate-free dictionaries (`tidyExtraB`, decidable) meets the hypotheses of the editing
    theorems of C16 (consistent dictionaries, `validate()` passes). -/
theorem validate_of_wf (c : Chart) (h : WFChart c) (hp : tidyExtraB c = true) :
    Tidy c ∧ c.validate = true := by
  have ht := tidy_of_wf c h hp
  refine ⟨ht, (validate_iff c ht).2 ?_⟩
  intro s hs
  have hst := stateFor_of_mem c h.names s hs
  constructor
  · intro hk i hi
    obtain ⟨i', hi', hpi⟩ := h.initial s.name s hst hk
    rw [hi] at hi'
    cases hi'
    exact hpi
  · intro hk m hm
    obtain ⟨p, m', hp1, _, hm', hp2, hne⟩ := h.history s.name s hst hk
    rw [hm] at hm'
    cases hm'
    exact ⟨hne, p, hp1, hp2⟩

end Chart
end Sismic
