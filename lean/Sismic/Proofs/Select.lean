import Sismic.Proofs.GroupBy
import Sismic.Proofs.Tree
/-!
# Sismic.Proofs.Select — the selection inside one eventness group equals its declarative spec
-/
namespace Sismic

/-- what the selection needs from the tree -/
structure AncLaws (c : Chart) : Prop where
  anc_depth : ∀ s a, a ∈ c.ancestors s → c.depth a < c.depth s
  anc_trans : ∀ s a b, a ∈ c.ancestors s → b ∈ c.ancestors a → b ∈ c.ancestors s

variable (c : Chart) (X : AncLaws c) (ok : Trans → Bool)

def GroupSpec (G : List Trans) (t : Trans) : Prop :=
  t ∈ G ∧ ok t = true ∧
  (∀ u ∈ G, ok u = true → t.source ∉ c.ancestors u.source) ∧
  (∀ u ∈ G, u.source = t.source → ok u = true → u.priority ≤ t.priority)

/-! ### priority classes -/
theorem lePrio_total : TotalLE lePrio where
  total a b := by simp [lePrio]; omega
  antisymm a b h1 h2 := by simp [lePrio] at h1 h2; omega
  trans a b c h1 h2 := by simp [lePrio] at *; omega

/-- `goClasses` over a strictly decreasing list of priorities. -/
theorem goClasses_spec (ts : List Trans) :
    ∀ (ps : List Int), StrictSorted lePrio ps →
      match goClasses ok ts ps with
      | some sel => ∀ t, t ∈ sel ↔ (t ∈ ts ∧ ok t = true ∧ t.priority ∈ ps ∧
                      ∀ u ∈ ts, ok u = true → u.priority ∈ ps → u.priority ≤ t.priority)
      | none => ∀ t ∈ ts, ok t = true → t.priority ∉ ps := by
  intro ps
  induction ps with
  | nil => intro _; simp [goClasses]
  | cons p ps ih =>
    intro hs
    unfold goClasses
    simp only
    have hs' : StrictSorted lePrio ps := (List.pairwise_cons.mp hs).2
    have hp : ∀ q ∈ ps, q < p := by
      intro q hq
      have := (List.pairwise_cons.mp hs).1 q hq
      simp [lePrio] at this; omega
    by_cases hany : (ts.filter (fun t => t.priority = p)).any ok = true
    · rw [if_pos hany]
      intro t
      simp only [List.mem_filter, List.any_eq_true, decide_eq_true_eq] at hany ⊢
      constructor
      · rintro ⟨⟨ht, hpr⟩, hok⟩
        refine ⟨ht, hok, by simp [hpr], ?_⟩
        intro u _ _ hup
        rcases List.mem_cons.mp hup with h | h
        · omega
        · have := hp _ h; omega
      · rintro ⟨ht, hok, hpr, hmax⟩
        refine ⟨⟨ht, ?_⟩, hok⟩
        obtain ⟨w, ⟨hw, hwp⟩, hwok⟩ := hany
        rcases List.mem_cons.mp hpr with h | h
        · exact h
        · have h1 := hmax w hw hwok (by simp [hwp])
          have h2 := hp _ h
          omega
    · rw [if_neg hany]
      have hnone : ∀ t ∈ ts, ok t = true → t.priority ≠ p := by
        intro t ht hok hpr
        apply hany
        simp only [List.any_eq_true, List.mem_filter, decide_eq_true_eq]
        exact ⟨t, ⟨ht, hpr⟩, hok⟩
      have ih' := ih hs'
      split at ih'
      · intro t
        rw [ih' t]
        constructor
        · rintro ⟨ht, hok, hpr, hmax⟩
          refine ⟨ht, hok, List.mem_cons_of_mem _ hpr, ?_⟩
          intro u hu huok hup
          rcases List.mem_cons.mp hup with h | h
          · exact absurd h (hnone u hu huok)
          · exact hmax u hu huok h
        · rintro ⟨ht, hok, hpr, hmax⟩
          rcases List.mem_cons.mp hpr with h | h
          · exact absurd h (hnone t ht hok)
          · exact ⟨ht, hok, h, fun u hu huok hup => hmax u hu huok (List.mem_cons_of_mem _ hup)⟩
      · intro t ht hok hmem
        rcases List.mem_cons.mp hmem with h | h
        · exact hnone t ht hok h
        · exact ih' t ht hok h

theorem goClasses_some_nonempty (ts : List Trans) (sel : List Trans) :
    ∀ ps, goClasses ok ts ps = some sel → ∃ t, t ∈ sel := by
  intro ps
  induction ps with
  | nil => simp [goClasses]
  | cons p ps ih =>
    unfold goClasses
    simp only
    by_cases hany : (ts.filter (fun t => t.priority = p)).any ok = true
    · rw [if_pos hany]
      intro heq
      cases heq
      rw [List.any_eq_true] at hany
      obtain ⟨x, hx, hxok⟩ := hany
      exact ⟨x, List.mem_filter.mpr ⟨hx, hxok⟩⟩
    · rw [if_neg hany]
      exact ih

/-! ### order on sources -/
theorem leSrc_total : TotalLE (leSrc c) where
  total a b := by
    simp only [leSrc, decide_eq_true_eq]
    rcases Nat.lt_trichotomy (c.depth a) (c.depth b) with h | h | h
    · right; left; exact h
    · rcases String.le_total a b with h' | h'
      · left; right; exact ⟨h, h'⟩
      · right; right; exact ⟨h.symm, h'⟩
    · left; left; exact h
  antisymm a b h1 h2 := by
    simp only [leSrc, decide_eq_true_eq] at h1 h2
    rcases h1 with h1 | ⟨_, h1⟩ <;> rcases h2 with h2 | ⟨_, h2⟩ <;> try omega
    exact String.le_antisymm h1 h2
  trans a b c h1 h2 := by
    simp only [leSrc, decide_eq_true_eq] at *
    rcases h1 with h1 | ⟨e1, h1⟩ <;> rcases h2 with h2 | ⟨e2, h2⟩
    · left; omega
    · left; omega
    · left; omega
    · right; exact ⟨by omega, String.le_trans h1 h2⟩

/-! ### one source -/
variable (G : List Trans)

def HasOk (s : Name) : Prop := ∃ t ∈ G, t.source = s ∧ ok t = true

def Top (t : Trans) : Prop :=
  t ∈ G ∧ ok t = true ∧ ∀ u ∈ G, u.source = t.source → ok u = true → u.priority ≤ t.priority

theorem stepSrc_ignored (st : SelSt) (src : Name) (h : src ∈ st.ignored) :
    stepSrc c ok G st src = st := by
  simp [stepSrc, h]

theorem stepSrc_spec (st : SelSt) (src : Name) (h : src ∉ st.ignored) :
    (HasOk ok G src →
      (∀ t, t ∈ (stepSrc c ok G st src).selected ↔ (t ∈ st.selected ∨ (Top ok G t ∧ t.source = src))) ∧
      (∀ a, a ∈ (stepSrc c ok G st src).ignored ↔ (a ∈ st.ignored ∨ a = src ∨ a ∈ c.ancestors src))) ∧
    (¬ HasOk ok G src → (stepSrc c ok G st src).selected = st.selected ∧
      (stepSrc c ok G st src).ignored = st.ignored) := by
  have key := goClasses_spec ok (G.filter (fun t => t.source = src))
    (keysSorted lePrio (·.priority) (G.filter (fun t => t.source = src)))
    (keysSorted_sorted lePrio lePrio_total _ _)
  have hmemp : ∀ t ∈ G.filter (fun t => t.source = src),
      t.priority ∈ keysSorted lePrio (·.priority) (G.filter (fun t => t.source = src)) := by
    intro t ht
    rw [mem_keysSorted]
    exact ⟨t, ht, rfl⟩
  constructor
  · rintro ⟨w, hwG, hws, hwok⟩
    have hw : w ∈ G.filter (fun t => t.source = src) := by
      simp [List.mem_filter, hwG, hws]
    unfold stepSrc
    simp only [h, if_false]
    split at key
    · next sel heq =>
      simp only [heq]
      constructor
      · intro t
        simp only [List.mem_append, key t, List.mem_filter, decide_eq_true_eq]
        constructor
        · rintro (h1 | ⟨⟨htG, hts⟩, htok, _, hmax⟩)
          · left; exact h1
          · right
            refine ⟨⟨htG, htok, ?_⟩, hts⟩
            intro u hu hus huok
            exact hmax u ⟨hu, by rw [hus, hts]⟩ huok (hmemp u (by simp [List.mem_filter, hu, hus, hts]))
        · rintro (h1 | ⟨⟨htG, htok, hmax⟩, hts⟩)
          · left; exact h1
          · right
            refine ⟨⟨htG, hts⟩, htok, hmemp t (by simp [List.mem_filter, htG, hts]), ?_⟩
            intro u hu huok _
            exact hmax u hu.1 (by rw [hu.2, hts]) huok
      · intro a
        simp only [List.mem_append, List.mem_singleton]
        constructor
        · rintro ((h1 | h1) | h1)
          · left; exact h1
          · right; right; exact h1
          · right; left; exact h1
        · rintro (h1 | h1 | h1)
          · left; left; exact h1
          · right; exact h1
          · left; right; exact h1
    · next heq =>
      exact absurd (hmemp w hw) (key w hw hwok)
  · intro hno
    unfold stepSrc
    simp only [h, if_false]
    split at key
    · next sel heq =>
      exfalso
      -- sel would be nonempty iff someone is ok; derive contradiction from goClasses returning some
      have : ∃ t, t ∈ sel := goClasses_some_nonempty ok _ sel _ heq
      obtain ⟨t, ht⟩ := this
      have := (key t).mp ht
      simp only [List.mem_filter, decide_eq_true_eq] at this
      exact hno ⟨t, this.1.1, this.1.2, this.2.1⟩
    · next heq => simp [heq]

/-! ### the fold over the sources -/

theorem exists_argmax {α : Type} (f : α → Nat) : ∀ (l : List α), l ≠ [] → ∃ x ∈ l, ∀ y ∈ l, f y ≤ f x := by
  intro l
  induction l with
  | nil => intro h; exact absurd rfl h
  | cons a l ih =>
    intro _
    by_cases hl : l = []
    · subst hl; exact ⟨a, by simp, by simp⟩
    · obtain ⟨x, hx, hmax⟩ := ih hl
      by_cases hax : f x ≤ f a
      · refine ⟨a, by simp, ?_⟩
        intro y hy
        rcases List.mem_cons.mp hy with rfl | hy
        · exact Nat.le_refl _
        · exact Nat.le_trans (hmax y hy) hax
      · refine ⟨x, List.mem_cons_of_mem _ hx, ?_⟩
        intro y hy
        rcases List.mem_cons.mp hy with rfl | hy
        · omega
        · exact hmax y hy

def Fired (s : Name) : Prop := HasOk ok G s ∧ ¬ ∃ s', s ∈ c.ancestors s' ∧ HasOk ok G s'

include X in
/-- below (or at) any source with an enabled transition there is one that fires -/
theorem exists_fired_desc (s' : Name) (h : HasOk ok G s') :
    ∃ s'', (s'' = s' ∨ s' ∈ c.ancestors s'') ∧ Fired c ok G s'' := by
  obtain ⟨w, hwG, hws, hwok⟩ := h
  let cand := G.filter (fun t => ok t && (decide (t.source = s') || decide (s' ∈ c.ancestors t.source)))
  have hw : w ∈ cand := by
    simp [cand, List.mem_filter, hwG, hwok, hws]
  obtain ⟨m, hm, hmax⟩ := exists_argmax (fun t => c.depth t.source) cand (List.ne_nil_of_mem hw)
  have hm' : m ∈ G ∧ ok m = true ∧ (m.source = s' ∨ s' ∈ c.ancestors m.source) := by
    simpa [cand, List.mem_filter, and_assoc] using hm
  refine ⟨m.source, hm'.2.2, ⟨m, hm'.1, rfl, hm'.2.1⟩, ?_⟩
  rintro ⟨d, hd, u, huG, hus, huok⟩
  have hs'd : s' ∈ c.ancestors d := by
    rcases hm'.2.2 with h | h
    · rw [← h]; exact hd
    · exact X.anc_trans d m.source s' hd h
  have hu : u ∈ cand := by
    simp [cand, List.mem_filter, huG, huok, hus, hs'd]
  have h1 := hmax u hu
  have h2 := X.anc_depth d m.source hd
  simp only [hus] at h1
  omega

structure Inv (pre : List Name) (st : SelSt) : Prop where
  sel : ∀ t, t ∈ st.selected ↔ (Top ok G t ∧ t.source ∈ pre ∧ Fired c ok G t.source)
  ign : ∀ a, a ∈ st.ignored ↔ ∃ s ∈ pre, Fired c ok G s ∧ (a = s ∨ a ∈ c.ancestors s)

include X in
theorem inv_step (pre : List Name) (s : Name) (st : SelSt)
    (hInv : Inv c ok G pre st) (hs : s ∉ pre)
    (hdeep : ∀ d, (∃ t ∈ G, t.source = d) → c.depth s < c.depth d → d ∈ pre) :
    Inv c ok G (pre ++ [s]) (stepSrc c ok G st s) := by
  -- s is ignored iff some descendant has an enabled transition
  have hign : s ∈ st.ignored ↔ ∃ s', s ∈ c.ancestors s' ∧ HasOk ok G s' := by
    rw [hInv.ign]
    constructor
    · rintro ⟨s', hs', hf, h | h⟩
      · exact absurd (h ▸ hs') hs
      · exact ⟨s', h, hf.1⟩
    · rintro ⟨s', hanc, hok'⟩
      obtain ⟨s'', hrel, hf⟩ := exists_fired_desc c X ok G s' hok'
      have hanc'' : s ∈ c.ancestors s'' := by
        rcases hrel with h | h
        · rw [h]; exact hanc
        · exact X.anc_trans s'' s' s h hanc
      have hsrc : ∃ t ∈ G, t.source = s'' := by
        obtain ⟨t, ht, hts, _⟩ := hf.1
        exact ⟨t, ht, hts⟩
      exact ⟨s'', hdeep s'' hsrc (X.anc_depth s'' s hanc''), hf, Or.inr hanc''⟩
  by_cases hi : s ∈ st.ignored
  · -- ignored: nothing changes and `s` does not fire
    rw [stepSrc_ignored c ok G st s hi]
    have hnf : ¬ Fired c ok G s := fun hf => hf.2 (hign.mp hi)
    constructor
    · intro t
      rw [hInv.sel t]
      simp only [List.mem_append, List.mem_singleton]
      constructor
      · rintro ⟨h1, h2, h3⟩; exact ⟨h1, Or.inl h2, h3⟩
      · rintro ⟨h1, h2 | h2, h3⟩
        · exact ⟨h1, h2, h3⟩
        · exact absurd (h2 ▸ h3) hnf
    · intro a
      rw [hInv.ign a]
      constructor
      · rintro ⟨x, hx, h⟩; exact ⟨x, by simp [hx], h⟩
      · rintro ⟨x, hx, hf, h⟩
        rcases List.mem_append.mp hx with hx | hx
        · exact ⟨x, hx, hf, h⟩
        · simp at hx; subst hx; exact absurd hf hnf
  · have hnd : ¬ ∃ s', s ∈ c.ancestors s' ∧ HasOk ok G s' := fun h => hi (hign.mpr h)
    have hspec := stepSrc_spec c ok G st s hi
    by_cases hok : HasOk ok G s
    · have hf : Fired c ok G s := ⟨hok, hnd⟩
      obtain ⟨h1, h2⟩ := hspec.1 hok
      constructor
      · intro t
        rw [h1 t, hInv.sel t]
        simp only [List.mem_append, List.mem_singleton]
        constructor
        · rintro (⟨a, b, c⟩ | ⟨a, b⟩)
          · exact ⟨a, Or.inl b, c⟩
          · exact ⟨a, Or.inr b, b ▸ hf⟩
        · rintro ⟨a, b | b, c⟩
          · exact Or.inl ⟨a, b, c⟩
          · exact Or.inr ⟨a, b⟩
      · intro a
        rw [h2 a, hInv.ign a]
        constructor
        · rintro (⟨x, hx, h⟩ | h | h)
          · exact ⟨x, by simp [hx], h⟩
          · exact ⟨s, by simp, hf, Or.inl h⟩
          · exact ⟨s, by simp, hf, Or.inr h⟩
        · rintro ⟨x, hx, hfx, h⟩
          rcases List.mem_append.mp hx with hx | hx
          · exact Or.inl ⟨x, hx, hfx, h⟩
          · simp at hx; subst hx
            rcases h with h | h
            · exact Or.inr (Or.inl h)
            · exact Or.inr (Or.inr h)
    · have hnf : ¬ Fired c ok G s := fun hf => hok hf.1
      obtain ⟨e1, e2⟩ := hspec.2 hok
      constructor
      · intro t
        rw [e1, hInv.sel t]
        simp only [List.mem_append, List.mem_singleton]
        constructor
        · rintro ⟨h1, h2, h3⟩; exact ⟨h1, Or.inl h2, h3⟩
        · rintro ⟨h1, h2 | h2, h3⟩
          · exact ⟨h1, h2, h3⟩
          · exact absurd (h2 ▸ h3) hnf
      · intro a
        rw [e2, hInv.ign a]
        constructor
        · rintro ⟨x, hx, h⟩; exact ⟨x, by simp [hx], h⟩
        · rintro ⟨x, hx, hf, h⟩
          rcases List.mem_append.mp hx with hx | hx
          · exact ⟨x, hx, hf, h⟩
          · simp at hx; subst hx; exact absurd hf hnf

include X in
theorem fold_inv (order : List Name)
    (hsorted : StrictSorted (leSrc c) order)
    (hmem : ∀ d, (∃ t ∈ G, t.source = d) → d ∈ order) :
    ∀ (post pre : List Name) (st : SelSt), order = pre ++ post → Inv c ok G pre st →
      Inv c ok G order (post.foldl (stepSrc c ok G) st) := by
  intro post
  induction post with
  | nil => intro pre st h hI; simp at h; subst h; simpa using hI
  | cons s post ih =>
    intro pre st h hI
    have hsplit : order = (pre ++ [s]) ++ post := by simp [h]
    rw [List.foldl_cons]
    apply ih (pre ++ [s]) _ hsplit
    have hs := hsorted
    rw [h, StrictSorted, List.pairwise_append] at hs
    obtain ⟨_, hpost, hcross⟩ := hs
    apply inv_step c X ok G pre s st hI
    · intro hmem'
      exact (hcross s hmem' s (by simp)).2 rfl
    · intro d hd hdepth
      have := hmem d hd
      rw [h] at this
      rcases List.mem_append.mp this with h1 | h1
      · exact h1
      · exfalso
        rcases List.mem_cons.mp h1 with h2 | h2
        · subst h2; omega
        · have := ((List.pairwise_cons.mp hpost).1 d h2).1
          simp only [leSrc, decide_eq_true_eq] at this
          omega

include X in
/-- **Characterisation of the selection inside one eventness group.** -/
theorem selectGroup_iff (t : Trans) : t ∈ (selectGroup c ok G).selected ↔ GroupSpec c ok G t := by
  unfold selectGroup
  have hI := fold_inv c X ok G (keysSorted (leSrc c) (·.source) G)
    (keysSorted_sorted _ (leSrc_total c) _ _)
    (by intro d ⟨u, hu, hud⟩; rw [mem_keysSorted]; exact ⟨u, hu, hud⟩)
    (keysSorted (leSrc c) (·.source) G) [] {} (by simp)
    ⟨by intro t; simp, by intro a; simp⟩
  rw [hI.sel t]
  unfold GroupSpec Top Fired HasOk
  constructor
  · rintro ⟨⟨htG, htok, hmax⟩, _, ⟨_, hnd⟩⟩
    refine ⟨htG, htok, ?_, hmax⟩
    intro u hu huok hanc
    exact hnd ⟨u.source, hanc, u, hu, rfl, huok⟩
  · rintro ⟨htG, htok, hnd, hmax⟩
    refine ⟨⟨htG, htok, hmax⟩, ?_, ⟨⟨t, htG, rfl, htok⟩, ?_⟩⟩
    · rw [mem_keysSorted]; exact ⟨t, htG, rfl⟩
    · rintro ⟨d, hanc, u, hu, hud, huok⟩
      exact hnd u hu huok (hud ▸ hanc)


end Sismic
