import Sismic.Proofs.LogFilters
/-!
# Sismic.Proofs.C03 — consequences of `executeOnce_ok` for the order of execution
-/
namespace Sismic
open M

variable {σ ω : Type} (env : Env σ ω)

theorem stabChain_end (c : Chart) : ∀ (l : List Micro) (cm : List Name × List (Name × List Name)),
    StabChain c cm l → stabilizationStep c (applyMicros c cm l).2 (applyMicros c cm l).1 = none
  | [], cm, h => h
  | m :: ms, cm, h => by
    obtain ⟨s, _, hshape, hrest⟩ := h
    have := stabChain_end c ms _ hrest
    simp only [applyMicros, List.foldl_cons]
    rw [applyMicro_shape c cm m s hshape]
    exact this

theorem applyMicros_append (c : Chart) (cm : List Name × List (Name × List Name)) (a b : List Micro) :
    applyMicros c cm (a ++ b) = applyMicros c (applyMicros c cm a) b := by
  simp [applyMicros, List.foldl_append]

/-- after a macro step that processed at least one planned step, nothing is left to stabilise -/
theorem runChain_stable (c : Chart) : ∀ (ps ex : List Micro) (cm : List Name × List (Name × List Name)),
    ps ≠ [] → RunChain c cm ps ex →
    stabilizationStep c (applyMicros c cm ex).2 (applyMicros c cm ex).1 = none
  | [], _, _, h, _ => absurd rfl h
  | p :: ps, ex, cm, _, h => by
    obtain ⟨a, stab, rest, rfl, hshape, hstab, hrest⟩ := h
    have e1 : applyMicros c cm (a :: stab ++ rest) =
        applyMicros c (applyMicros c (applyMicro c cm p) stab) rest := by
      simp only [applyMicros, List.foldl_cons, List.foldl_append, List.cons_append]
      rw [applyMicro_shape c cm a p hshape]
    rw [e1]
    cases ps with
    | nil =>
      have : rest = [] := hrest
      subst this
      simp only [applyMicros, List.foldl_nil]
      exact stabChain_end c stab _ hstab
    | cons q qs =>
      exact runChain_stable c (q :: qs) rest _ (by simp) hrest

end Sismic
