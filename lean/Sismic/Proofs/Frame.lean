import Sismic.Proofs.Hoare
/-!
# Sismic.Proofs.Frame — what no part of a macro step ever changes: the step time, the listeners;
the effect log only grows.  Holds for every outcome (normal return or exception).
-/
namespace Sismic
open M

variable {σ ω : Type}

/-- time and listeners unchanged, effect log extended -/
def RT (rs rs' : RS σ ω) : Prop :=
  rs'.st.time = rs.st.time ∧ rs'.st.listeners = rs.st.listeners ∧ ∃ l, rs'.eff = rs.eff ++ l

theorem RT_pre : PreOrd (RT : RS σ ω → RS σ ω → Prop) where
  refl a := ⟨rfl, rfl, [], by simp⟩
  trans a b c h1 h2 := by
    obtain ⟨t1, l1, e1, he1⟩ := h1
    obtain ⟨t2, l2, e2, he2⟩ := h2
    exact ⟨t2.trans t1, l2.trans l1, e1 ++ e2, by rw [he2, he1, List.append_assoc]⟩

theorem rt_modify (f : IState σ → IState σ) (h : ∀ st, (f st).time = st.time ∧ (f st).listeners = st.listeners) :
    Rel RT (M.modify f : M σ ω Unit) := by
  intro rs
  exact ⟨(h rs.st).1, (h rs.st).2, [], by simp [M.modify]⟩

theorem rt_emit (e : Effect) : Rel RT (M.emit e : M σ ω Unit) := by
  intro rs
  exact ⟨rfl, rfl, [e], rfl⟩

syntax "rel_auto" : tactic
macro_rules
  | `(tactic| rel_auto) => `(tactic| repeat (first
      | apply Rel.bind RT_pre
      | apply Rel.pure RT_pre
      | apply Rel.throw RT_pre
      | apply Rel.get RT_pre
      | apply Rel.forEach RT_pre
      | apply rt_emit
      | (apply rt_modify; intro st; exact ⟨rfl, rfl⟩)
      | assumption
      | intro _
      | split))

variable (env : Env σ ω)

theorem rt_queueEvent (i : Bool) (e : Event) : Rel RT (queueEvent (σ := σ) (ω := ω) i e) := by
  unfold queueEvent
  apply rt_modify
  intro st
  split <;> exact ⟨rfl, rfl⟩

theorem foldl_extQ_frame (qs : List Event) (st : IState σ) :
    (qs.foldl (fun st e => { st with extQ := queueInsert (st.time + e.delay) e st.extQ }) st).time = st.time ∧
    (qs.foldl (fun st e => { st with extQ := queueInsert (st.time + e.delay) e st.extQ }) st).listeners = st.listeners := by
  induction qs generalizing st with
  | nil => exact ⟨rfl, rfl⟩
  | cons q qs ih =>
    simp only [List.foldl_cons]
    exact ih _

theorem rt_callListener (m : Event) (l : Nat) : Rel RT (callListener env m l) := by
  intro rs
  unfold callListener
  simp only
  have := foldl_extQ_frame (env.deliver l m rs.st.time rs.world).2.2 rs.st
  exact ⟨this.1, this.2, [], by simp⟩

theorem forEach_callListener_eff (m : Event) : ∀ (ls : List Nat) (rs : RS σ ω),
    (M.forEach (callListener env m) ls rs).2.eff = rs.eff
  | [], rs => rfl
  | l :: ls, rs => by
    simp only [M.forEach, M.bind]
    split
    · next a rs' heq =>
      rw [forEach_callListener_eff m ls rs']
      have : rs' = (callListener env m l rs).2 := by rw [heq]
      rw [this]; rfl
    · next e rs' heq =>
      have : rs' = (callListener env m l rs).2 := by rw [heq]
      rw [this]; rfl

/-- raising a meta-event logs exactly that meta-event, whatever the listeners do -/
theorem raiseMeta_eff (m : Event) (rs : RS σ ω) : (raiseMeta env m rs).2.eff = rs.eff ++ [.metaEv m] := by
  unfold raiseMeta
  simp only [M.bind, M.emit, M.get]
  exact forEach_callListener_eff env m _ _

theorem rt_raiseMeta (m : Event) : Rel RT (raiseMeta env m) := by
  unfold raiseMeta
  apply Rel.bind RT_pre (rt_emit _)
  intro _
  apply Rel.bind RT_pre (Rel.get RT_pre)
  intro st
  exact Rel.forEach RT_pre (rt_callListener env m) _

/-! ### any pre-order on run states that the primitive steps respect is respected by every part of
a macro step (used for the step time, for "no contract evaluation when ignored", for deliveries) -/

/-- effects logged by the interpreter itself outside contract evaluation and meta-events -/
def Effect.isPlain : Effect → Bool
  | .onExit _ | .onEntry _ | .action _ _ | .guard _ _ _ => true
  | _ => false

/-- `f` does not touch the step time nor the listeners -/
def FrameFn (f : IState σ → IState σ) : Prop := ∀ st, (f st).time = st.time ∧ (f st).listeners = st.listeners

theorem popEvent_frame (st : IState σ) :
    (popEvent st).2.time = st.time ∧ (popEvent st).2.listeners = st.listeners ∧
    (popEvent st).2.config = st.config ∧ (popEvent st).2.memory = st.memory ∧
    (popEvent st).2.initialized = st.initialized := by
  unfold popEvent
  split
  · split
    · exact ⟨rfl, rfl, rfl, rfl, rfl⟩
    · split
      · split <;> exact ⟨rfl, rfl, rfl, rfl, rfl⟩
      · exact ⟨rfl, rfl, rfl, rfl, rfl⟩
  · split
    · split <;> exact ⟨rfl, rfl, rfl, rfl, rfl⟩
    · exact ⟨rfl, rfl, rfl, rfl, rfl⟩

/-- `f` touches neither the step time, the listeners, the event queues, the list of sent events
    nor the recorded entry / idle times -/
def QFrameFn (f : IState σ → IState σ) : Prop :=
  ∀ st, (f st).time = st.time ∧ (f st).listeners = st.listeners ∧ (f st).intQ = st.intQ ∧
    (f st).extQ = st.extQ ∧ (f st).sentEvents = st.sentEvents ∧
    (f st).entryTime = st.entryTime ∧ (f st).idleTime = st.idleTime ∧
    (∀ x, x ∈ (f st).config → x ∈ st.config)

/-- what a relation must satisfy on the primitive steps -/
structure Respects (R : RS σ ω → RS σ ω → Prop) : Prop where
  pre : PreOrd R
  modify : ∀ f : IState σ → IState σ, FrameFn f → Rel R (M.modify f : M σ ω Unit)
  /-- logging of an executed code fragment or a guard evaluation -/
  emit : ∀ e : Effect, e.isPlain = true → Rel R (M.emit e : M σ ω Unit)
  /-- raising a meta-event: log it and call the listeners -/
  raise : ∀ m : Event, Rel R (raiseMeta env m)
  /-- evaluating the contract conditions of one kind of one object -/
  contract : ∀ (kind : CondKind) (obj : Obj) (ev : Option Event), Rel R (evalContract env kind obj ev)

/-- evaluation of contract conditions respects any relation that the primitive steps
    (including the logging of a condition's evaluation) respect -/
theorem contract_of_prims {R : RS σ ω → RS σ ω → Prop} (hpre : PreOrd R)
    (hmod : ∀ f : IState σ → IState σ, QFrameFn f → Rel R (M.modify f : M σ ω Unit))
    (hemit : ∀ (k : CondKind) (o : ObjId) (i : Nat) (e : Option Event) (r : Option Bool),
      Rel R (M.emit (.cond k o i e r) : M σ ω Unit))
    (kind : CondKind) (obj : Obj) (ev : Option Event) : Rel R (evalContract env kind obj ev) := by
  have hconds : ∀ (codes : List Code) (i : Nat), Rel R (evalConds env kind obj ev i codes) := by
    intro codes
    induction codes with
    | nil => intro i; exact Rel.pure hpre _
    | cons c cs ih =>
      intro i
      unfold evalConds
      apply Rel.bind hpre (Rel.get hpre); intro st
      apply Rel.bind hpre (hemit _ _ _ _ _); intro _
      split
      · exact Rel.throw hpre _
      · exact Rel.throw hpre _
      · exact ih _
  unfold evalContract
  split
  · exact Rel.pure hpre _
  · apply Rel.bind hpre
    · split
      · apply hmod; intro st; exact ⟨rfl, rfl, rfl, rfl, rfl, rfl, rfl, fun _ h => h⟩
      · exact Rel.pure hpre _
    · intro _; exact hconds _ _

/-- one round of the loop `for event in sent_events: self._raise_event(event); self._sent_events.append(event)` -/
def sendOne (ev : Sent) : M σ ω Unit :=
  M.bind (raiseSent env ev) (fun _ =>
    M.modify (fun st => { st with sentEvents := st.sentEvents ++ [ev] }))

/-- `_select_event(consume=True)` followed by the `event consumed` meta-event -/
def consumeOne : M σ ω Unit :=
  M.bind (M.get : M σ ω (IState σ)) (fun st =>
    M.bind (M.modify (fun st' => (popEvent st').2)) (fun _ =>
      raiseMeta env { name := "event consumed", data := [("event", optEventVal (popEvent st).1)] }))

/-- the finer interface: sending one event is a primitive step of its own, and every other
    assignment (but the consumption of the selected event, see `RespectsQ`) provably leaves the
    queues and the list of sent events alone -/
structure RespectsS (R : RS σ ω → RS σ ω → Prop) : Prop where
  pre : PreOrd R
  modify : ∀ f : IState σ → IState σ, QFrameFn f → Rel R (M.modify f : M σ ω Unit)
  emit : ∀ e : Effect, e.isPlain = true → Rel R (M.emit e : M σ ω Unit)
  raise : ∀ m : Event, Rel R (raiseMeta env m)
  contract : ∀ (kind : CondKind) (obj : Obj) (ev : Option Event), Rel R (evalContract env kind obj ev)
  send : ∀ ev : Sent, Rel R (sendOne env ev)
  /-- the assignment that makes a state active and records its entry time -/
  markEnter : ∀ n : Name, Rel R (M.modify (fun st => { st with
      config := if st.config.contains n then st.config else st.config ++ [n],
      entryTime := assocSet n st.time st.entryTime,
      idleTime := assocSet n st.time st.idleTime }) : M σ ω Unit)
  /-- the assignment that records that a state fired a transition -/
  markFire : ∀ n : Name, Rel R (M.modify (fun st => { st with idleTime := assocSet n st.time st.idleTime }) : M σ ω Unit)

/-- … and so is consuming the selected event and announcing it -/
structure RespectsQ (R : RS σ ω → RS σ ω → Prop) : Prop extends RespectsS env R where
  consume : Rel R (consumeOne env)

theorem queueEvent_frame (i : Bool) (e : Event) :
    FrameFn (fun (st : IState σ) =>
      let due := st.time + e.delay
      if i then { st with intQ := queueInsert due e st.intQ }
      else { st with extQ := queueInsert due e st.extQ }) := by
  intro st
  simp only
  split <;> exact ⟨rfl, rfl⟩

/-- a relation indifferent to the queues respects the finer interface too -/
theorem Respects.toQ {R : RS σ ω → RS σ ω → Prop} (H : Respects env R) : RespectsQ env R where
  pre := H.pre
  modify f hf := H.modify f (fun st => ⟨(hf st).1, (hf st).2.1⟩)
  emit := H.emit
  raise := H.raise
  contract := H.contract
  send ev := by
    unfold sendOne
    apply Rel.bind H.pre
    · cases ev with
      | notify m => exact H.raise m
      | internal e =>
        unfold raiseSent
        apply Rel.bind H.pre (by unfold queueEvent; exact H.modify _ (queueEvent_frame true e)); intro _
        apply Rel.bind H.pre (H.raise _); intro _
        split
        · exact H.raise _
        · exact Rel.pure H.pre _
    · intro _; apply H.modify; intro st; exact ⟨rfl, rfl⟩
  markEnter n := by apply H.modify; intro st; exact ⟨rfl, rfl⟩
  markFire n := by apply H.modify; intro st; exact ⟨rfl, rfl⟩
  consume := by
    unfold consumeOne
    apply Rel.bind H.pre (Rel.get H.pre); intro st
    apply Rel.bind H.pre (by apply H.modify; intro st'; exact ⟨(popEvent_frame st').1, (popEvent_frame st').2.1⟩)
    intro _; exact H.raise _

section Generic
variable {env}
variable {R : RS σ ω → RS σ ω → Prop} (H : RespectsS env R)
include H

theorem rel_stateObj (n : Name) : Rel R (stateObj env n) := by
  unfold stateObj
  split
  · exact Rel.pure H.pre _
  · exact Rel.throw H.pre _

theorem rel_stateObjs : ∀ ns : List Name, Rel R (stateObjs env ns)
  | [] => Rel.pure H.pre _
  | n :: ns => by
    unfold stateObjs
    apply Rel.bind H.pre (rel_stateObj H n); intro s
    apply Rel.bind H.pre (rel_stateObjs ns); intro ss
    exact Rel.pure H.pre _

theorem rel_runCode (k : ExecKind) (ev : Option Event) : Rel R (runCode env k ev) := by
  unfold runCode
  apply Rel.bind H.pre (Rel.get H.pre); intro st
  apply Rel.bind H.pre (by apply H.modify; intro st; exact ⟨rfl, rfl, rfl, rfl, rfl, rfl, rfl, fun _ h => h⟩); intro _
  split
  · exact Rel.pure H.pre _
  · exact Rel.throw H.pre _

theorem rel_saveMemory (cfg0 : List Name) (s : StateDef) : ∀ chs : List Name, Rel R (saveMemory env cfg0 s chs)
  | [] => Rel.pure H.pre _
  | ch :: rest => by
    unfold saveMemory
    split
    · exact Rel.throw H.pre _
    · exact rel_saveMemory cfg0 s rest
    · apply Rel.bind H.pre (by apply H.modify; intro st; exact ⟨rfl, rfl, rfl, rfl, rfl, rfl, rfl, fun _ h => h⟩)
      intro _; exact rel_saveMemory cfg0 s rest

theorem rel_exitState (cfg0 : List Name) (step : Micro) (s : StateDef) : Rel R (exitState env cfg0 step s) := by
  unfold exitState
  apply Rel.bind H.pre (H.emit _ rfl); intro _
  apply Rel.bind H.pre (rel_runCode H _ _); intro sent
  apply Rel.bind H.pre
  · split
    · exact rel_saveMemory H cfg0 s _
    · exact Rel.pure H.pre _
  intro _
  apply Rel.bind H.pre (Rel.get H.pre); intro st
  apply Rel.bind H.pre
  · split
    · exact Rel.throw H.pre _
    · exact Rel.pure H.pre _
  intro _
  apply Rel.bind H.pre (by apply H.modify; intro st; exact ⟨rfl, rfl, rfl, rfl, rfl, rfl, rfl, fun _ h => (List.mem_filter.mp h).1⟩); intro _
  apply Rel.bind H.pre (H.contract _ _ _); intro _
  apply Rel.bind H.pre (H.raise _); intro _
  exact Rel.pure H.pre _

theorem rel_enterState (step : Micro) (s : StateDef) : Rel R (enterState env step s) := by
  unfold enterState
  apply Rel.bind H.pre (H.contract _ _ _); intro _
  apply Rel.bind H.pre (H.emit _ rfl); intro _
  apply Rel.bind H.pre (rel_runCode H _ _); intro sent
  apply Rel.bind H.pre (H.markEnter _); intro _
  apply Rel.bind H.pre (H.raise _); intro _
  exact Rel.pure H.pre _

theorem rel_fireTransition (step : Micro) (t : Trans) : Rel R (fireTransition env step t) := by
  unfold fireTransition
  apply Rel.bind H.pre (H.contract _ _ _); intro _
  apply Rel.bind H.pre (H.contract _ _ _); intro _
  apply Rel.bind H.pre (H.emit _ rfl); intro _
  apply Rel.bind H.pre (rel_runCode H _ _); intro sent
  apply Rel.bind H.pre (H.contract _ _ _); intro _
  apply Rel.bind H.pre (H.contract _ _ _); intro _
  apply Rel.bind H.pre (H.markFire _); intro _
  apply Rel.bind H.pre (H.raise _); intro _
  exact Rel.pure H.pre _

theorem rel_collect {γ : Type} (f : γ → M σ ω (List Sent)) (hf : ∀ x, Rel R (f x)) :
    ∀ l : List γ, Rel R (collect f l)
  | [] => Rel.pure H.pre _
  | x :: xs => by
    unfold collect
    apply Rel.bind H.pre (hf x); intro a
    apply Rel.bind H.pre (rel_collect f hf xs); intro b
    exact Rel.pure H.pre _

theorem rel_raiseAll (sent : List Sent) : Rel R (raiseAll env sent) := by
  unfold raiseAll
  apply Rel.forEach H.pre
  intro ev
  exact H.send ev

theorem rel_applyStep (step : Micro) : Rel R (applyStep env step) := by
  unfold applyStep
  apply Rel.bind H.pre (rel_stateObjs H _); intro entered
  apply Rel.bind H.pre (rel_stateObjs H _); intro exited
  apply Rel.bind H.pre (Rel.get H.pre); intro st0
  apply Rel.bind H.pre (rel_collect H _ (rel_exitState H _ _) _); intro s1
  apply Rel.bind H.pre
  · split
    · exact rel_fireTransition H _ _
    · exact Rel.pure H.pre _
  intro s2
  apply Rel.bind H.pre (rel_collect H _ (rel_enterState H _) _); intro s3
  apply Rel.bind H.pre (rel_raiseAll H _); intro _
  exact Rel.pure H.pre _

theorem rel_stabilize : ∀ n : Nat, Rel R (stabilize env n)
  | 0 => Rel.throw H.pre _
  | n+1 => by
    unfold stabilize
    apply Rel.bind H.pre (Rel.get H.pre); intro st
    split
    · exact Rel.pure H.pre _
    · apply Rel.bind H.pre (rel_applyStep H _); intro a
      apply Rel.bind H.pre (rel_stabilize n); intro rest
      exact Rel.pure H.pre _

theorem rel_logGuards (st : IState σ) (ev : Option Event) : ∀ l : List (Trans × Bool), Rel R (logGuards env st ev l)
  | [] => Rel.pure H.pre _
  | (t, exposed) :: rest => by
    unfold logGuards
    apply Rel.bind H.pre (H.emit _ rfl); intro _
    split
    · exact Rel.throw H.pre _
    · exact rel_logGuards st ev rest

theorem rel_applyAll : ∀ l : List Micro, Rel R (applyAll env l)
  | [] => Rel.pure H.pre _
  | s :: rest => by
    unfold applyAll
    apply Rel.bind H.pre (rel_applyStep H s); intro a
    apply Rel.bind H.pre (rel_stabilize H _); intro stab
    apply Rel.bind H.pre (rel_applyAll rest); intro more
    exact Rel.pure H.pre _

theorem rel_computeSteps : Rel R (computeSteps env) := by
  unfold computeSteps
  apply Rel.bind H.pre (Rel.get H.pre); intro st
  split
  · apply Rel.bind H.pre (by apply H.modify; intro st; exact ⟨rfl, rfl, rfl, rfl, rfl, rfl, rfl, fun _ h => h⟩)
    intro _; exact Rel.pure H.pre _
  · simp only
    apply Rel.bind H.pre (rel_logGuards H _ _ _); intro _
    split
    · split
      · exact Rel.pure H.pre _
      · exact Rel.pure H.pre _
    · split
      · exact Rel.throw H.pre _
      · exact Rel.throw H.pre _
      · exact Rel.pure H.pre _

theorem rel_finishStep (ms : Option MacroStep) : Rel R (finishStep env ms) := by
  unfold finishStep
  apply Rel.bind H.pre (Rel.get H.pre); intro st
  apply Rel.bind H.pre
  · apply Rel.forEach H.pre
    intro n
    apply Rel.bind H.pre (rel_stateObj H n); intro s
    exact H.contract _ _ _
  intro _
  apply Rel.bind H.pre (H.raise _); intro _
  exact Rel.pure H.pre _

end Generic

section GenericQ
variable {env}
variable {R : RS σ ω → RS σ ω → Prop} (H : RespectsQ env R)
include H

theorem rel_runSteps (computed : List Micro) : Rel R (runSteps env computed) := by
  unfold runSteps
  split
  · exact Rel.pure H.pre _
  · apply Rel.bind H.pre
    · split
      · exact H.consume
      · exact Rel.pure H.pre _
    intro _
    apply Rel.bind H.pre (rel_applyAll H.toRespectsS _); intro executed
    apply Rel.bind H.pre (Rel.get H.pre); intro st
    exact Rel.pure H.pre _

/-- everything `execute_once` does after its first assignment -/
theorem rel_executeOnce_tail (clock : Int) :
    Rel R (M.bind (raiseMeta env { name := "step started", data := [("time", .int clock)] }) (fun _ =>
      M.bind (computeSteps env) (fun computed =>
      M.bind (runSteps env computed) (fun ms => finishStep env ms)))) := by
  apply Rel.bind H.pre (H.raise _); intro _
  apply Rel.bind H.pre (rel_computeSteps H.toRespectsS); intro computed
  apply Rel.bind H.pre (rel_runSteps H computed); intro ms
  exact rel_finishStep H.toRespectsS ms

end GenericQ

/-! ### instance: step time, listeners, log growth -/

theorem RT_respects : Respects env (RT : RS σ ω → RS σ ω → Prop) where
  pre := RT_pre
  modify f hf := rt_modify f hf
  emit e _ := rt_emit e
  raise m := rt_raiseMeta env m
  contract := contract_of_prims env RT_pre (fun f hf => rt_modify f (fun st => ⟨(hf st).1, (hf st).2.1⟩)) (fun _ _ _ _ _ => rt_emit _)

theorem rt_computeSteps : Rel RT (computeSteps env) := rel_computeSteps (RT_respects env).toQ.toRespectsS
theorem rt_runSteps (computed : List Micro) : Rel RT (runSteps env computed) := rel_runSteps (RT_respects env).toQ computed
theorem rt_finishStep (ms : Option MacroStep) : Rel RT (finishStep env ms) := rel_finishStep (RT_respects env).toQ.toRespectsS ms
theorem rt_applyStep (step : Micro) : Rel RT (applyStep env step) := rel_applyStep (RT_respects env).toQ.toRespectsS step

/-- **The step time is the clock value sampled at the call, whatever happens** (normal return or
    exception), and the effect log is only extended. -/
theorem executeOnce_time (clock : Int) (rs : RS σ ω) :
    (executeOnce env clock rs).2.st.time = clock ∧
    (executeOnce env clock rs).2.st.listeners = rs.st.listeners ∧
    ∃ l, (executeOnce env clock rs).2.eff = rs.eff ++ l := by
  unfold executeOnce
  have key := rel_executeOnce_tail (RT_respects env).toQ clock { rs with st := { rs.st with time := clock, sentEvents := [] } }
  simp only [M.bind, M.modify] at key ⊢
  exact key

end Sismic
