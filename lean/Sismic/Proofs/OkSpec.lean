import Sismic.Spec.Run
import Sismic.Proofs.Frame
/-!
# Sismic.Proofs.OkSpec — what each part of `execute_once` has done when it returns normally
(effect log exactly, configuration and history memory exactly)
-/
namespace Sismic
open M

variable {σ ω : Type} (env : Env σ ω)

/-- configuration, memory and initialisation flag unchanged -/
def SameCM (rs rs' : RS σ ω) : Prop :=
  rs'.st.config = rs.st.config ∧ rs'.st.memory = rs.st.memory ∧ rs'.st.initialized = rs.st.initialized

theorem SameCM.refl (rs : RS σ ω) : SameCM rs rs := ⟨rfl, rfl, rfl⟩
theorem SameCM.trans {a b c : RS σ ω} (h1 : SameCM a b) (h2 : SameCM b c) : SameCM a c :=
  ⟨h2.1.trans h1.1, h2.2.1.trans h1.2.1, h2.2.2.trans h1.2.2⟩

theorem foldl_extQ_cm (qs : List Event) (st : IState σ) :
    let st' := qs.foldl (fun st e => { st with extQ := queueInsert (st.time + e.delay) e st.extQ }) st
    st'.config = st.config ∧ st'.memory = st.memory ∧ st'.initialized = st.initialized := by
  induction qs generalizing st with
  | nil => exact ⟨rfl, rfl, rfl⟩
  | cons q qs ih => simp only [List.foldl_cons]; exact ih _

theorem callListener_ok (m : Event) (l : Nat) (rs rs' : RS σ ω) (u : Unit)
    (h : callListener env m l rs = (.ok u, rs')) : SameCM rs rs' ∧ rs'.eff = rs.eff := by
  unfold callListener at h
  simp only [Prod.mk.injEq] at h
  obtain ⟨_, rfl⟩ := h
  exact ⟨foldl_extQ_cm _ _, rfl⟩

theorem forEach_callListener_ok (m : Event) : ∀ (ls : List Nat) (rs rs' : RS σ ω) (u : Unit),
    M.forEach (callListener env m) ls rs = (.ok u, rs') → SameCM rs rs' ∧ rs'.eff = rs.eff
  | [], rs, rs', u, h => by
    simp only [M.forEach, pure_ok] at h
    obtain ⟨_, rfl⟩ := h
    exact ⟨SameCM.refl _, rfl⟩
  | l :: ls, rs, rs', u, h => by
    simp only [M.forEach] at h
    obtain ⟨a, r1, h1, h2⟩ := bind_ok.mp h
    have s1 := callListener_ok env m l rs r1 a h1
    have s2 := forEach_callListener_ok m ls r1 rs' u h2
    exact ⟨s1.1.trans s2.1, s2.2.trans s1.2⟩

theorem foldl_extQ_only (qs : List Event) (st : IState σ) :
    ∃ q, qs.foldl (fun st e => { st with extQ := queueInsert (st.time + e.delay) e st.extQ }) st = { st with extQ := q } := by
  induction qs generalizing st with
  | nil => exact ⟨st.extQ, rfl⟩
  | cons x xs ih =>
    simp only [List.foldl_cons]
    obtain ⟨q, hq⟩ := ih { st with extQ := queueInsert (st.time + x.delay) x st.extQ }
    exact ⟨q, by rw [hq]⟩

/-- a listener can only add to the external queue of the interpreter it listens to -/
theorem callListener_frame (m : Event) (l : Nat) (rs : RS σ ω) :
    ∃ q, (callListener env m l rs).2.st = { rs.st with extQ := q } := by
  unfold callListener
  exact foldl_extQ_only _ _

theorem forEach_callListener_frame (m : Event) : ∀ (ls : List Nat) (rs rs' : RS σ ω) (u : Unit),
    M.forEach (callListener env m) ls rs = (.ok u, rs') → ∃ q, rs'.st = { rs.st with extQ := q }
  | [], rs, rs', u, h => by
    simp only [M.forEach, pure_ok] at h
    obtain ⟨_, rfl⟩ := h
    exact ⟨rs.st.extQ, rfl⟩
  | l :: ls, rs, rs', u, h => by
    simp only [M.forEach] at h
    obtain ⟨a, r1, h1, h2⟩ := bind_ok.mp h
    obtain ⟨q1, hq1⟩ := callListener_frame env m l rs
    have : r1 = (callListener env m l rs).2 := by rw [h1]
    obtain ⟨q2, hq2⟩ := forEach_callListener_frame m ls r1 rs' u h2
    exact ⟨q2, by rw [hq2, this, hq1]⟩

/-- raising a meta-event changes nothing of the interpreter but (through listeners) its external queue -/
theorem raiseMeta_frame (m : Event) (rs rs' : RS σ ω) (u : Unit)
    (h : raiseMeta env m rs = (.ok u, rs')) : ∃ q, rs'.st = { rs.st with extQ := q } := by
  unfold raiseMeta at h
  obtain ⟨a, r1, h1, h2⟩ := bind_ok.mp h
  obtain ⟨st, r2, h3, h4⟩ := bind_ok.mp h2
  rw [emit_ok] at h1; subst h1
  rw [get_ok] at h3; obtain ⟨rfl, rfl⟩ := h3
  exact forEach_callListener_frame env m _ { rs with eff := rs.eff ++ [.metaEv m] } rs' u h4

theorem raiseMeta_ok (m : Event) (rs rs' : RS σ ω) (u : Unit)
    (h : raiseMeta env m rs = (.ok u, rs')) : SameCM rs rs' ∧ rs'.eff = rs.eff ++ [.metaEv m] := by
  unfold raiseMeta at h
  obtain ⟨a, r1, h1, h2⟩ := bind_ok.mp h
  obtain ⟨st, r2, h3, h4⟩ := bind_ok.mp h2
  rw [emit_ok] at h1
  subst h1
  rw [get_ok] at h3
  obtain ⟨rfl, rfl⟩ := h3
  have s := forEach_callListener_ok env m _ _ rs' u h4
  exact ⟨s.1, s.2⟩

theorem queueEvent_ok (i : Bool) (e : Event) (rs rs' : RS σ ω) (u : Unit)
    (h : queueEvent (σ := σ) (ω := ω) i e rs = (.ok u, rs')) : SameCM rs rs' ∧ rs'.eff = rs.eff := by
  unfold queueEvent at h
  rw [modify_ok] at h
  subst h
  refine ⟨?_, rfl⟩
  unfold SameCM
  simp only
  split <;> exact ⟨rfl, rfl, rfl⟩

theorem raiseSent_ok (s : Sent) (rs rs' : RS σ ω) (u : Unit)
    (h : raiseSent env s rs = (.ok u, rs')) : SameCM rs rs' ∧ rs'.eff = rs.eff ++ sentLog s := by
  cases s with
  | notify m => exact raiseMeta_ok env m rs rs' u h
  | internal e =>
    unfold raiseSent at h
    obtain ⟨a1, r1, h1, h⟩ := bind_ok.mp h
    obtain ⟨a2, r2, h2, h⟩ := bind_ok.mp h
    have s1 := queueEvent_ok true e rs r1 a1 h1
    have s2 := raiseMeta_ok env _ r1 r2 a2 h2
    unfold sentLog
    split at h
    · next hd =>
      have s3 := raiseMeta_ok env _ r2 rs' u h
      refine ⟨(s1.1.trans s2.1).trans s3.1, ?_⟩
      rw [s3.2, s2.2, s1.2]
      simp [hd, metaSent, metaDelayed]
    · next hd =>
      rw [pure_ok] at h
      obtain ⟨_, rfl⟩ := h
      refine ⟨s1.1.trans s2.1, ?_⟩
      rw [s2.2, s1.2]
      simp [hd, metaSent]

theorem evalConds_ok (kind : CondKind) (obj : Obj) (ev : Option Event) :
    ∀ (codes : List Code) (i : Nat) (rs rs' : RS σ ω) (u : Unit),
      evalConds env kind obj ev i codes rs = (.ok u, rs') →
      rs' = { rs with eff := rs.eff ++ condsLogFrom kind obj ev i codes } := by
  intro codes
  induction codes with
  | nil =>
    intro i rs rs' u h
    simp only [evalConds, pure_ok] at h
    obtain ⟨_, rfl⟩ := h
    cases rs
    simp [condsLogFrom]
  | cons c cs ih =>
    intro i rs rs' u h
    unfold evalConds at h
    obtain ⟨st, r1, h1, h⟩ := bind_ok.mp h
    rw [get_ok] at h1
    obtain ⟨rfl, rfl⟩ := h1
    obtain ⟨a2, r2, h2, h⟩ := bind_ok.mp h
    rw [emit_ok] at h2
    subst h2
    cases hr : env.E.cond rs.st kind obj c ev with
    | none =>
      simp only [hr] at h
      exact absurd h (by simp [M.throw])
    | some b =>
      cases b with
      | false =>
        simp only [hr] at h
        exact absurd h (by simp [M.throw])
      | true =>
        simp only [hr] at h
        have := ih (i + 1) _ rs' u h
        rw [this]
        simp [condsLogFrom, hr]

theorem evalContract_ok (kind : CondKind) (obj : Obj) (ev : Option Event) (rs rs' : RS σ ω) (u : Unit)
    (h : evalContract env kind obj ev rs = (.ok u, rs')) :
    SameCM rs rs' ∧ rs'.eff = rs.eff ++ contractLog env.ignoreContract kind obj ev := by
  unfold evalContract at h
  unfold contractLog
  split at h
  · next hi =>
    rw [pure_ok] at h
    obtain ⟨_, rfl⟩ := h
    simp [hi, SameCM.refl]
  · next hi =>
    obtain ⟨a1, r1, h1, h⟩ := bind_ok.mp h
    have := evalConds_ok env kind obj ev _ 0 r1 rs' u h
    subst this
    have hi' : env.ignoreContract = false := by simpa using hi
    simp only [hi', Bool.false_eq_true, if_false]
    split at h1
    · rw [modify_ok] at h1
      subst h1
      exact ⟨⟨rfl, rfl, rfl⟩, rfl⟩
    · rw [pure_ok] at h1
      obtain ⟨_, rfl⟩ := h1
      exact ⟨⟨rfl, rfl, rfl⟩, rfl⟩

theorem runCode_ok (k : ExecKind) (ev : Option Event) (rs rs' : RS σ ω) (sent : List Sent)
    (h : runCode env k ev rs = (.ok sent, rs')) : SameCM rs rs' ∧ rs'.eff = rs.eff := by
  unfold runCode at h
  obtain ⟨st, r1, h1, h⟩ := bind_ok.mp h
  rw [get_ok] at h1
  obtain ⟨rfl, rfl⟩ := h1
  obtain ⟨a2, r2, h2, h⟩ := bind_ok.mp h
  rw [modify_ok] at h2
  subst h2
  cases hx : (env.E.exec rs.st k ev).2 with
  | some sent' =>
    simp only [hx, pure_ok] at h
    obtain ⟨_, rfl⟩ := h
    exact ⟨⟨rfl, rfl, rfl⟩, rfl⟩
  | none =>
    simp only [hx] at h
    exact absurd h (by simp [M.throw])

theorem stateObj_ok (n : Name) (rs rs' : RS σ ω) (s : StateDef)
    (h : stateObj env n rs = (.ok s, rs')) : rs = rs' ∧ env.chart.stateFor n = some s := by
  unfold stateObj at h
  cases hs : env.chart.stateFor n with
  | some s' =>
    simp only [hs, pure_ok] at h
    obtain ⟨rfl, rfl⟩ := h
    exact ⟨rfl, rfl⟩
  | none =>
    simp only [hs] at h
    exact absurd h (by simp [M.throw])

theorem stateD_of_stateFor (c : Chart) (n : Name) (s : StateDef) (h : c.stateFor n = some s) :
    c.stateD n = s ∧ s.name = n := by
  unfold Chart.stateD
  rw [h]
  refine ⟨rfl, ?_⟩
  unfold Chart.stateFor at h
  have := List.find?_some h
  simpa using this

theorem stateObjs_ok : ∀ (ns : List Name) (rs rs' : RS σ ω) (ss : List StateDef),
    stateObjs env ns rs = (.ok ss, rs') → rs = rs' ∧ ss = ns.map env.chart.stateD ∧ ss.map (·.name) = ns ∧
      ∀ s ∈ ss, env.chart.stateD s.name = s
  | [], rs, rs', ss, h => by
    simp only [stateObjs, pure_ok] at h
    obtain ⟨rfl, rfl⟩ := h
    simp
  | n :: ns, rs, rs', ss, h => by
    unfold stateObjs at h
    obtain ⟨s, r1, h1, h⟩ := bind_ok.mp h
    obtain ⟨ss', r2, h2, h⟩ := bind_ok.mp h
    rw [pure_ok] at h
    obtain ⟨rfl, rfl⟩ := h
    obtain ⟨rfl, hs⟩ := stateObj_ok env n rs r1 s h1
    obtain ⟨rfl, hss, hnames, hall⟩ := stateObjs_ok ns _ _ ss' h2
    have := stateD_of_stateFor env.chart n s hs
    refine ⟨rfl, ?_, ?_, ?_⟩
    · simp [hss, this.1]
    · simp [hnames, this.2]
    · intro x hx
      rcases List.mem_cons.mp hx with rfl | hx
      · rw [this.2]; exact this.1
      · exact hall x hx

theorem saveMemory_ok (cfg0 : List Name) (s : StateDef) : ∀ (chs : List Name) (rs rs' : RS σ ω) (u : Unit),
    saveMemory env cfg0 s chs rs = (.ok u, rs') →
    rs'.st.config = rs.st.config ∧ rs'.st.initialized = rs.st.initialized ∧ rs'.eff = rs.eff ∧
    rs'.st.memory = saveMem env.chart cfg0 s rs.st.memory chs
  | [], rs, rs', u, h => by
    simp only [saveMemory, pure_ok] at h
    obtain ⟨_, rfl⟩ := h
    exact ⟨rfl, rfl, rfl, rfl⟩
  | ch :: rest, rs, rs', u, h => by
    unfold saveMemory at h
    unfold saveMem
    cases hm : memoryOf env.chart cfg0 s ch with
    | error e => simp only [hm] at h; exact absurd h (by simp [M.throw])
    | ok o =>
      cases o with
      | none =>
        simp only [hm] at h ⊢
        exact saveMemory_ok cfg0 s rest rs rs' u h
      | some a =>
        simp only [hm] at h ⊢
        obtain ⟨a1, r1, h1, h⟩ := bind_ok.mp h
        rw [modify_ok] at h1; subst h1
        have ih := saveMemory_ok cfg0 s rest _ rs' u h
        exact ⟨ih.1, ih.2.1, ih.2.2.1, ih.2.2.2⟩

theorem exitState_ok (cfg0 : List Name) (step : Micro) (s : StateDef) (rs rs' : RS σ ω) (sent : List Sent)
    (h : exitState env cfg0 step s rs = (.ok sent, rs')) :
    rs'.st.config = rs.st.config.filter (fun x => x != s.name) ∧
    rs'.st.memory = (if s.kind == .compound then saveMem env.chart cfg0 s rs.st.memory (env.chart.childrenFor s.name)
                     else rs.st.memory) ∧
    rs'.st.initialized = rs.st.initialized ∧
    rs'.eff = rs.eff ++ exitLog env.ignoreContract step.event s := by
  unfold exitState at h
  obtain ⟨a1, r1, h1, h⟩ := bind_ok.mp h
  obtain ⟨sent1, r2, h2, h⟩ := bind_ok.mp h
  obtain ⟨a3, r3, h3, h⟩ := bind_ok.mp h
  obtain ⟨st, r4, h4, h⟩ := bind_ok.mp h
  obtain ⟨a5, r5, h5, h⟩ := bind_ok.mp h
  obtain ⟨a6, r6, h6, h⟩ := bind_ok.mp h
  obtain ⟨a7, r7, h7, h⟩ := bind_ok.mp h
  obtain ⟨a8, r8, h8, h⟩ := bind_ok.mp h
  rw [pure_ok] at h
  obtain ⟨_, rfl⟩ := h
  rw [emit_ok] at h1; subst h1
  have s2 := runCode_ok env _ _ _ r2 sent1 h2
  rw [get_ok] at h4; obtain ⟨rfl, rfl⟩ := h4
  have s5 : r3 = r5 := by
    split at h5
    · exact absurd h5 (by simp [M.throw])
    · rw [pure_ok] at h5; exact h5.2
  subst s5
  rw [modify_ok] at h6; subst h6
  have s7 := evalContract_ok env _ _ _ _ r7 a7 h7
  have s8 := raiseMeta_ok env _ r7 r8 a8 h8
  have s3 : r3.st.config = r2.st.config ∧ r3.st.initialized = r2.st.initialized ∧ r3.eff = r2.eff ∧
      r3.st.memory = (if s.kind == .compound then saveMem env.chart cfg0 s r2.st.memory (env.chart.childrenFor s.name)
                      else r2.st.memory) := by
    split at h3
    · next hk => simpa [hk] using saveMemory_ok env cfg0 s _ r2 r3 a3 h3
    · next hk => rw [pure_ok] at h3; obtain ⟨_, rfl⟩ := h3; simp [hk]
  refine ⟨?_, ?_, ?_, ?_⟩
  · rw [s8.1.1, s7.1.1]; simp only; rw [s3.1, s2.1.1]
  · rw [s8.1.2.1, s7.1.2.1]; simp only; rw [s3.2.2.2, s2.1.2.1]
  · rw [s8.1.2.2, s7.1.2.2]; simp only; rw [s3.2.1, s2.1.2.2]
  · rw [s8.2, s7.2]; simp only; rw [s3.2.2.1, s2.2]
    simp [exitLog, metaExited]

theorem enterState_ok (step : Micro) (s : StateDef) (rs rs' : RS σ ω) (sent : List Sent)
    (h : enterState env step s rs = (.ok sent, rs')) :
    rs'.st.config = enterPure rs.st.config s.name ∧ rs'.st.memory = rs.st.memory ∧
    rs'.st.initialized = rs.st.initialized ∧
    rs'.eff = rs.eff ++ enterLog env.ignoreContract step.event s := by
  unfold enterState at h
  obtain ⟨a1, r1, h1, h⟩ := bind_ok.mp h
  obtain ⟨a2, r2, h2, h⟩ := bind_ok.mp h
  obtain ⟨sent1, r3, h3, h⟩ := bind_ok.mp h
  obtain ⟨a4, r4, h4, h⟩ := bind_ok.mp h
  obtain ⟨a5, r5, h5, h⟩ := bind_ok.mp h
  rw [pure_ok] at h
  obtain ⟨_, rfl⟩ := h
  have s1 := evalContract_ok env _ _ _ rs r1 a1 h1
  rw [emit_ok] at h2; subst h2
  have s3 := runCode_ok env _ _ _ r3 sent1 h3
  rw [modify_ok] at h4; subst h4
  have s5 := raiseMeta_ok env _ _ r5 a5 h5
  refine ⟨?_, ?_, ?_, ?_⟩
  · rw [s5.1.1]; simp only [enterPure]; rw [s3.1.1]; simp only; rw [s1.1.1]
  · rw [s5.1.2.1]; simp only; rw [s3.1.2.1]; simp only; rw [s1.1.2.1]
  · rw [s5.1.2.2]; simp only; rw [s3.1.2.2]; simp only; rw [s1.1.2.2]
  · rw [s5.2]; simp only; rw [s3.2]; simp only; rw [s1.2]
    simp [enterLog, metaEntered]

theorem fireTransition_ok (step : Micro) (t : Trans) (rs rs' : RS σ ω) (sent : List Sent)
    (h : fireTransition env step t rs = (.ok sent, rs')) :
    SameCM rs rs' ∧ rs'.eff = rs.eff ++ transLog env.ignoreContract step.event t := by
  unfold fireTransition at h
  obtain ⟨a1, r1, h1, h⟩ := bind_ok.mp h
  obtain ⟨a2, r2, h2, h⟩ := bind_ok.mp h
  obtain ⟨a3, r3, h3, h⟩ := bind_ok.mp h
  obtain ⟨sent1, r4, h4, h⟩ := bind_ok.mp h
  obtain ⟨a5, r5, h5, h⟩ := bind_ok.mp h
  obtain ⟨a6, r6, h6, h⟩ := bind_ok.mp h
  obtain ⟨a7, r7, h7, h⟩ := bind_ok.mp h
  obtain ⟨a8, r8, h8, h⟩ := bind_ok.mp h
  rw [pure_ok] at h
  obtain ⟨_, rfl⟩ := h
  have s1 := evalContract_ok env _ _ _ rs r1 a1 h1
  have s2 := evalContract_ok env _ _ _ r1 r2 a2 h2
  rw [emit_ok] at h3; subst h3
  have s4 := runCode_ok env _ _ _ r4 sent1 h4
  have s5 := evalContract_ok env _ _ _ r4 r5 a5 h5
  have s6 := evalContract_ok env _ _ _ r5 r6 a6 h6
  rw [modify_ok] at h7; subst h7
  have s8 := raiseMeta_ok env _ _ r8 a8 h8
  refine ⟨⟨?_, ?_, ?_⟩, ?_⟩
  · rw [s8.1.1]; simp only; rw [s6.1.1, s5.1.1, s4.1.1]; simp only; rw [s2.1.1, s1.1.1]
  · rw [s8.1.2.1]; simp only; rw [s6.1.2.1, s5.1.2.1, s4.1.2.1]; simp only; rw [s2.1.2.1, s1.1.2.1]
  · rw [s8.1.2.2]; simp only; rw [s6.1.2.2, s5.1.2.2, s4.1.2.2]; simp only; rw [s2.1.2.2, s1.1.2.2]
  · rw [s8.2]; simp only; rw [s6.2, s5.2, s4.2]; simp only; rw [s2.2, s1.2]
    simp [transLog, metaProcessed]

/-! ### loops -/

theorem collect_exit_ok (cfg0 : List Name) (step : Micro) :
    ∀ (ss : List StateDef) (rs rs' : RS σ ω) (sent : List Sent),
      (∀ s ∈ ss, env.chart.stateD s.name = s) →
      collect (exitState env cfg0 step) ss rs = (.ok sent, rs') →
      (rs'.st.config, rs'.st.memory) = (ss.map (·.name)).foldl (exitPure env.chart cfg0) (rs.st.config, rs.st.memory) ∧
      rs'.st.initialized = rs.st.initialized ∧
      rs'.eff = rs.eff ++ ss.flatMap (exitLog env.ignoreContract step.event)
  | [], rs, rs', sent, _, h => by
    simp only [collect, pure_ok] at h
    obtain ⟨_, rfl⟩ := h
    simp
  | s :: ss, rs, rs', sent, hs, h => by
    unfold collect at h
    obtain ⟨a, r1, h1, h⟩ := bind_ok.mp h
    obtain ⟨b, r2, h2, h⟩ := bind_ok.mp h
    rw [pure_ok] at h
    obtain ⟨_, rfl⟩ := h
    have e1 := exitState_ok env cfg0 step s rs r1 a h1
    have ih := collect_exit_ok cfg0 step ss r1 r2 b (fun x hx => hs x (List.mem_cons_of_mem _ hx)) h2
    have hsd := hs s (List.mem_cons_self ..)
    refine ⟨?_, ih.2.1.trans e1.2.2.1, ?_⟩
    · rw [ih.1]
      simp only [List.map_cons, List.foldl_cons]
      congr 1
      simp only [exitPure, hsd, e1.1, e1.2.1]
    · rw [ih.2.2, e1.2.2.2]
      simp

theorem collect_enter_ok (step : Micro) :
    ∀ (ss : List StateDef) (rs rs' : RS σ ω) (sent : List Sent),
      collect (enterState env step) ss rs = (.ok sent, rs') →
      rs'.st.config = (ss.map (·.name)).foldl enterPure rs.st.config ∧
      rs'.st.memory = rs.st.memory ∧ rs'.st.initialized = rs.st.initialized ∧
      rs'.eff = rs.eff ++ ss.flatMap (enterLog env.ignoreContract step.event)
  | [], rs, rs', sent, h => by
    simp only [collect, pure_ok] at h
    obtain ⟨_, rfl⟩ := h
    simp
  | s :: ss, rs, rs', sent, h => by
    unfold collect at h
    obtain ⟨a, r1, h1, h⟩ := bind_ok.mp h
    obtain ⟨b, r2, h2, h⟩ := bind_ok.mp h
    rw [pure_ok] at h
    obtain ⟨_, rfl⟩ := h
    have e1 := enterState_ok env step s rs r1 a h1
    have ih := collect_enter_ok step ss r1 r2 b h2
    refine ⟨?_, ih.2.1.trans e1.2.1, ih.2.2.1.trans e1.2.2.1, ?_⟩
    · rw [ih.1, e1.1]; simp
    · rw [ih.2.2.2, e1.2.2.2]; simp

theorem raiseAll_ok : ∀ (sent : List Sent) (rs rs' : RS σ ω) (u : Unit),
    raiseAll env sent rs = (.ok u, rs') → SameCM rs rs' ∧ rs'.eff = rs.eff ++ sent.flatMap sentLog
  | [], rs, rs', u, h => by
    simp only [raiseAll, M.forEach, pure_ok] at h
    obtain ⟨_, rfl⟩ := h
    simp [SameCM.refl]
  | s :: ss, rs, rs', u, h => by
    simp only [raiseAll, M.forEach] at h
    obtain ⟨a, r1, h1, h⟩ := bind_ok.mp h
    obtain ⟨a2, r2, h2, h3⟩ := bind_ok.mp h1
    rw [modify_ok] at h3; subst h3
    have e1 := raiseSent_ok env s rs r2 a2 h2
    have ih := raiseAll_ok ss _ rs' u h
    refine ⟨?_, ?_⟩
    · exact SameCM.trans (b := { r2 with st := { r2.st with sentEvents := r2.st.sentEvents ++ [s] } })
        ⟨e1.1.1, e1.1.2.1, e1.1.2.2⟩ ih.1
    · rw [ih.2]; simp only; rw [e1.2]; simp

/-- **`_apply_step`, normal return**: the returned micro step is the given one completed with the
    sent events; configuration and memory evolve as `applyMicro` says; the log is `microLog`. -/
theorem applyStep_ok (step : Micro) (rs rs' : RS σ ω) (a : Micro)
    (h : applyStep env step rs = (.ok a, rs')) :
    a.event = step.event ∧ a.transition = step.transition ∧ a.entered = step.entered ∧
    a.exited = step.exited ∧
    (rs'.st.config, rs'.st.memory) = applyMicro env.chart (rs.st.config, rs.st.memory) step ∧
    rs'.st.initialized = rs.st.initialized ∧
    rs'.eff = rs.eff ++ microLog env.chart env.ignoreContract a := by
  unfold applyStep at h
  obtain ⟨entered, r1, h1, h⟩ := bind_ok.mp h
  obtain ⟨exited, r2, h2, h⟩ := bind_ok.mp h
  obtain ⟨st0, r3, h3, h⟩ := bind_ok.mp h
  obtain ⟨s1, r4, h4, h⟩ := bind_ok.mp h
  obtain ⟨s2, r5, h5, h⟩ := bind_ok.mp h
  obtain ⟨s3, r6, h6, h⟩ := bind_ok.mp h
  obtain ⟨u7, r7, h7, h⟩ := bind_ok.mp h
  rw [pure_ok] at h
  obtain ⟨rfl, rfl⟩ := h
  obtain ⟨rfl, hent, hentn, _⟩ := stateObjs_ok env _ rs r1 entered h1
  obtain ⟨rfl, hex, hexn, hexall⟩ := stateObjs_ok env _ _ r2 exited h2
  rw [get_ok] at h3; obtain ⟨rfl, rfl⟩ := h3
  have e4 := collect_exit_ok env rs.st.config step exited rs r4 s1 hexall h4
  have e5 : SameCM r4 r5 ∧ r5.eff = r4.eff ++ (match step.transition with
      | some t => transLog env.ignoreContract step.event t
      | none => []) := by
    cases ht : step.transition with
    | some t => simp only [ht] at h5; exact fireTransition_ok env step t r4 r5 s2 h5
    | none =>
      simp only [ht, pure_ok] at h5
      obtain ⟨_, rfl⟩ := h5
      simp [SameCM.refl]
  have e6 := collect_enter_ok env step entered r5 r6 s3 h6
  have e7 := raiseAll_ok env _ r6 r7 u7 h7
  refine ⟨rfl, rfl, rfl, rfl, ?_, ?_, ?_⟩
  · have hc : r7.st.config = r6.st.config := e7.1.1
    have hm : r7.st.memory = r6.st.memory := e7.1.2.1
    rw [hc, hm, e6.1, e6.2.1, e5.1.1, e5.1.2.1]
    simp only [applyMicro]
    rw [hentn]
    have := e4.1
    rw [hexn] at this
    rw [← this]
  · rw [e7.1.2.2, e6.2.2.1, e5.1.2.2, e4.2.1]
  · rw [e7.2, e6.2.2.2, e5.2, e4.2.2]
    simp only [microLog, List.append_assoc]
    rw [hex, hent, List.flatMap_map, List.flatMap_map]
    rfl

theorem applyMicro_shape (c : Chart) (cm : List Name × List (Name × List Name)) (a b : Micro)
    (h : a.sameShape b) : applyMicro c cm a = applyMicro c cm b := by
  unfold applyMicro
  rw [h.2.2.1, h.2.2.2]

theorem stabilize_ok : ∀ (n : Nat) (rs rs' : RS σ ω) (l : List Micro),
    stabilize env n rs = (.ok l, rs') →
    (rs'.st.config, rs'.st.memory) = applyMicros env.chart (rs.st.config, rs.st.memory) l ∧
    rs'.st.initialized = rs.st.initialized ∧
    rs'.eff = rs.eff ++ l.flatMap (microLog env.chart env.ignoreContract) ∧
    StabChain env.chart (rs.st.config, rs.st.memory) l
  | 0, rs, rs', l, h => by
    exact absurd h (by simp [stabilize, M.throw])
  | n+1, rs, rs', l, h => by
    unfold stabilize at h
    obtain ⟨st, r1, h1, h⟩ := bind_ok.mp h
    rw [get_ok] at h1; obtain ⟨rfl, rfl⟩ := h1
    cases hs : stabilizationStep env.chart rs.st.memory rs.st.config with
    | none =>
      simp only [hs, pure_ok] at h
      obtain ⟨rfl, rfl⟩ := h
      simp [applyMicros, StabChain, hs]
    | some s =>
      simp only [hs] at h
      obtain ⟨a, r2, h2, h⟩ := bind_ok.mp h
      obtain ⟨rest, r3, h3, h⟩ := bind_ok.mp h
      rw [pure_ok] at h
      obtain ⟨rfl, rfl⟩ := h
      have e2 := applyStep_ok env s rs r2 a h2
      have ih := stabilize_ok n r2 r3 rest h3
      have hshape : a.sameShape s := ⟨e2.1, e2.2.1, e2.2.2.1, e2.2.2.2.1⟩
      refine ⟨?_, ih.2.1.trans e2.2.2.2.2.2.1, ?_, ?_⟩
      · rw [ih.1, e2.2.2.2.2.1]
        simp only [applyMicros, List.foldl_cons]
        rw [applyMicro_shape _ _ a s hshape]
      · rw [ih.2.2.1, e2.2.2.2.2.2.2]; simp
      · refine ⟨s, hs, hshape, ?_⟩
        have := ih.2.2.2
        rw [e2.2.2.2.2.1] at this
        exact this

theorem applyAll_ok : ∀ (ps : List Micro) (rs rs' : RS σ ω) (l : List Micro),
    applyAll env ps rs = (.ok l, rs') →
    (rs'.st.config, rs'.st.memory) = applyMicros env.chart (rs.st.config, rs.st.memory) l ∧
    rs'.st.initialized = rs.st.initialized ∧
    rs'.eff = rs.eff ++ l.flatMap (microLog env.chart env.ignoreContract) ∧
    RunChain env.chart (rs.st.config, rs.st.memory) ps l
  | [], rs, rs', l, h => by
    simp only [applyAll, pure_ok] at h
    obtain ⟨rfl, rfl⟩ := h
    simp [applyMicros, RunChain]
  | p :: ps, rs, rs', l, h => by
    unfold applyAll at h
    obtain ⟨a, r1, h1, h⟩ := bind_ok.mp h
    obtain ⟨stab, r2, h2, h⟩ := bind_ok.mp h
    obtain ⟨more, r3, h3, h⟩ := bind_ok.mp h
    rw [pure_ok] at h
    obtain ⟨rfl, rfl⟩ := h
    have e1 := applyStep_ok env p rs r1 a h1
    have e2 := stabilize_ok env _ r1 r2 stab h2
    have ih := applyAll_ok ps r2 r3 more h3
    have hshape : a.sameShape p := ⟨e1.1, e1.2.1, e1.2.2.1, e1.2.2.2.1⟩
    have hcm1 : (r1.st.config, r1.st.memory) = applyMicro env.chart (rs.st.config, rs.st.memory) p := e1.2.2.2.2.1
    refine ⟨?_, (ih.2.1.trans e2.2.1).trans e1.2.2.2.2.2.1, ?_, ?_⟩
    · rw [ih.1, e2.1, hcm1]
      simp only [applyMicros, List.foldl_cons, List.foldl_append]
      rw [applyMicro_shape _ _ a p hshape]
    · rw [ih.2.2.1, e2.2.2.1, e1.2.2.2.2.2.2]; simp
    · refine ⟨a, stab, more, rfl, hshape, ?_, ?_⟩
      · rw [← hcm1]; exact e2.2.2.2
      · rw [← hcm1, ← e2.1]; exact ih.2.2.2

theorem logGuards_ok (st : IState σ) (ev : Option Event) : ∀ (calls : List (Trans × Bool)) (rs rs' : RS σ ω) (u : Unit),
    logGuards env st ev calls rs = (.ok u, rs') →
    rs' = { rs with eff := rs.eff ++ guardLog env.E st ev calls }
  | [], rs, rs', u, h => by
    simp only [logGuards, pure_ok] at h
    obtain ⟨_, rfl⟩ := h
    cases rs; simp [guardLog]
  | (t, exposed) :: rest, rs, rs', u, h => by
    unfold logGuards at h
    obtain ⟨a, r1, h1, h⟩ := bind_ok.mp h
    rw [emit_ok] at h1; subst h1
    cases hg : env.E.guard st t (if exposed then ev else none) with
    | none => simp only [hg] at h; exact absurd h (by simp [M.throw])
    | some b =>
      simp only [hg] at h
      have := logGuards_ok st ev rest _ rs' u h
      rw [this]
      simp [guardLog, hg]

/-- `_compute_steps`, normal return -/
theorem computeSteps_ok (rs rs' : RS σ ω) (l : List Micro)
    (h : computeSteps env rs = (.ok l, rs')) :
    rs'.st.config = rs.st.config ∧ rs'.st.memory = rs.st.memory ∧ rs'.st.initialized = true ∧
    (rs.st.initialized = false → l = [{ entered := env.chart.root.toList }] ∧ rs'.eff = rs.eff ∧
        rs'.st = { rs.st with initialized := true }) ∧
    (rs.st.initialized = true → planOf env.chart env.E rs.st = .ok l ∧ rs'.st = rs.st ∧
        rs'.eff = rs.eff ++ guardLog env.E rs.st (peekEvent rs.st) (selCalls env.chart env.E rs.st)) := by
  unfold computeSteps at h
  obtain ⟨st, r1, h1, h⟩ := bind_ok.mp h
  rw [get_ok] at h1; obtain ⟨rfl, rfl⟩ := h1
  cases hi : rs.st.initialized with
  | false =>
    simp only [hi, Bool.not_false, if_true] at h
    obtain ⟨a, r2, h2, h⟩ := bind_ok.mp h
    rw [modify_ok] at h2; subst h2
    rw [pure_ok] at h
    obtain ⟨rfl, rfl⟩ := h
    refine ⟨rfl, rfl, rfl, ?_, ?_⟩
    · intro _; exact ⟨rfl, rfl, rfl⟩
    · intro h; cases h
  | true =>
    simp only [hi, Bool.not_true, Bool.false_eq_true, if_false] at h
    obtain ⟨a, r2, h2, h⟩ := bind_ok.mp h
    have e2 := logGuards_ok env _ _ _ rs r2 a h2
    subst e2
    have key : planOf env.chart env.E rs.st = .ok l ∧ rs' = { rs with eff := rs.eff ++ guardLog env.E rs.st (peekEvent rs.st) (selCalls env.chart env.E rs.st) } := by
      unfold planOf selCalls
      simp only
      split at h
      · next hemp =>
        simp only [hemp, if_true]
        cases hp : peekEvent rs.st with
        | none =>
          simp only [hp] at h
          rw [pure_ok] at h
          obtain ⟨rfl, rfl⟩ := h
          exact ⟨rfl, rfl⟩
        | some e =>
          simp only [hp] at h
          rw [pure_ok] at h
          obtain ⟨rfl, rfl⟩ := h
          exact ⟨rfl, rfl⟩
      · next hemp =>
        simp only [hemp]
        cases hts : sortTransitions env.chart
            (selectTransitions env.chart rs.st.config (Option.map (fun x => x.name) (peekEvent rs.st))
              (guardOk env.E rs.st (peekEvent rs.st))).selected with
        | error e =>
          simp only [hts] at h
          cases e <;> exact absurd h (by simp [M.throw])
        | ok ts =>
          simp only [hts] at h
          rw [pure_ok] at h
          obtain ⟨rfl, rfl⟩ := h
          exact ⟨rfl, rfl⟩
    obtain ⟨k1, rfl⟩ := key
    refine ⟨rfl, rfl, hi, ?_, ?_⟩
    · intro h; cases h
    · intro _; exact ⟨k1, rfl, rfl⟩

theorem forEach_inv_ok (ev : Option Event) : ∀ (ns : List Name) (rs rs' : RS σ ω) (u : Unit),
    M.forEach (fun n => M.bind (stateObj env n) (fun s => evalContract env .inv (.state s) ev)) ns rs = (.ok u, rs') →
    SameCM rs rs' ∧
    rs'.eff = rs.eff ++ ns.flatMap (fun n => contractLog env.ignoreContract .inv (.state (env.chart.stateD n)) ev)
  | [], rs, rs', u, h => by
    simp only [M.forEach, pure_ok] at h
    obtain ⟨_, rfl⟩ := h
    simp [SameCM.refl]
  | n :: ns, rs, rs', u, h => by
    simp only [M.forEach] at h
    obtain ⟨a, r1, h1, h⟩ := bind_ok.mp h
    obtain ⟨s, r2, h2, h3⟩ := bind_ok.mp h1
    obtain ⟨rfl, hs⟩ := stateObj_ok env n rs r2 s h2
    have e3 := evalContract_ok env _ _ _ _ r1 a h3
    have ih := forEach_inv_ok ev ns r1 rs' u h
    have hsd := (stateD_of_stateFor env.chart n s hs).1
    refine ⟨e3.1.trans ih.1, ?_⟩
    rw [ih.2, e3.2]
    simp [hsd]

theorem finishStep_ok (ms : Option MacroStep) (rs rs' : RS σ ω) (r : Option MacroStep)
    (h : finishStep env ms rs = (.ok r, rs')) :
    r = ms ∧ SameCM rs rs' ∧
    rs'.eff = rs.eff ++ finishLog env.chart env.ignoreContract rs.st.config (ms.bind (·.event)) := by
  unfold finishStep at h
  obtain ⟨st, r1, h1, h⟩ := bind_ok.mp h
  rw [get_ok] at h1; obtain ⟨rfl, rfl⟩ := h1
  obtain ⟨a2, r2, h2, h⟩ := bind_ok.mp h
  obtain ⟨a3, r3, h3, h⟩ := bind_ok.mp h
  rw [pure_ok] at h
  obtain ⟨rfl, rfl⟩ := h
  have e2 := forEach_inv_ok env _ _ rs r2 a2 h2
  have e3 := raiseMeta_ok env _ r2 r3 a3 h3
  refine ⟨rfl, e2.1.trans e3.1, ?_⟩
  rw [e3.2, e2.2]
  simp [finishLog, metaEnded]

/-- the consumption of the triggering event and the application of the planned steps -/
theorem runSteps_ok (computed : List Micro) (rs rs' : RS σ ω) (r : Option MacroStep)
    (h : runSteps env computed rs = (.ok r, rs')) :
    (computed = [] → r = none ∧ rs' = rs) ∧
    (∀ first tail, computed = first :: tail →
      ∃ steps, r = some { time := rs'.st.time, steps := steps } ∧
        RunChain env.chart (rs.st.config, rs.st.memory) computed steps ∧
        (rs'.st.config, rs'.st.memory) = applyMicros env.chart (rs.st.config, rs.st.memory) steps ∧
        rs'.st.initialized = rs.st.initialized ∧
        rs'.eff = rs.eff ++ (if first.event.isSome then [.metaEv (metaConsumed (popEvent rs.st).1)] else []) ++
          steps.flatMap (microLog env.chart env.ignoreContract)) := by
  unfold runSteps at h
  cases computed with
  | nil =>
    simp only [pure_ok] at h
    obtain ⟨rfl, rfl⟩ := h
    exact ⟨fun _ => ⟨rfl, rfl⟩, fun _ _ hc => absurd hc (by simp)⟩
  | cons first tail =>
    simp only at h
    refine ⟨fun hc => absurd hc (by simp), ?_⟩
    intro f t hft
    obtain ⟨rfl, rfl⟩ := List.cons.inj hft
    obtain ⟨a1, r1, h1, h⟩ := bind_ok.mp h
    obtain ⟨executed, r2, h2, h⟩ := bind_ok.mp h
    obtain ⟨st, r3, h3, h⟩ := bind_ok.mp h
    rw [get_ok] at h3; obtain ⟨rfl, rfl⟩ := h3
    rw [pure_ok] at h
    obtain ⟨rfl, rfl⟩ := h
    have e1 : r1.st.config = rs.st.config ∧ r1.st.memory = rs.st.memory ∧ r1.st.initialized = rs.st.initialized ∧
        r1.eff = rs.eff ++ (if first.event.isSome then [.metaEv (metaConsumed (popEvent rs.st).1)] else []) := by
      split at h1
      · next hev =>
        obtain ⟨st, q1, g1, h1⟩ := bind_ok.mp h1
        rw [get_ok] at g1; obtain ⟨rfl, rfl⟩ := g1
        obtain ⟨a, q2, g2, h1⟩ := bind_ok.mp h1
        rw [modify_ok] at g2; subst g2
        have e := raiseMeta_ok env _ _ r1 a1 h1
        have pf := popEvent_frame rs.st
        refine ⟨e.1.1.trans pf.2.2.1, e.1.2.1.trans pf.2.2.2.1, e.1.2.2.trans pf.2.2.2.2, ?_⟩
        rw [e.2]; simp [hev, metaConsumed]
      · next hev =>
        rw [pure_ok] at h1
        obtain ⟨_, rfl⟩ := h1
        simp [hev]
    have e2 := applyAll_ok env _ r1 r2 executed h2
    refine ⟨executed, rfl, ?_, ?_, e2.2.1.trans e1.2.2.1, ?_⟩
    · rw [← e1.1, ← e1.2.1]; exact e2.2.2.2
    · rw [← e1.1, ← e1.2.1]; exact e2.1
    · rw [e2.2.2.1, e1.2.2.2]

/-- the guard evaluations `execute_once` logs when it plans in state `st` -/
def planGuards (st0init : Bool) (st : IState σ) : List Effect :=
  if st0init then guardLog env.E st (peekEvent st) (selCalls env.chart env.E st) else []

/-- **`execute_once`, normal return.**  There is a planning state `st1` (the interpreter after
    `step started` was delivered: same configuration and memory, time = the clock value) such that
    the planned steps are `planOf st1`, the returned macro step is their `RunChain`, configuration and
    memory are the trace applied to the old ones, and the effect log is exactly the documented
    sequence. -/
theorem executeOnce_ok (clock : Int) (rs rs' : RS σ ω) (r : Option MacroStep)
    (h : executeOnce env clock rs = (.ok r, rs')) :
    ∃ (st1 : IState σ) (computed : List Micro),
      st1.time = clock ∧ st1.config = rs.st.config ∧ st1.memory = rs.st.memory ∧
      st1.initialized = rs.st.initialized ∧
      (rs.st.initialized = false → computed = [{ entered := env.chart.root.toList }]) ∧
      (rs.st.initialized = true → planOf env.chart env.E st1 = .ok computed) ∧
      rs'.st.initialized = true ∧ rs'.st.time = clock ∧
      (computed = [] → r = none ∧ rs'.st.config = rs.st.config ∧ rs'.st.memory = rs.st.memory ∧
        rs'.eff = rs.eff ++ [.metaEv (metaStarted clock)] ++ planGuards env rs.st.initialized st1 ++
          finishLog env.chart env.ignoreContract rs.st.config none) ∧
      (∀ first tail, computed = first :: tail →
        ∃ steps, r = some { time := clock, steps := steps } ∧
          RunChain env.chart (rs.st.config, rs.st.memory) computed steps ∧
          (rs'.st.config, rs'.st.memory) = applyMicros env.chart (rs.st.config, rs.st.memory) steps ∧
          rs'.eff = rs.eff ++ [.metaEv (metaStarted clock)] ++ planGuards env rs.st.initialized st1 ++
            (if first.event.isSome then
               [.metaEv (metaConsumed (popEvent { st1 with initialized := true }).1)] else []) ++
            steps.flatMap (microLog env.chart env.ignoreContract) ++
            finishLog env.chart env.ignoreContract rs'.st.config
              ((some ({ time := clock, steps := steps } : MacroStep)).bind (·.event))) := by
  unfold executeOnce at h
  obtain ⟨a0, r0, h0, h⟩ := bind_ok.mp h
  rw [modify_ok] at h0; subst h0
  obtain ⟨a1, r1, h1, h⟩ := bind_ok.mp h
  obtain ⟨computed, r2, h2, h⟩ := bind_ok.mp h
  obtain ⟨ms, r3, h3, h4⟩ := bind_ok.mp h
  have e1 := raiseMeta_ok env _ _ r1 a1 h1
  have t1 := rt_raiseMeta env (metaStarted clock) { rs with st := { rs.st with time := clock, sentEvents := [] } }
  have t1' : r1.st.time = clock := by
    have := t1.1
    unfold metaStarted at this
    rw [h1] at this
    exact this
  have e2 := computeSteps_ok env r1 r2 computed h2
  have t2 : r2.st.time = clock := by
    have := (rt_computeSteps env r1).1; rw [h2] at this; exact this.trans t1'
  have e3 := runSteps_ok env computed r2 r3 ms h3
  have t3 : r3.st.time = clock := by
    have := (rt_runSteps env computed r2).1; rw [h3] at this; exact this.trans t2
  have e4 := finishStep_ok env ms r3 rs' r h4
  have t4 : rs'.st.time = clock := by
    have := (rt_finishStep env ms r3).1; rw [h4] at this; exact this.trans t3
  have hc1 : r1.st.config = rs.st.config := e1.1.1
  have hm1 : r1.st.memory = rs.st.memory := e1.1.2.1
  have hi1 : r1.st.initialized = rs.st.initialized := e1.1.2.2
  have heff1 : r1.eff = rs.eff ++ [.metaEv (metaStarted clock)] := by rw [e1.2]; rfl
  have hguards : r2.eff = r1.eff ++ planGuards env rs.st.initialized r1.st ∧
      (rs.st.initialized = true → r2.st = r1.st) ∧
      (rs.st.initialized = false → r2.st = { r1.st with initialized := true }) := by
    unfold planGuards
    cases hinit : rs.st.initialized with
    | false =>
      have := e2.2.2.2.1 (hi1.trans hinit)
      simp [this.2.1, this.2.2]
    | true =>
      have := e2.2.2.2.2 (hi1.trans hinit)
      simp [this.2.1, this.2.2]
  have hr2st : r2.st = { r1.st with initialized := true } := by
    cases hinit : rs.st.initialized with
    | false => exact hguards.2.2 hinit
    | true =>
      rw [hguards.2.1 hinit]
      have : r1.st.initialized = true := hi1.trans hinit
      cases hh : r1.st; simp_all
  refine ⟨r1.st, computed, t1', hc1, hm1, hi1, ?_, ?_, ?_, t4, ?_, ?_⟩
  · intro hinit; exact (e2.2.2.2.1 (hi1.trans hinit)).1
  · intro hinit; exact (e2.2.2.2.2 (hi1.trans hinit)).1
  · rw [e4.2.1.2.2]
    cases computed with
    | nil => rw [(e3.1 rfl).2]; exact e2.2.2.1
    | cons f t =>
      obtain ⟨steps, _, _, _, hi, _⟩ := e3.2 f t rfl
      rw [hi]; exact e2.2.2.1
  · intro hnil
    subst hnil
    obtain ⟨rfl, rfl⟩ := e3.1 rfl
    refine ⟨e4.1, ?_, ?_, ?_⟩
    · rw [e4.2.1.1, e2.1, hc1]
    · rw [e4.2.1.2.1, e2.2.1, hm1]
    · rw [e4.2.2, hguards.1, heff1]
      simp only [Option.bind, e2.1, hc1]
  · intro first tail hcomp
    obtain ⟨steps, hr, hchain, hcm, hi, heff⟩ := e3.2 first tail hcomp
    have htime : ms = some { time := clock, steps := steps } := by rw [hr, t3]
    refine ⟨steps, e4.1.trans htime, ?_, ?_, ?_⟩
    · rw [← hc1, ← hm1, ← e2.1, ← e2.2.1]; exact hchain
    · have hc4 : rs'.st.config = r3.st.config := e4.2.1.1
      have hm4 : rs'.st.memory = r3.st.memory := e4.2.1.2.1
      rw [hc4, hm4, hcm, e2.1, e2.2.1, hc1, hm1]
    · rw [e4.2.2, heff, hguards.1, heff1, htime, hr2st]
      have hc4 : rs'.st.config = r3.st.config := e4.2.1.1
      rw [hc4]

end Sismic
