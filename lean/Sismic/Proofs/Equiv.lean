import Sismic.Proofs.SelectPerm
import Sismic.Proofs.OkSpec
import Sismic.Proofs.Sim
/-!
# Sismic.Proofs.Equiv — C07: two interpreters whose statecharts differ in declaration order only
run in lock-step (relational Hoare logic `SimB`, both outcomes)
-/
namespace Sismic
open M

variable {σ ω : Type}

/-- two history memories with the same content (the order of their entries may differ) -/
def MemEq (m m' : List (Name × List Name)) : Prop :=
  ∀ k, m.find? (fun p => p.1 == k) = m'.find? (fun p => p.1 == k)

/-- same interpreter state, same outside world; the memories agree as maps; logs are not compared
    (guards may have been evaluated in another order) -/
def Rel (rs₁ rs₂ : RS σ ω) : Prop :=
  ∃ m e, rs₂ = { rs₁ with st := { rs₁.st with memory := m }, eff := e } ∧ MemEq rs₁.st.memory m

def StM (s₁ s₂ : IState σ) : Prop := ∃ m, s₂ = { s₁ with memory := m } ∧ MemEq s₁.memory m

/-- the two computations end the same way from related states: both return (related results,
    related states) or both raise the same exception -/
def SimB {α : Type} (Rv : α → α → Prop) (f₁ f₂ : M σ ω α) : Prop :=
  ∀ rs₁ rs₂, Rel rs₁ rs₂ →
    match f₁ rs₁, f₂ rs₂ with
    | (.ok a₁, r₁), (.ok a₂, r₂) => Rv a₁ a₂ ∧ Rel r₁ r₂
    | (.error e₁, _), (.error e₂, _) => e₁ = e₂
    | _, _ => False

theorem SimB.pure {α} (a : α) : SimB Eq (M.pure a : M σ ω α) (M.pure a) := fun _ _ h => ⟨rfl, h⟩

theorem SimB.throw {α} {Rv : α → α → Prop} (e : Err) : SimB Rv (M.throw e : M σ ω α) (M.throw e) :=
  fun _ _ _ => rfl

theorem SimB.bind {α β} {Rv : α → α → Prop} {Rw : β → β → Prop} {f₁ f₂ : M σ ω α} {g₁ g₂ : α → M σ ω β}
    (hf : SimB Rv f₁ f₂) (hg : ∀ a₁ a₂, Rv a₁ a₂ → SimB Rw (g₁ a₁) (g₂ a₂)) :
    SimB Rw (M.bind f₁ g₁) (M.bind f₂ g₂) := by
  intro rs₁ rs₂ hr
  have h1 := hf rs₁ rs₂ hr
  simp only [M.bind]
  obtain ⟨x₁, r₁, e1⟩ : ∃ x r, f₁ rs₁ = (x, r) := ⟨_, _, rfl⟩
  obtain ⟨x₂, r₂, e2⟩ : ∃ x r, f₂ rs₂ = (x, r) := ⟨_, _, rfl⟩
  simp only [e1, e2] at h1 ⊢
  cases x₁ with
  | error e1 =>
    cases x₂ with
    | error e2 => exact h1
    | ok a2 => exact h1.elim
  | ok a1 =>
    cases x₂ with
    | error e2 => exact h1.elim
    | ok a2 => exact hg _ _ h1.1 r₁ r₂ h1.2

theorem SimB.bindE {α β} {Rw : β → β → Prop} {f₁ f₂ : M σ ω α} {g₁ g₂ : α → M σ ω β}
    (hf : SimB Eq f₁ f₂) (hg : ∀ a, SimB Rw (g₁ a) (g₂ a)) : SimB Rw (M.bind f₁ g₁) (M.bind f₂ g₂) :=
  SimB.bind hf (fun a₁ a₂ e => e ▸ hg a₁)

theorem SimB.get : SimB StM (M.get : M σ ω _) M.get := by
  intro rs₁ rs₂ hr
  obtain ⟨m, e, rfl, hm⟩ := hr
  exact ⟨⟨m, rfl, hm⟩, m, e, rfl, hm⟩

/-- the logs are not compared -/
theorem SimB.emit (e₁ e₂ : Effect) : SimB Eq (M.emit e₁ : M σ ω Unit) (M.emit e₂) := by
  intro rs₁ rs₂ hr
  obtain ⟨m, e, rfl, hm⟩ := hr
  exact ⟨rfl, m, _, rfl, hm⟩

theorem SimB.modify (f₁ f₂ : IState σ → IState σ)
    (hf : ∀ s m, MemEq s.memory m → ∃ m', f₂ { s with memory := m } = { f₁ s with memory := m' } ∧ MemEq (f₁ s).memory m') :
    SimB Eq (M.modify f₁ : M σ ω Unit) (M.modify f₂) := by
  intro rs₁ rs₂ hr
  obtain ⟨m, e, rfl, hm⟩ := hr
  obtain ⟨m', h1, h2⟩ := hf rs₁.st m hm
  refine ⟨rfl, m', e, ?_, h2⟩
  simp only [M.modify, h1]

/-- a state change that neither reads nor writes the history memory -/
theorem SimB.modify' (f : IState σ → IState σ)
    (hf : ∀ s m, f { s with memory := m } = { f s with memory := m }) (hc : ∀ s, (f s).memory = s.memory) :
    SimB Eq (M.modify f : M σ ω Unit) (M.modify f) :=
  SimB.modify f f (fun s m hm => ⟨m, hf s m, by rw [hc]; exact hm⟩)

theorem SimB.forEach {γ} (f₁ f₂ : γ → M σ ω Unit) (hf : ∀ x, SimB Eq (f₁ x) (f₂ x)) :
    ∀ l : List γ, SimB Eq (M.forEach f₁ l) (M.forEach f₂ l)
  | [] => SimB.pure ()
  | x :: xs => SimB.bindE (hf x) (fun _ => SimB.forEach f₁ f₂ hf xs)

theorem SimB.ite {α} {Rv : α → α → Prop} (c : Bool) {f₁ f₂ g₁ g₂ : M σ ω α}
    (hf : SimB Rv f₁ f₂) (hg : SimB Rv g₁ g₂) : SimB Rv (if c then f₁ else g₁) (if c then f₂ else g₂) := by
  cases c
  · exact hg
  · exact hf

/-- the evaluator does not look at the interpreter's history memory -/
structure MemBlind (E : Evaluator σ) : Prop where
  guard : ∀ (s : IState σ) m, E.guard { s with memory := m } = E.guard s
  cond : ∀ (s : IState σ) m, E.cond { s with memory := m } = E.cond s
  exec : ∀ (s : IState σ) m, E.exec { s with memory := m } = E.exec s

end Sismic

namespace Sismic
open M

variable {σ ω : Type}

/-- the same interpreter on a statechart declared in another order -/
structure EnvPerm (env env' : Env σ ω) : Prop where
  chart : ChartPerm env.chart env'.chart
  E : env'.E = env.E
  ignoreContract : env'.ignoreContract = env.ignoreContract
  deliver : env'.deliver = env.deliver
  stabFuel : env'.stabFuel = env.stabFuel

variable {env env' : Env σ ω}

theorem foldl_extQ_mem (qs : List Event) : ∀ (st : IState σ) (m : List (Name × List Name)),
    qs.foldl extQStep { st with memory := m } = { qs.foldl extQStep st with memory := m } := by
  induction qs with
  | nil => intro st m; rfl
  | cons q qs ih =>
    intro st m
    simp only [List.foldl_cons]
    have : extQStep { st with memory := m } q = { extQStep st q with memory := m } := rfl
    rw [this]
    exact ih _ m

theorem foldl_extQ_mem' (qs : List Event) : ∀ (st : IState σ), (qs.foldl extQStep st).memory = st.memory := by
  induction qs with
  | nil => intro st; rfl
  | cons q qs ih => intro st; simp only [List.foldl_cons]; rw [ih]; rfl

theorem simb_callListener (h : EnvPerm env env') (m : Event) (l : Nat) :
    SimB Eq (callListener env m l) (callListener env' m l) := by
  intro rs₁ rs₂ hr
  obtain ⟨mm, e, rfl, hm⟩ := hr
  have e2 : callListener env' m l { rs₁ with st := { rs₁.st with memory := mm }, eff := e } =
      ((env.deliver l m rs₁.st.time rs₁.world).1,
       { rs₁ with st := { (env.deliver l m rs₁.st.time rs₁.world).2.2.foldl extQStep rs₁.st with memory := mm },
                  world := (env.deliver l m rs₁.st.time rs₁.world).2.1, eff := e }) := by
    rw [callListener_eq, h.deliver]
    simp only
    rw [foldl_extQ_mem (env.deliver l m rs₁.st.time rs₁.world).2.2 rs₁.st mm]
  rw [callListener_eq, e2]
  generalize env.deliver l m rs₁.st.time rs₁.world = D
  obtain ⟨res, w, qs⟩ := D
  cases res with
  | error err => rfl
  | ok u => exact ⟨rfl, mm, e, rfl, by simp only [foldl_extQ_mem']; exact hm⟩

theorem simb_raiseMeta (h : EnvPerm env env') (m : Event) : SimB Eq (raiseMeta env m) (raiseMeta env' m) := by
  unfold raiseMeta
  apply SimB.bindE (SimB.emit _ _); intro _
  apply SimB.bind SimB.get
  rintro a₁ a₂ ⟨mm, rfl, _⟩
  exact SimB.forEach _ _ (simb_callListener h m) _

theorem simb_queueEvent (i : Bool) (e : Event) : SimB Eq (queueEvent i e : M σ ω Unit) (queueEvent i e) := by
  unfold queueEvent
  apply SimB.modify'
  · intro s m; cases i <;> rfl
  · intro s; cases i <;> rfl

theorem simb_raiseSent (h : EnvPerm env env') (s : Sent) : SimB Eq (raiseSent env s) (raiseSent env' s) := by
  cases s with
  | notify m => exact simb_raiseMeta h m
  | internal e =>
    unfold raiseSent
    apply SimB.bindE (simb_queueEvent true e); intro _
    apply SimB.bindE (simb_raiseMeta h _); intro _
    split
    · exact simb_raiseMeta h _
    · exact SimB.pure ()

theorem simb_raiseAll (h : EnvPerm env env') (sent : List Sent) : SimB Eq (raiseAll env sent) (raiseAll env' sent) := by
  unfold raiseAll
  apply SimB.forEach
  intro s
  apply SimB.bindE (simb_raiseSent h s); intro _
  apply SimB.modify'
  · intro s m; rfl
  · intro s; rfl

theorem simb_evalConds (h : EnvPerm env env') (hE : MemBlind env.E) (kind : CondKind) (obj : Obj) (ev : Option Event) :
    ∀ (codes : List Code) (i : Nat), SimB Eq (evalConds env kind obj ev i codes) (evalConds env' kind obj ev i codes)
  | [], _ => SimB.pure ()
  | code :: rest, i => by
    unfold evalConds
    apply SimB.bind SimB.get
    rintro s₁ s₂ ⟨mm, rfl, _⟩
    rw [h.E, hE.cond s₁ mm]
    apply SimB.bindE (SimB.emit _ _); intro _
    split
    · exact SimB.throw _
    · exact SimB.throw _
    · exact simb_evalConds h hE kind obj ev rest (i + 1)

theorem simb_evalContract (h : EnvPerm env env') (hE : MemBlind env.E) (kind : CondKind) (obj : Obj) (ev : Option Event) :
    SimB Eq (evalContract env kind obj ev) (evalContract env' kind obj ev) := by
  unfold evalContract
  rw [h.ignoreContract, h.E]
  split
  · exact SimB.pure ()
  · apply SimB.bindE _ (fun _ => simb_evalConds h hE kind obj ev _ 0)
    split
    · apply SimB.modify'
      · intro s m; rfl
      · intro s; rfl
    · exact SimB.pure ()

theorem simb_stateObj (h : EnvPerm env env') (n : Name) : SimB Eq (stateObj env n) (stateObj env' n) := by
  unfold stateObj
  rw [h.chart.stateFor]
  split
  · exact SimB.pure _
  · exact SimB.throw _

theorem simb_stateObjs (h : EnvPerm env env') : ∀ ns : List Name, SimB Eq (stateObjs env ns) (stateObjs env' ns)
  | [] => SimB.pure _
  | n :: ns => by
    unfold stateObjs
    apply SimB.bindE (simb_stateObj h n); intro s
    apply SimB.bindE (simb_stateObjs h ns); intro ss
    exact SimB.pure _

theorem simb_runCode (h : EnvPerm env env') (hE : MemBlind env.E) (k : ExecKind) (ev : Option Event) :
    SimB Eq (runCode env k ev) (runCode env' k ev) := by
  unfold runCode
  apply SimB.bind SimB.get
  rintro s₁ s₂ ⟨mm, rfl, _⟩
  rw [h.E, hE.exec s₁ mm]
  apply SimB.bindE
  · apply SimB.modify'
    · intro s m; rfl
    · intro s; rfl
  intro _
  split
  · exact SimB.pure _
  · exact SimB.throw _

theorem simb_collect {γ : Type} (f₁ f₂ : γ → M σ ω (List Sent)) (hf : ∀ x, SimB Eq (f₁ x) (f₂ x)) :
    ∀ l : List γ, SimB Eq (collect f₁ l) (collect f₂ l)
  | [] => SimB.pure _
  | x :: xs => by
    unfold collect
    apply SimB.bindE (hf x); intro a
    apply SimB.bindE (simb_collect f₁ f₂ hf xs); intro b
    exact SimB.pure _

end Sismic

namespace Sismic
open M

variable {σ ω : Type} {env env' : Env σ ω}

/-- a child without a value to record leaves its record alone -/
theorem saveMem_miss (c : Chart) (cfg0 : List Name) (s : StateDef) (k : Name)
    (hk : ∀ a, memoryOf c cfg0 s k ≠ .ok (some a)) :
    ∀ (rest : List Name) (mem : List (Name × List Name)),
      memGet (saveMem c cfg0 s mem rest) k = memGet mem k
  | [], _ => rfl
  | ch :: rest, mem => by
    simp only [saveMem]
    split
    · next a ha =>
      have hne : ch ≠ k := fun e => hk a (e ▸ ha)
      rw [saveMem_miss c cfg0 s k hk rest _, memGet_assocSet_other ch k a hne]
    · exact saveMem_miss c cfg0 s k hk rest mem

/-- `saveMem` on permuted children lists, from memories with the same content -/
theorem saveMem_memEq {c c' : Chart} (h : ChartPerm c c') (hw : WFChart c) (cfg0 : List Name) (s : StateDef)
    {m m' : List (Name × List Name)} (hm : MemEq m m') {rest rest' : List Name} (hp : rest'.Perm rest) :
    MemEq (saveMem c cfg0 s m rest) (saveMem c' cfg0 s m' rest') := by
  intro k
  show memGet (saveMem c cfg0 s m rest) k = memGet (saveMem c' cfg0 s m' rest') k
  by_cases hin : k ∈ rest
  · cases hmo : memoryOf c cfg0 s k with
    | error e =>
      rw [saveMem_miss c cfg0 s k (by rw [hmo]; intro a; simp) rest m,
        saveMem_miss c' cfg0 s k (by rw [h.memoryOf hw, hmo]; intro a; simp) rest' m']
      exact hm k
    | ok o =>
      cases o with
      | none =>
        rw [saveMem_miss c cfg0 s k (by rw [hmo]; intro a; simp) rest m,
          saveMem_miss c' cfg0 s k (by rw [h.memoryOf hw, hmo]; intro a; simp) rest' m']
        exact hm k
      | some a =>
        rw [saveMem_hit c cfg0 s k a hmo rest m hin,
          saveMem_hit c' cfg0 s k a (by rw [h.memoryOf hw, hmo]) rest' m' (hp.mem_iff.mpr hin)]
  · rw [saveMem_other c cfg0 s k rest m hin,
      saveMem_other c' cfg0 s k rest' m' (fun e => hin (hp.mem_iff.mp e))]
    exact hm k

/-- the first failing `assert` of the history bookkeeping, if any -/
def firstMemErr (c : Chart) (cfg0 : List Name) (s : StateDef) : List Name → Option Err
  | [] => none
  | ch :: rest =>
    match memoryOf c cfg0 s ch with
    | .error e => some e
    | _ => firstMemErr c cfg0 s rest

theorem saveMemory_eq (env : Env σ ω) (cfg0 : List Name) (s : StateDef) :
    ∀ (rest : List Name) (rs : RS σ ω),
      (saveMemory env cfg0 s rest rs).1 = (match firstMemErr env.chart cfg0 s rest with
        | some e => .error e
        | none => .ok ()) ∧
      (firstMemErr env.chart cfg0 s rest = none →
        (saveMemory env cfg0 s rest rs).2 =
          { rs with st := { rs.st with memory := saveMem env.chart cfg0 s rs.st.memory rest } })
  | [], rs => ⟨rfl, fun _ => rfl⟩
  | ch :: rest, rs => by
    simp only [saveMemory, firstMemErr, saveMem]
    cases hm : memoryOf env.chart cfg0 s ch with
    | error e => exact ⟨rfl, fun hh => by simp at hh⟩
    | ok o =>
      cases o with
      | none => exact saveMemory_eq env cfg0 s rest rs
      | some a =>
        simp only [M.bind, M.modify]
        exact saveMemory_eq env cfg0 s rest _

theorem firstMemErr_none (c : Chart) (cfg0 : List Name) (s : StateDef) : ∀ l : List Name,
    firstMemErr c cfg0 s l = none ↔ ∀ ch ∈ l, ∀ e, memoryOf c cfg0 s ch ≠ .error e
  | [] => by simp [firstMemErr]
  | ch :: l => by
    simp only [firstMemErr]
    cases hm : memoryOf c cfg0 s ch with
    | error e =>
      simp only [reduceCtorEq, false_iff]
      intro hall
      exact hall ch List.mem_cons_self e hm
    | ok o =>
      simp only
      rw [firstMemErr_none c cfg0 s l]
      constructor
      · intro hall x hx e he
        rcases List.mem_cons.mp hx with rfl | hx
        · rw [hm] at he; cases he
        · exact hall x hx e he
      · intro hall x hx; exact hall x (List.mem_cons_of_mem _ hx)

theorem firstMemErr_assertion (c : Chart) (cfg0 : List Name) (s : StateDef) : ∀ (l : List Name) (e : Err),
    (∀ ch ∈ l, c.hasState ch = true) → firstMemErr c cfg0 s l = some e → e = .assertion
  | [], e, _, h => by simp [firstMemErr] at h
  | ch :: l, e, hl, h => by
    simp only [firstMemErr] at h
    cases hm : memoryOf c cfg0 s ch with
    | error e' =>
      rw [hm] at h
      simp only [Option.some.injEq] at h
      subst h
      obtain ⟨k, hk⟩ := kindOf_some_of_hasState c ch (hl ch List.mem_cons_self)
      unfold memoryOf at hm
      rw [hk] at hm
      split at hm <;> (try split at hm) <;> simp_all
    | ok o =>
      rw [hm] at h
      exact firstMemErr_assertion c cfg0 s l e (fun x hx => hl x (List.mem_cons_of_mem _ hx)) h

theorem firstMemErr_perm {c : Chart} (cfg0 : List Name) (s : StateDef)
    {rest rest' : List Name} (hp : rest'.Perm rest) (hst : ∀ ch ∈ rest, c.hasState ch = true) :
    firstMemErr c cfg0 s rest' = firstMemErr c cfg0 s rest := by
  have hst' : ∀ ch ∈ rest', c.hasState ch = true := fun ch hch => hst ch (hp.mem_iff.mp hch)
  cases h1 : firstMemErr c cfg0 s rest with
  | none =>
    rw [firstMemErr_none] at h1 ⊢
    exact fun ch hch => h1 ch (hp.mem_iff.mp hch)
  | some e =>
    cases h2 : firstMemErr c cfg0 s rest' with
    | none =>
      exfalso
      rw [firstMemErr_none] at h2
      have : firstMemErr c cfg0 s rest = none := (firstMemErr_none c cfg0 s rest).mpr (fun ch hch => h2 ch (hp.mem_iff.mpr hch))
      rw [this] at h1; cases h1
    | some e' =>
      rw [firstMemErr_assertion c cfg0 s rest e hst h1, firstMemErr_assertion c cfg0 s rest' e' hst' h2]

end Sismic

namespace Sismic
open M

variable {σ ω : Type} {env env' : Env σ ω}

theorem firstMemErr_chart {c c' : Chart} (h : ChartPerm c c') (hw : WFChart c) (cfg0 : List Name) (s : StateDef) :
    ∀ l : List Name, firstMemErr c' cfg0 s l = firstMemErr c cfg0 s l
  | [] => rfl
  | ch :: l => by simp only [firstMemErr, h.memoryOf hw, firstMemErr_chart h hw cfg0 s l]

theorem simb_saveMemory (h : EnvPerm env env') (hw : WFChart env.chart) (cfg0 : List Name) (s : StateDef) :
    SimB Eq (saveMemory env cfg0 s (env.chart.childrenFor s.name))
      (saveMemory env' cfg0 s (env'.chart.childrenFor s.name)) := by
  intro rs₁ rs₂ hr
  obtain ⟨mm, e, rfl, hm⟩ := hr
  have hst : ∀ ch ∈ env.chart.childrenFor s.name, env.chart.hasState ch = true :=
    fun ch hch => (hw.parentState ch s.name ((hw.children s.name ch).mp hch)).1
  have hp := h.chart.children s.name
  obtain ⟨a1, a2⟩ := saveMemory_eq env cfg0 s (env.chart.childrenFor s.name) rs₁
  obtain ⟨b1, b2⟩ := saveMemory_eq env' cfg0 s (env'.chart.childrenFor s.name)
    { rs₁ with st := { rs₁.st with memory := mm }, eff := e }
  rw [firstMemErr_chart h.chart hw, firstMemErr_perm cfg0 s hp hst] at b1 b2
  obtain ⟨x₁, r₁, e1⟩ : ∃ x r, saveMemory env cfg0 s (env.chart.childrenFor s.name) rs₁ = (x, r) := ⟨_, _, rfl⟩
  obtain ⟨x₂, r₂, e2⟩ : ∃ x r, saveMemory env' cfg0 s (env'.chart.childrenFor s.name)
      { rs₁ with st := { rs₁.st with memory := mm }, eff := e } = (x, r) := ⟨_, _, rfl⟩
  rw [e1] at a1 a2
  rw [e2] at b1 b2
  simp only [e1, e2]
  simp only at a1 a2 b1 b2
  cases hf : firstMemErr env.chart cfg0 s (env.chart.childrenFor s.name) with
  | some err =>
    rw [hf] at a1 b1
    simp only at a1 b1
    subst a1; subst b1
    rfl
  | none =>
    rw [hf] at a1 b1
    simp only at a1 b1
    subst a1; subst b1
    have a2' := a2 hf
    have b2' := b2 hf
    subst a2'; subst b2'
    exact ⟨trivial, _, e, rfl, saveMem_memEq h.chart hw cfg0 s hm hp⟩

theorem simb_exitState (h : EnvPerm env env') (hE : MemBlind env.E) (hw : WFChart env.chart)
    (cfg0 : List Name) (step : Micro) (s : StateDef) :
    SimB Eq (exitState env cfg0 step s) (exitState env' cfg0 step s) := by
  unfold exitState
  apply SimB.bindE (SimB.emit _ _); intro _
  apply SimB.bindE (simb_runCode h hE _ _); intro sent
  apply SimB.bindE (f₁ := if s.kind == .compound then saveMemory env cfg0 s (env.chart.childrenFor s.name) else M.pure ())
    (f₂ := if s.kind == .compound then saveMemory env' cfg0 s (env'.chart.childrenFor s.name) else M.pure ())
  · exact SimB.ite _ (simb_saveMemory h hw cfg0 s) (SimB.pure _)
  intro _
  apply SimB.bind SimB.get
  rintro st₁ st₂ ⟨mm, rfl, _⟩
  apply SimB.bindE (f₁ := if !st₁.config.contains s.name then M.throw .assertion else M.pure ())
  · simp only
    split
    · exact SimB.throw _
    · exact SimB.pure _
  intro _
  apply SimB.bindE (hf := by apply SimB.modify' <;> intros <;> rfl); intro _
  apply SimB.bindE (simb_evalContract h hE _ _ _); intro _
  apply SimB.bindE (simb_raiseMeta h _); intro _
  exact SimB.pure _

theorem simb_enterState (h : EnvPerm env env') (hE : MemBlind env.E) (step : Micro) (s : StateDef) :
    SimB Eq (enterState env step s) (enterState env' step s) := by
  unfold enterState
  apply SimB.bindE (simb_evalContract h hE _ _ _); intro _
  apply SimB.bindE (SimB.emit _ _); intro _
  apply SimB.bindE (simb_runCode h hE _ _); intro sent
  apply SimB.bindE (hf := by apply SimB.modify' <;> intros <;> rfl); intro _
  apply SimB.bindE (simb_raiseMeta h _); intro _
  exact SimB.pure _

theorem simb_fireTransition (h : EnvPerm env env') (hE : MemBlind env.E) (step : Micro) (t : Trans) :
    SimB Eq (fireTransition env step t) (fireTransition env' step t) := by
  unfold fireTransition
  apply SimB.bindE (simb_evalContract h hE _ _ _); intro _
  apply SimB.bindE (simb_evalContract h hE _ _ _); intro _
  apply SimB.bindE (SimB.emit _ _); intro _
  apply SimB.bindE (simb_runCode h hE _ _); intro sent
  apply SimB.bindE (simb_evalContract h hE _ _ _); intro _
  apply SimB.bindE (simb_evalContract h hE _ _ _); intro _
  apply SimB.bindE (hf := by apply SimB.modify' <;> intros <;> rfl); intro _
  apply SimB.bindE (simb_raiseMeta h _); intro _
  exact SimB.pure _

theorem simb_applyStep (h : EnvPerm env env') (hE : MemBlind env.E) (hw : WFChart env.chart) (step : Micro) :
    SimB Eq (applyStep env step) (applyStep env' step) := by
  unfold applyStep
  apply SimB.bindE (simb_stateObjs h _); intro entered
  apply SimB.bindE (simb_stateObjs h _); intro exited
  apply SimB.bind SimB.get
  rintro st₁ st₂ ⟨mm, rfl, _⟩
  apply SimB.bindE (simb_collect _ _ (simb_exitState h hE hw st₁.config step) exited); intro s1
  apply SimB.bindE (f₁ := match step.transition with
      | some t => fireTransition env step t
      | none => M.pure [])
  · cases step.transition with
    | some t => exact simb_fireTransition h hE step t
    | none => exact SimB.pure _
  intro s2
  apply SimB.bindE (simb_collect _ _ (simb_enterState h hE step) entered); intro s3
  apply SimB.bindE (simb_raiseAll h _); intro _
  exact SimB.pure _

end Sismic

namespace Sismic
open M

variable {σ ω : Type} {env env' : Env σ ω}

theorem leafStep_memEq (c : Chart) {m m' : List (Name × List Name)} (hm : MemEq m m') (leaf : Name) :
    leafStep c m' leaf = leafStep c m leaf := by
  simp only [leafStep, hm leaf]

theorem stabilizationStep_equiv {c c' : Chart} (h : ChartPerm c c') (hw : WFChart c)
    {m m' : List (Name × List Name)} (hm : MemEq m m') (cfg : List Name) :
    stabilizationStep c' m' cfg = stabilizationStep c m cfg := by
  rw [h.stabilizationStep hw]
  simp only [stabilizationStep]
  have : leafStep c m' = leafStep c m := funext (leafStep_memEq c hm)
  rw [this]

theorem simb_stabilize (h : EnvPerm env env') (hE : MemBlind env.E) (hw : WFChart env.chart) :
    ∀ n : Nat, SimB Eq (stabilize env n) (stabilize env' n)
  | 0 => SimB.throw _
  | n+1 => by
    unfold stabilize
    apply SimB.bind SimB.get
    rintro st₁ st₂ ⟨mm, rfl, hm⟩
    simp only
    rw [stabilizationStep_equiv h.chart hw hm]
    split
    · exact SimB.pure _
    · apply SimB.bindE (simb_applyStep h hE hw _); intro a
      apply SimB.bindE (simb_stabilize h hE hw n); intro rest
      exact SimB.pure _

theorem simb_applyAll (h : EnvPerm env env') (hE : MemBlind env.E) (hw : WFChart env.chart) :
    ∀ steps : List Micro, SimB Eq (applyAll env steps) (applyAll env' steps)
  | [] => SimB.pure _
  | s :: rest => by
    unfold applyAll
    apply SimB.bindE (simb_applyStep h hE hw s); intro a
    rw [h.stabFuel]
    apply SimB.bindE (simb_stabilize h hE hw _); intro stab
    apply SimB.bindE (simb_applyAll h hE hw rest); intro more
    exact SimB.pure _

/-- what `logGuards` does: it only appends to the log, and fails iff some guard raises -/
theorem logGuards_spec (env : Env σ ω) (st : IState σ) (ev : Option Event) :
    ∀ (calls : List (Trans × Bool)) (rs : RS σ ω),
      (logGuards env st ev calls rs).1 =
        (if calls.all (fun p => (env.E.guard st p.1 (if p.2 then ev else none)).isSome) then .ok () else .error .codeError) ∧
      (logGuards env st ev calls rs).2.st = rs.st ∧ (logGuards env st ev calls rs).2.world = rs.world
  | [], rs => ⟨rfl, rfl, rfl⟩
  | (t, exposed) :: rest, rs => by
    obtain ⟨g, hg⟩ : ∃ g, env.E.guard st t (if exposed then ev else none) = g := ⟨_, rfl⟩
    simp only [logGuards, M.bind, M.emit, List.all_cons, hg]
    cases g with
    | none => exact ⟨by simp [M.throw], rfl, rfl⟩
    | some b =>
      simp only [Option.isSome_some, Bool.true_and]
      exact logGuards_spec env st ev rest _

theorem all_perm {α} (p : α → Bool) {l l' : List α} (h : l'.Perm l) : l'.all p = l.all p := by
  rw [Bool.eq_iff_iff]
  simp only [List.all_eq_true]
  exact ⟨fun hh x hx => hh x (h.mem_iff.mpr hx), fun hh x hx => hh x (h.mem_iff.mp hx)⟩

theorem simb_logGuards (h : EnvPerm env env') (hE : MemBlind env.E) (st₁ : IState σ) (mm : List (Name × List Name))
    (ev : Option Event) {calls calls' : List (Trans × Bool)} (hp : calls'.Perm calls) :
    SimB Eq (logGuards env st₁ ev calls) (logGuards env' { st₁ with memory := mm } ev calls') := by
  intro rs₁ rs₂ hr
  obtain ⟨m, e, rfl, hm⟩ := hr
  obtain ⟨a1, a2, a3⟩ := logGuards_spec env st₁ ev calls rs₁
  obtain ⟨b1, b2, b3⟩ := logGuards_spec env' { st₁ with memory := mm } ev calls'
    { rs₁ with st := { rs₁.st with memory := m }, eff := e }
  rw [h.E, hE.guard st₁ mm, all_perm _ hp] at b1
  obtain ⟨x₁, r₁, e1⟩ : ∃ x r, logGuards env st₁ ev calls rs₁ = (x, r) := ⟨_, _, rfl⟩
  obtain ⟨x₂, r₂, e2⟩ : ∃ x r, logGuards env' { st₁ with memory := mm } ev calls'
      { rs₁ with st := { rs₁.st with memory := m }, eff := e } = (x, r) := ⟨_, _, rfl⟩
  rw [e1] at a1 a2 a3
  rw [e2] at b1 b2 b3
  simp only [e1, e2]
  simp only at a1 a2 a3 b1 b2 b3
  cases hall : calls.all (fun p => (env.E.guard st₁ p.1 (if p.2 then ev else none)).isSome) with
  | false =>
    rw [hall] at a1 b1
    simp only [Bool.false_eq_true, if_false] at a1 b1
    subst a1; subst b1
    rfl
  | true =>
    rw [hall] at a1 b1
    simp only [if_true] at a1 b1
    subst a1; subst b1
    obtain ⟨s1, w1, f1⟩ := r₁
    obtain ⟨s2, w2, f2⟩ := r₂
    simp only at a2 a3 b2 b3
    subst a2; subst a3; subst b2; subst b3
    exact ⟨trivial, m, f2, rfl, hm⟩

end Sismic

namespace Sismic
open M

variable {σ ω : Type} {env env' : Env σ ω}

theorem guardOk_memBlind (hE : MemBlind env.E) (st₁ : IState σ) (mm : List (Name × List Name)) (ev : Option Event) :
    guardOk env.E { st₁ with memory := mm } ev = guardOk env.E st₁ ev := by
  funext t exposed
  simp only [guardOk, hE.guard st₁ mm]

theorem createSteps_equiv {c c' : Chart} (h : ChartPerm c c') (hw : WFChart c) (cfg : List Name)
    (ev : Option Event) (ts : List Trans) : createSteps c' cfg ev ts = createSteps c cfg ev ts := by
  simp only [createSteps]
  apply List.map_congr_left
  intro t _
  exact h.createStep hw cfg ev t

theorem simb_computeSteps (h : EnvPerm env env') (hE : MemBlind env.E) (hw : WFChart env.chart) :
    SimB Eq (computeSteps env) (computeSteps env') := by
  unfold computeSteps
  apply SimB.bind SimB.get
  rintro st₁ st₂ ⟨mm, rfl, _⟩
  have hp : peekEvent { st₁ with memory := mm } = peekEvent st₁ := rfl
  simp only [hp, h.E, guardOk_memBlind hE st₁ mm]
  split
  · apply SimB.bindE (hf := by apply SimB.modify' <;> intros <;> rfl); intro _
    rw [h.chart.root]
    exact SimB.pure _
  · obtain ⟨hsel, hcalls⟩ := selectTransitions_perm h.chart hw.tree st₁.config
      ((peekEvent st₁).map (·.name)) (guardOk env.E st₁ (peekEvent st₁))
    apply SimB.bindE (simb_logGuards h hE st₁ mm _ hcalls); intro _
    have hemp : (selectTransitions env'.chart st₁.config ((peekEvent st₁).map (·.name)) (guardOk env.E st₁ (peekEvent st₁))).selected.isEmpty =
        (selectTransitions env.chart st₁.config ((peekEvent st₁).map (·.name)) (guardOk env.E st₁ (peekEvent st₁))).selected.isEmpty := by
      rw [Bool.eq_iff_iff]
      simp only [List.isEmpty_iff]
      constructor
      · intro e; rw [e] at hsel; exact hsel.symm.eq_nil
      · intro e; rw [e] at hsel; exact hsel.eq_nil
    rw [hemp]
    split
    · split
      · exact SimB.pure _
      · exact SimB.pure _
    · rw [h.chart.sortTransitions hw hsel]
      split
      · exact SimB.throw _
      · exact SimB.throw _
      · rw [createSteps_equiv h.chart hw]
        exact SimB.pure _

theorem simb_finishStep (h : EnvPerm env env') (hE : MemBlind env.E) (ms : Option MacroStep) :
    SimB Eq (finishStep env ms) (finishStep env' ms) := by
  unfold finishStep
  apply SimB.bind SimB.get
  rintro st₁ st₂ ⟨mm, rfl, _⟩
  have hs : env'.chart.sortConfig st₁.config = env.chart.sortConfig st₁.config := by
    simp only [Chart.sortConfig, h.chart.leDepthName]
  simp only [hs]
  apply SimB.bindE (f₁ := M.forEach (fun n =>
      M.bind (stateObj env n) (fun s => evalContract env .inv (.state s) (ms.bind (·.event))))
    (env.chart.sortConfig st₁.config))
  · apply SimB.forEach
    intro n
    apply SimB.bindE (simb_stateObj h n); intro s
    exact simb_evalContract h hE _ _ _
  intro _
  apply SimB.bindE (simb_raiseMeta h _); intro _
  exact SimB.pure _

theorem popEvent_mem (st : IState σ) (m : List (Name × List Name)) :
    popEvent { st with memory := m } = ((popEvent st).1, { (popEvent st).2 with memory := m }) := by
  obtain ⟨i, t, mem, c, et, it, se, iq, eq, ls, cx⟩ := st
  cases iq with
  | nil =>
    cases eq with
    | nil => rfl
    | cons p r =>
      obtain ⟨d', e'⟩ := p
      simp only [popEvent]
      split <;> rfl
  | cons p r =>
    obtain ⟨d, e⟩ := p
    simp only [popEvent]
    split
    · rfl
    · cases eq with
      | nil => rfl
      | cons p' r' =>
        obtain ⟨d', e'⟩ := p'
        simp only
        split <;> rfl

theorem popEvent_mem' (st : IState σ) : (popEvent st).2.memory = st.memory := by
  obtain ⟨i, t, mem, c, et, it, se, iq, eq, ls, cx⟩ := st
  cases iq with
  | nil =>
    cases eq with
    | nil => rfl
    | cons p r =>
      obtain ⟨d', e'⟩ := p
      simp only [popEvent]
      split <;> rfl
  | cons p r =>
    obtain ⟨d, e⟩ := p
    simp only [popEvent]
    split
    · rfl
    · cases eq with
      | nil => rfl
      | cons p' r' =>
        obtain ⟨d', e'⟩ := p'
        simp only
        split <;> rfl

theorem simb_runSteps (h : EnvPerm env env') (hE : MemBlind env.E) (hw : WFChart env.chart) (computed : List Micro) :
    SimB Eq (runSteps env computed) (runSteps env' computed) := by
  unfold runSteps
  cases computed with
  | nil => exact SimB.pure _
  | cons first rest =>
    simp only
    apply SimB.bindE (f₁ := if first.event.isSome then
              M.bind M.get (fun st =>
                M.bind (M.modify (fun st' => (popEvent st').2)) (fun _ =>
                  raiseMeta env { name := "event consumed", data := [("event", optEventVal (popEvent st).1)] }))
            else M.pure ())
    · split
      · apply SimB.bind SimB.get
        rintro st₁ st₂ ⟨mm, rfl, _⟩
        have hp1 : (popEvent { st₁ with memory := mm }).1 = (popEvent st₁).1 := by rw [popEvent_mem]
        simp only [hp1]
        apply SimB.bindE
        · apply SimB.modify'
          · intro s y; rw [popEvent_mem]
          · intro s; exact popEvent_mem' s
        intro _
        exact simb_raiseMeta h _
      · exact SimB.pure _
    intro _
    apply SimB.bindE (simb_applyAll h hE hw _); intro executed
    apply SimB.bind SimB.get
    rintro st₁ st₂ ⟨mm, rfl, _⟩
    exact SimB.pure _

/-- **`execute_once` does not depend on the declaration order**: from related states the two
    interpreters both return the same macro step (or `None`) and reach related states, or both raise
    the same exception. -/
theorem simb_executeOnce (h : EnvPerm env env') (hE : MemBlind env.E) (hw : WFChart env.chart) (clock : Int) :
    SimB Eq (executeOnce env clock) (executeOnce env' clock) := by
  unfold executeOnce
  apply SimB.bindE (hf := by apply SimB.modify' <;> intros <;> rfl); intro _
  apply SimB.bindE (simb_raiseMeta h _); intro _
  apply SimB.bindE (simb_computeSteps h hE hw); intro computed
  apply SimB.bindE (simb_runSteps h hE hw computed); intro ms
  exact simb_finishStep h hE ms

end Sismic

namespace Sismic
variable {σ ω : Type}

/-- `SimB`, as a disjunction -/
theorem SimB.cases {α} {Rv : α → α → Prop} {f₁ f₂ : M σ ω α} (h : SimB Rv f₁ f₂) (rs₁ rs₂ : RS σ ω)
    (hr : Rel rs₁ rs₂) :
    (∃ a₁ a₂ r₁ r₂, f₁ rs₁ = (.ok a₁, r₁) ∧ f₂ rs₂ = (.ok a₂, r₂) ∧ Rv a₁ a₂ ∧ Rel r₁ r₂) ∨
    (∃ e r₁ r₂, f₁ rs₁ = (.error e, r₁) ∧ f₂ rs₂ = (.error e, r₂)) := by
  have := h rs₁ rs₂ hr
  obtain ⟨x₁, r₁, e1⟩ : ∃ x r, f₁ rs₁ = (x, r) := ⟨_, _, rfl⟩
  obtain ⟨x₂, r₂, e2⟩ : ∃ x r, f₂ rs₂ = (x, r) := ⟨_, _, rfl⟩
  simp only [e1, e2] at this ⊢
  cases x₁ with
  | error a =>
    cases x₂ with
    | error b => simp only at this; subst this; exact Or.inr ⟨a, r₁, r₂, rfl, rfl⟩
    | ok b => exact this.elim
  | ok a =>
    cases x₂ with
    | error b => exact this.elim
    | ok b => exact Or.inl ⟨a, b, r₁, r₂, rfl, rfl, this.1, this.2⟩

end Sismic
