import Sismic.Proofs.RoundTripRun
/-!
# Sismic.Proofs.PyRename — the model of `PythonEvaluator` cannot tell state names apart

unless the code asks for them: `active(...)` is the only thing exposed to code which depends on the
names of the states.  For code that never calls `active`, what is evaluated and executed does not
depend on the configuration at all (`evalExpr_config`, `execStmts_config`); the entry and idle
times and the `__old__` store are looked up under the relabelled keys.  Hence an instance of `EnvR`
for the Python evaluator and *every* admissible relabelling (`pyEnvR_rename`).
-/
namespace Sismic

mutual
def Expr.noActive : Expr → Bool
  | .const _ => true
  | .name _ => true
  | .binop _ l r => l.noActive && r.noActive
  | .and es => noActiveL es
  | .or es => noActiveL es
  | .not e => e.noActive
  | .neg e => e.noActive
  | .cmp l rest => l.noActive && noActiveC rest
  | .attr e _ => e.noActive
  | .call f args kw => f != "active" && noActiveL args && noActiveK kw
  | .ite c t e => c.noActive && t.noActive && e.noActive
def noActiveL : List Expr → Bool
  | [] => true
  | e :: es => e.noActive && noActiveL es
def noActiveC : List (CmpOp × Expr) → Bool
  | [] => true
  | (_, e) :: r => e.noActive && noActiveC r
def noActiveK : List (String × Expr) → Bool
  | [] => true
  | (_, e) :: r => e.noActive && noActiveK r
end

mutual
def Stmt.noActive : Stmt → Bool
  | .assign _ e => e.noActive
  | .aug _ _ e => e.noActive
  | .expr e => e.noActive
  | .pass => true
  | .ite c t e => c.noActive && noActiveS t && noActiveS e
def noActiveS : List Stmt → Bool
  | [] => true
  | s :: r => s.noActive && noActiveS r
end

/-- the code never calls `active` -/
def Code.noActive (c : Code) : Bool :=
  noActiveS c.body && (match c.expr with | some e => e.noActive | none => true)

theorem lookupName_config (env : PyEnv) (cfg : List Name) (st : PySt) (n : String) :
    lookupName { env with config := cfg } st n = lookupName env st n := rfl

theorem callFn_config (env : PyEnv) (cfg : List Name) (st : PySt) (f : String) (as : List Val)
    (kws : List (String × Val)) (hf : f ≠ "active") :
    callFn { env with config := cfg } st f as kws = callFn env st f as kws := by
  unfold callFn
  split <;> simp_all

theorem eval_config (env : PyEnv) (cfg : List Name) :
    (∀ st e, e.noActive = true → evalExpr { env with config := cfg } st e = evalExpr env st e) ∧
    (∀ st k, noActiveK k = true → evalKw { env with config := cfg } st k = evalKw env st k) ∧
    (∀ st l, noActiveL l = true → evalArgs { env with config := cfg } st l = evalArgs env st l) ∧
    (∀ st a r, noActiveC r = true → evalCmp { env with config := cfg } st a r = evalCmp env st a r) ∧
    (∀ st l, noActiveL l = true → evalOr { env with config := cfg } st l = evalOr env st l) ∧
    (∀ st l, noActiveL l = true → evalAnd { env with config := cfg } st l = evalAnd env st l) := by
  apply evalExpr.mutual_induct env
    (motive_1 := fun st e => e.noActive = true → evalExpr { env with config := cfg } st e = evalExpr env st e)
    (motive_2 := fun st k => noActiveK k = true → evalKw { env with config := cfg } st k = evalKw env st k)
    (motive_3 := fun st l => noActiveL l = true → evalArgs { env with config := cfg } st l = evalArgs env st l)
    (motive_4 := fun st a r => noActiveC r = true → evalCmp { env with config := cfg } st a r = evalCmp env st a r)
    (motive_5 := fun st l => noActiveL l = true → evalOr { env with config := cfg } st l = evalOr env st l)
    (motive_6 := fun st l => noActiveL l = true → evalAnd { env with config := cfg } st l = evalAnd env st l)
  all_goals (
    intros
    simp_all [evalExpr, evalAnd, evalOr, evalCmp, evalArgs, evalKw, Expr.noActive, noActiveL, noActiveC, noActiveK,
      lookupName_config, callFn_config])

theorem exec_config (env : PyEnv) (cfg : List Name) :
    (∀ st s, s.noActive = true → execStmt { env with config := cfg } st s = execStmt env st s) ∧
    (∀ st l, noActiveS l = true → execStmts { env with config := cfg } st l = execStmts env st l) := by
  obtain ⟨he, _⟩ := eval_config env cfg
  apply execStmt.mutual_induct env
    (motive_1 := fun st s => s.noActive = true → execStmt { env with config := cfg } st s = execStmt env st s)
    (motive_2 := fun st l => noActiveS l = true → execStmts { env with config := cfg } st l = execStmts env st l)
  all_goals (
    intros
    simp_all [execStmt, execStmts, Stmt.noActive, noActiveS, lookupName_config])

theorem pyEval_config (env : PyEnv) (cfg : List Name) (ctx ctx' : PyCtx) (code : Code) (hv : ctx'.vars = ctx.vars)
    (hna : code.noActive = true) : pyEval { env with config := cfg } ctx' code = pyEval env ctx code := by
  unfold pyEval
  rw [hv]
  split
  · rfl
  · cases he : code.expr with
    | none => rfl
    | some e =>
      have : e.noActive = true := by
        simp only [Code.noActive, he, Bool.and_eq_true] at hna
        exact hna.2
      simp only [(eval_config env cfg).1 _ e this]

theorem pyEval_config' (t : Int) (cfg cfg' : List Name) (event : Option (Option Event)) (old : Option Val)
    (entryT idleT : Option (Option Int)) (sn : Option (List String)) (rc : Option (Option String)) (cs : Bool)
    (ctx ctx' : PyCtx) (code : Code) (hv : ctx'.vars = ctx.vars) (hna : code.noActive = true) :
    pyEval ⟨t, cfg', event, old, entryT, idleT, sn, rc, cs⟩ ctx' code =
      pyEval ⟨t, cfg, event, old, entryT, idleT, sn, rc, cs⟩ ctx code :=
  pyEval_config ⟨t, cfg, event, old, entryT, idleT, sn, rc, cs⟩ cfg' ctx ctx' code hv hna

/-! ### the statechart's code never calls `active` -/

structure Chart.NoActive (c : Chart) : Prop where
  guard : ∀ t ∈ c.transitions, ∀ g, t.guard = some g → g.noActive = true
  action : ∀ t ∈ c.transitions, ∀ a, t.action = some a → a.noActive = true
  onEntry : ∀ s ∈ c.states, ∀ a, s.onEntry = some a → a.noActive = true
  onExit : ∀ s ∈ c.states, ∀ a, s.onExit = some a → a.noActive = true
  conds : ∀ obj, ObjOf c obj → ∀ k, ∀ code ∈ obj.conds k, code.noActive = true

/-! ### looking up under relabelled keys -/

theorem assocGet_renKeys {ν : Type} {ρ : Name → Name} {S : Name → Prop} (hρ : RenOK S ρ) (k : Name) (hk : S k) :
    ∀ (l : List (Name × ν)), (∀ p ∈ l, S p.1) → assocGet (ρ k) (renKeys ρ l) = assocGet k l
  | [], _ => rfl
  | (k', v) :: r, hl => by
    have hk' : S k' := hl (k', v) (by simp)
    have ih := assocGet_renKeys hρ k hk r (fun p hp => hl p (by simp [hp]))
    simp only [assocGet, renKeys, List.map_cons, List.find?_cons, hρ.beq k' k hk' hk] at ih ⊢
    cases k' == k with
    | true => rfl
    | false => exact ih

/-- the keys of the `__old__` store that matter -/
def InDomS (S : Name → Prop) (c : Chart) : ObjId → Prop
  | .state n => S n
  | .trans i => i ∈ c.transitions.map (·.id)

/-- evaluator states of the two runs: same variables; the `__old__` store of the second is that of
    the first under the relabelled keys -/
def PyRen (ρ : Name → Name) (ι : Nat → Nat) (S : Name → Prop) (c : Chart) (a a' : PyCtx) : Prop :=
  a'.vars = a.vars ∧ a'.unsupported = a.unsupported ∧
    ∀ o, InDomS S c o → assocGet (o.ren ρ ι) a'.old = assocGet o a.old

theorem objId_ren_inj' {ρ : Name → Name} {S : Name → Prop} (hρ : RenOK S ρ) (ι : Nat → Nat) (c : Chart)
    (hinj : ∀ i j, i ∈ c.transitions.map (·.id) → j ∈ c.transitions.map (·.id) → ι i = ι j → i = j)
    (o o' : ObjId) (ho : InDomS S c o) (ho' : InDomS S c o') (h : o.ren ρ ι = o'.ren ρ ι) : o = o' := by
  cases o with
  | state n =>
    cases o' with
    | state n' =>
      simp only [ObjId.ren, ObjId.state.injEq] at h
      rw [hρ.inj n n' ho ho' h]
    | trans j => simp [ObjId.ren] at h
  | trans i =>
    cases o' with
    | state n' => simp [ObjId.ren] at h
    | trans j =>
      simp only [ObjId.ren, ObjId.trans.injEq] at h
      rw [hinj i j ho ho' h]

theorem objOf_inDomS {S : Name → Prop} (c : Chart) (hn : NamesIn S c) (obj : Obj) (h : ObjOf c obj) :
    InDomS S c obj.id := by
  cases obj with
  | state s => exact hn.states s h
  | trans t => exact List.mem_map.2 ⟨t, h, rfl⟩

/-- running a piece of code that never calls `active`: the configuration does not matter -/
theorem execBody_config (t : Int) (cfg cfg' : List Name) (event : Option (Option Event)) (vars : List (String × Val))
    (body : List Stmt) (hna : noActiveS body = true) :
    execStmts { time := t, config := cfg', event := event, canSend := true } { vars := vars } body =
      execStmts { time := t, config := cfg, event := event, canSend := true } { vars := vars } body :=
  (exec_config { time := t, config := cfg, event := event, canSend := true } cfg').2 _ body hna

theorem Code.noActive_body (c : Code) (h : c.noActive = true) : noActiveS c.body = true := by
  simp only [Code.noActive, Bool.and_eq_true] at h
  exact h.1

variable {ω : Type}

/-- **The two runs are related** (`EnvR` for the modelled `PythonEvaluator` and any admissible
    relabelling): the statechart relabelled by `ρ` / `ι`, the Python evaluator on both sides, listeners
    that cannot tell the names apart — provided that no code of the statechart calls `active`. -/
theorem pyEnvR_rename {ρ : Name → Name} (ι : Nat → Nat) {S : Name → Prop} (env env' : Env PyCtx ω)
    (hok : RenOK S ρ) (hren : IsRen ρ ι env.chart env'.chart) (hnames : NamesIn S env.chart)
    (hinit : ∀ s ∈ env.chart.states, ∀ i, s.initial = some i → S i)
    (hinj : ∀ i j, i ∈ env.chart.transitions.map (·.id) → j ∈ env.chart.transitions.map (·.id) → ι i = ι j → i = j)
    (hna : env.chart.NoActive)
    (hE : env.E = pyEvaluator) (hE' : env'.E = pyEvaluator) (hi : env'.ignoreContract = env.ignoreContract)
    (hf : env'.stabFuel = env.stabFuel)
    (hd : ∀ l m m' t w, MetaR ρ m m' → env'.deliver l m' t w = env.deliver l m t w) :
    EnvR ρ ι (PyRen ρ ι S env.chart) S env env' where
  ok := hok
  ren := hren
  names := hnames
  initial := hinit
  ignore := hi
  fuel := hf
  guard := by
    intro st st' t ev h1 hg hs hm
    rw [hE, hE']
    show pyGuard st' (t.relabel ρ ι) ev = pyGuard st t ev
    unfold pyGuard
    have hgd : (t.relabel ρ ι).guard = t.guard := rfl
    have hsrc : (t.relabel ρ ι).source = ρ t.source := rfl
    rw [hgd, hsrc]
    cases hgc : t.guard with
    | none => rfl
    | some code =>
      simp only [viewEnv, h1.time, h1.config, h1.entryTime, h1.idleTime,
        assocGet_renKeys hok t.source hs _ hg.entryK, assocGet_renKeys hok t.source hs _ hg.idleK]
      exact pyEval_config' _ _ _ _ _ _ _ _ _ _ _ _ _ h1.ctx.1 (hna.guard t hm code hgc)
  cond := by
    intro st st' kind obj code ev h1 hg hobj hcode
    rw [hE, hE']
    show pyCond st' kind (obj.ren ρ ι) code ev = pyCond st kind obj code ev
    have hna' := hna.conds obj hobj kind code hcode
    have hso : S (ownerOf obj) := by
      cases obj with
      | state s => exact hnames.states s hobj
      | trans t => exact hnames.transS t hobj
    have hown : ownerOf (obj.ren ρ ι) = ρ (ownerOf obj) := by cases obj <;> rfl
    have hold : assocGet (obj.ren ρ ι).id st'.ctx.old = assocGet obj.id st.ctx.old := by
      rw [Obj.ren_id]
      exact h1.ctx.2.2 obj.id (objOf_inDomS _ hnames obj hobj)
    unfold pyCond
    simp only [viewEnv, sentNames, h1.time, h1.config, h1.sentEvents, hown, hold, h1.entryTime, h1.idleTime,
      assocGet_renKeys hok _ hso _ hg.entryK, assocGet_renKeys hok _ hso _ hg.idleK]
    cases kind with
    | pre =>
      exact pyEval_config' _ _ _ _ _ _ _ _ _ _ _ _ _ h1.ctx.1 hna'
    | post =>
      exact pyEval_config' _ _ _ _ _ _ _ _ _ _ _ _ _ h1.ctx.1 hna'
    | inv =>
      exact pyEval_config' _ _ _ _ _ _ _ _ _ _ _ _ _ h1.ctx.1 hna'
  exec := by
    intro st st' k ev h1 _ _ hof
    rw [hE, hE']
    show (pyExec st' (k.ren ρ ι) ev).2 = (pyExec st k ev).2 ∧
      PyRen ρ ι S env.chart (pyExec st k ev).1 (pyExec st' (k.ren ρ ι) ev).1
    obtain ⟨hv, hu, ho⟩ := h1.ctx
    unfold pyExec
    cases k with
    | onEntry s =>
      have : (s.rename ρ).onEntry = s.onEntry := rfl
      simp only [ExecKind.ren, this, viewEnv, h1.time, h1.config, hv, hu]
      cases hc : s.onEntry with
      | none => exact ⟨rfl, hv, hu, ho⟩
      | some code =>
        dsimp only
        split
        · exact ⟨rfl, rfl, rfl, ho⟩
        · rw [execBody_config st.time st.config (st.config.map ρ) none st.ctx.vars code.body
            (Code.noActive_body code (hna.onEntry s hof code hc))]
          exact ⟨rfl, rfl, rfl, ho⟩
    | onExit s =>
      have : (s.rename ρ).onExit = s.onExit := rfl
      simp only [ExecKind.ren, this, viewEnv, h1.time, h1.config, hv, hu]
      cases hc : s.onExit with
      | none => exact ⟨rfl, hv, hu, ho⟩
      | some code =>
        dsimp only
        split
        · exact ⟨rfl, rfl, rfl, ho⟩
        · rw [execBody_config st.time st.config (st.config.map ρ) none st.ctx.vars code.body
            (Code.noActive_body code (hna.onExit s hof code hc))]
          exact ⟨rfl, rfl, rfl, ho⟩
    | action t =>
      have : (t.relabel ρ ι).action = t.action := rfl
      simp only [ExecKind.ren, this, viewEnv, h1.time, h1.config, hv, hu]
      cases hc : t.action with
      | none => exact ⟨rfl, hv, hu, ho⟩
      | some code =>
        dsimp only
        split
        · exact ⟨rfl, rfl, rfl, ho⟩
        · rw [execBody_config st.time st.config (st.config.map ρ) (some ev) st.ctx.vars code.body
            (Code.noActive_body code (hna.action t hof code hc))]
          exact ⟨rfl, rfl, rfl, ho⟩
  freeze := by
    intro a a' obj hobj ⟨hv, hu, ho⟩
    rw [hE, hE']
    show PyRen ρ ι S env.chart (pyFreeze a obj) (pyFreeze a' (obj.ren ρ ι))
    refine ⟨hv, hu, ?_⟩
    intro o hdo
    simp only [pyFreeze, Obj.ren_id, hv]
    by_cases e : o = obj.id
    · subst e
      rw [assocGet_assocSet_same', assocGet_assocSet_same']
    · have e' : o.ren ρ ι ≠ obj.id.ren ρ ι :=
        fun h => e (objId_ren_inj' hok ι env.chart hinj o obj.id hdo (objOf_inDomS _ hnames obj hobj) h)
      rw [assocGet_assocSet_other' _ _ _ _ e', assocGet_assocSet_other' _ _ _ _ e]
      exact ho o hdo
  deliver := hd

end Sismic
