import Lean.Data.Json
import Sismic.Model.World
import Sismic.Model.Edit
import Sismic.Model.IO
import Sismic.Spec.Legal
/-!
# Sismic.Json — the line protocol between the Python harness and the model driver
(decoding of cases, encoding of observations; no logic)
-/
open Lean (Json)
namespace Sismic.J

abbrev P := Except String

def arr (j : Json) : P (List Json) := do return (← j.getArr?).toList
def fld (j : Json) (k : String) : P Json := j.getObjVal? k
def fldD (j : Json) (k : String) : Json := j.getObjValD k
def optStr (j : Json) : P (Option String) := if j.isNull then pure none else some <$> j.getStr?
def strList (j : Json) : P (List String) := do (← arr j).mapM (·.getStr?)

partial def val (j : Json) : P Val :=
  match j with
  | .null => pure .none
  | .bool b => pure (.bool b)
  | .num _ => do return .int (← j.getInt?)
  | .str s => pure (.str s)
  | .obj _ => do
    if !(fldD j "old").isNull then
      let d ← (← arr (← fld j "old")).mapM (fun p => do
        let l ← arr p
        match l with
        | [k, v] => do return ((← k.getStr?), (← val v))
        | _ => throw "bad pair")
      return .old d
    let n ← (← fld j "ev").getStr?
    let d ← (← arr (← fld j "data")).mapM (fun p => do
      let l ← arr p
      match l with
      | [k, v] => do return ((← k.getStr?), (← val v))
      | _ => throw "bad pair")
    return .ev n d
  | _ => throw "bad value"

def event (j : Json) : P Event := do
  match (← val j) with
  | .ev n d => pure { name := n, data := d }
  | _ => throw "event expected"

def optEvent (j : Json) : P (Option Event) := if j.isNull then pure none else some <$> event j

def binop (s : String) : P BinOp :=
  match s with
  | "add" => pure .add | "sub" => pure .sub | "mul" => pure .mul
  | "floordiv" => pure .floordiv | "mod" => pure .mod
  | _ => throw s!"binop {s}"

def cmpop (s : String) : P CmpOp :=
  match s with
  | "eq" => pure .eq | "ne" => pure .ne | "lt" => pure .lt | "le" => pure .le
  | "gt" => pure .gt | "ge" => pure .ge
  | _ => throw s!"cmpop {s}"

partial def expr (j : Json) : P Expr := do
  let l ← arr j
  match l with
  | [.str "const", v] => return .const (← val v)
  | [.str "name", .str n] => return .name n
  | [.str "binop", .str op, a, b] => return .binop (← binop op) (← expr a) (← expr b)
  | [.str "and", es] => return .and (← (← arr es).mapM expr)
  | [.str "or", es] => return .or (← (← arr es).mapM expr)
  | [.str "not", e] => return .not (← expr e)
  | [.str "neg", e] => return .neg (← expr e)
  | [.str "cmp", a, rest] =>
    let r ← (← arr rest).mapM (fun p => do
      match (← arr p) with
      | [.str op, e] => do return ((← cmpop op), (← expr e))
      | _ => throw "bad cmp")
    return .cmp (← expr a) r
  | [.str "attr", e, .str a] => return .attr (← expr e) a
  | [.str "call", .str f, args, kws] =>
    let kw ← (← arr kws).mapM (fun p => do
      match (← arr p) with
      | [.str k, e] => do return (k, (← expr e))
      | _ => throw "bad kw")
    return .call f (← (← arr args).mapM expr) kw
  | [.str "ite", c, t, e] => return .ite (← expr c) (← expr t) (← expr e)
  | _ => throw s!"bad expr {j.compress}"

partial def stmt (j : Json) : P Stmt := do
  match (← arr j) with
  | [.str "assign", .str n, e] => return .assign n (← expr e)
  | [.str "aug", .str n, .str op, e] => return .aug n (← binop op) (← expr e)
  | [.str "expr", e] => return .expr (← expr e)
  | [.str "pass"] => return .pass
  | [.str "if", c, t, e] => return .ite (← expr c) (← (← arr t).mapM stmt) (← (← arr e).mapM stmt)
  | _ => throw s!"bad stmt {j.compress}"

def code (j : Json) : P Code := do
  let src ← (← fld j "src").getStr?
  if (fldD j "unsupported") == Json.bool true then return { src := src, unsupported := true }
  let body ← if (fldD j "body").isNull then pure [] else (← arr (fldD j "body")).mapM stmt
  let e ← if (fldD j "expr").isNull then pure none else some <$> expr (fldD j "expr")
  return { src := src, body := body, expr := e }

def optCode (j : Json) : P (Option Code) := if j.isNull then pure none else some <$> code j
def codeList (j : Json) : P (List Code) := do if j.isNull then pure [] else (← arr j).mapM code

def kind (s : String) : P Kind :=
  match s with
  | "basic" => pure .basic | "compound" => pure .compound | "orthogonal" => pure .orthogonal
  | "shallow" => pure .shallow | "deep" => pure .deep | "final" => pure .final
  | _ => throw s!"kind {s}"

def stateDef (j : Json) : P StateDef := do
  return { name := (← (← fld j "name").getStr?), kind := (← kind (← (← fld j "kind").getStr?)),
           initial := (← optStr (fldD j "initial")), memory := (← optStr (fldD j "memory")),
           onEntry := (← optCode (fldD j "on_entry")), onExit := (← optCode (fldD j "on_exit")),
           pre := (← codeList (fldD j "pre")), post := (← codeList (fldD j "post")),
           inv := (← codeList (fldD j "inv")) }

def trans (j : Json) : P Trans := do
  return { id := (← (← fld j "id").getNat?), source := (← (← fld j "source").getStr?),
           target := (← optStr (fldD j "target")), event := (← optStr (fldD j "event")),
           guard := (← optCode (fldD j "guard")), action := (← optCode (fldD j "action")),
           priority := (← (← fld j "priority").getInt?),
           pre := (← codeList (fldD j "pre")), post := (← codeList (fldD j "post")),
           inv := (← codeList (fldD j "inv")) }

def chart (j : Json) : P Chart := do
  let parent ← (← arr (← fld j "parent")).mapM (fun p => do
    match (← arr p) with
    | [n, q] => do return ((← n.getStr?), (← optStr q))
    | _ => throw "bad parent")
  let children ← (← arr (← fld j "children")).mapM (fun p => do
    match (← arr p) with
    | [n, l] => do return ((← optStr n), (← strList l))
    | _ => throw "bad children")
  return { name := (← (← fld j "name").getStr?), description := (← optStr (fldD j "description")),
           preamble := (← optCode (fldD j "preamble")),
           states := (← (← arr (← fld j "states")).mapM stateDef),
           parent := parent, children := children,
           transitions := (← (← arr (← fld j "transitions")).mapM trans) }

/-! ## encoding -/

partial def ofVal : Val → Json
  | .none => .null
  | .nothing => .null
  | .bool b => .bool b
  | .int i => .num (Lean.JsonNumber.fromInt i)
  | .str s => .str s
  | .ev n d => Json.mkObj [("ev", .str n), ("data", .arr (d.map (fun p => Json.arr #[.str p.1, ofVal p.2])).toArray)]
  | .old d => Json.mkObj [("old", .arr (d.map (fun p => Json.arr #[.str p.1, ofVal p.2])).toArray)]

def ofEvent (e : Event) : Json := ofVal e.toVal
def ofOptEvent : Option Event → Json
  | some e => ofEvent e
  | none => .null
def ofOptStr : Option String → Json
  | some s => .str s
  | none => .null
def ofStrs (l : List String) : Json := .arr (l.map Json.str).toArray
def ofInt (i : Int) : Json := .num (Lean.JsonNumber.fromInt i)
def ofOptBool : Option Bool → Json
  | some b => .bool b
  | none => .null

def ofObjId : ObjId → Json
  | .state n => .arr #[.str "s", .str n]
  | .trans i => .arr #[.str "t", ofInt i]

def ofKind : CondKind → Json
  | .pre => .str "pre" | .post => .str "post" | .inv => .str "inv"

def ofErr : Err → Json
  | .nonDeterminism => Json.mkObj [("class", .str "NonDeterminismError")]
  | .conflicting => Json.mkObj [("class", .str "ConflictingTransitionsError")]
  | .precondition o c => Json.mkObj [("class", .str "PreconditionError"), ("obj", ofObjId o), ("cond", .str c)]
  | .postcondition o c => Json.mkObj [("class", .str "PostconditionError"), ("obj", ofObjId o), ("cond", .str c)]
  | .invariant o c => Json.mkObj [("class", .str "InvariantError"), ("obj", ofObjId o), ("cond", .str c)]
  | .propertyFailed l => Json.mkObj [("class", .str "PropertyStatechartError"), ("listener", ofInt l)]
  | .listener l => Json.mkObj [("class", .str "ListenerError"), ("listener", ofInt l)]
  | .codeError => Json.mkObj [("class", .str "CodeEvaluationError")]
  | .statechartError => Json.mkObj [("class", .str "StatechartError")]
  | .assertion => Json.mkObj [("class", .str "AssertionError")]
  | .fuel => Json.mkObj [("class", .str "MODEL-FUEL")]
  | .unsupported => Json.mkObj [("class", .str "MODEL-UNSUPPORTED")]

def ofSent : Sent → Json
  | .internal e => Json.mkObj [("internal", .bool true), ("event", ofEvent e)]
  | .notify e => Json.mkObj [("internal", .bool false), ("event", ofEvent e)]

def ofMicro (m : Micro) : Json :=
  Json.mkObj [("event", ofOptEvent m.event),
              ("transition", match m.transition with | some t => ofInt t.id | none => .null),
              ("entered", ofStrs m.entered), ("exited", ofStrs m.exited),
              ("sent", .arr (m.sent.map ofSent).toArray)]

def ofMacro (m : MacroStep) : Json :=
  Json.mkObj [("time", ofInt m.time), ("steps", .arr (m.steps.map ofMicro).toArray)]

def ofEffect : Effect → Json
  | .guard t e r => .arr #[.str "guard", ofInt t, ofOptEvent e, ofOptBool r]
  | .cond k o i e r => .arr #[.str "cond", ofKind k, ofObjId o, ofInt i, ofOptEvent e, ofOptBool r]
  | .onExit s => .arr #[.str "exit", .str s]
  | .action t e => .arr #[.str "action", ofInt t, ofOptEvent e]
  | .onEntry s => .arr #[.str "entry", .str s]
  | .metaEv e => .arr #[.str "meta", ofEvent e]

def sortPairs (l : List (String × Val)) : List (String × Val) :=
  isort (fun a b => decide (a.1 ≤ b.1)) l

def ofSlot (s : Slot) : Json :=
  Json.mkObj [("config", ofStrs (s.chart.sortConfig s.st.config)),
              ("ctx", .arr ((sortPairs s.st.ctx.vars).map (fun p => Json.arr #[.str p.1, ofVal p.2])).toArray),
              ("time", ofInt s.st.time),
              ("final", .bool (s.st.initialized && s.st.config.isEmpty)),
              ("legal", .bool (s.st.config.isEmpty || legalB s.chart s.st.config)),
              ("unsupported", .bool s.st.ctx.unsupported)]

def ofWorld (w : World) : Json :=
  Json.mkObj [("slots", .arr (w.slots.map ofSlot)),
              ("callbacks", .arr (w.callbacks.map (fun l => Json.arr (l.map ofEvent).toArray)))]

def ofKindS : Kind → Json
  | .basic => .str "basic" | .compound => .str "compound" | .orthogonal => .str "orthogonal"
  | .shallow => .str "shallow" | .deep => .str "deep" | .final => .str "final"

def ofOptCode : Option Code → Json
  | some c => .str c.src
  | none => .null
def ofCodes (l : List Code) : Json := .arr (l.map (fun c => Json.str c.src)).toArray

/-- the public view of a statechart (what the harness reads through the public API) -/
def ofChartSnap (c : Chart) : Json :=
  let sts := isort (fun (a b : StateDef) => decide (a.name ≤ b.name)) c.states
  Json.mkObj [
    ("root", ofOptStr c.root),
    ("valid", .bool c.validate),
    ("states", .arr (sts.map (fun s => Json.mkObj [
      ("name", .str s.name), ("kind", ofKindS s.kind), ("initial", ofOptStr s.initial),
      ("memory", ofOptStr s.memory), ("parent", ofOptStr (c.parentFor s.name)),
      ("children", ofStrs (c.childrenFor s.name)),
      ("on_entry", ofOptCode s.onEntry), ("on_exit", ofOptCode s.onExit),
      ("pre", ofCodes s.pre), ("post", ofCodes s.post), ("inv", ofCodes s.inv)])).toArray),
    ("transitions", .arr (c.transitions.map (fun t => Json.mkObj [
      ("source", .str t.source), ("target", ofOptStr t.target), ("event", ofOptStr t.event),
      ("guard", ofOptCode t.guard), ("action", ofOptCode t.action), ("priority", ofInt t.priority),
      ("pre", ofCodes t.pre), ("post", ofCodes t.post), ("inv", ofCodes t.inv)])).toArray)]

partial def data (j : Json) : P Data :=
  match j with
  | .null => pure .null
  | .bool b => pure (.bool b)
  | .num _ => do
    match j.getInt? with
    | .ok i => pure (.int i)
    | .error _ => throw "float"
  | .str s => pure (.str s)
  | .arr a => do return .list (← a.toList.mapM data)
  | .obj o => do
    let l ← o.toList.mapM (fun (p : String × Json) => do return (p.1, (← data p.2)))
    return .map l

partial def ofData : Data → Json
  | .null => .null
  | .bool b => .bool b
  | .int i => ofInt i
  | .str s => .str s
  | .list l => .arr (l.map ofData).toArray
  | .map m => Json.mkObj (m.map (fun p => (p.1, ofData p.2)))

end Sismic.J
