#!/usr/bin/env python3
"""Confirm a seeded defect produced by an adversary sub-agent and run our checks against it.

usage: seed_eval.py <property> <mutant dir> [--checks C01,C02,...] [--keep-as NAME]
 1. scratch worktree of /repo: patch applies, test suite unchanged (7 failed / 339 passed / 1 xpassed),
    demo FAILs with the patch and PASSes without;
 2. apply the patch to /repo, run the quick checks, undo the patch;
 3. store everything under /verif/seeded/<name>/ (patch.diff, demo.py, meta.json)."""
import json
import os
import shutil
import subprocess
import sys

VERIF = os.path.dirname(os.path.dirname(os.path.abspath(__file__)))


def sh(cmd, cwd=None, env=None, timeout=1800):
    p = subprocess.run(cmd, cwd=cwd, shell=True, stdout=subprocess.PIPE, stderr=subprocess.STDOUT, text=True,
                       env=env, timeout=timeout)
    return p.returncode, p.stdout


def main():
    prop, mdir = sys.argv[1], sys.argv[2].rstrip('/')
    checks = [prop]
    name = '%s_%s' % (prop, os.path.basename(mdir))
    args = sys.argv[3:]
    while args:
        a = args.pop(0)
        if a == '--checks':
            checks = args.pop(0).split(',')
        elif a == '--keep-as':
            name = args.pop(0)
    patch = os.path.join(mdir, 'patch.diff')
    demo = os.path.join(mdir, 'demo.py')
    meta = json.load(open(os.path.join(mdir, 'meta.json'))) if os.path.exists(os.path.join(mdir, 'meta.json')) else {}
    wt = '/tmp/sv_%s' % name
    sh('git -C /repo worktree remove --force %s' % wt)
    rc, out = sh('git -C /repo worktree add -f %s HEAD' % wt)
    res = {'property': prop, 'source': mdir, 'agent_meta': meta}
    try:
        env = dict(os.environ, PYTHONPATH=wt, PYTHONDONTWRITEBYTECODE='1')
        rc0, o0 = sh('/venv/bin/python %s' % demo, cwd=wt, env=env, timeout=600)
        rc, out = sh('git apply %s' % patch, cwd=wt)
        res['patch_applies'] = rc == 0
        if rc != 0:
            res['error'] = out[-500:]
        else:
            rc, out = sh('/venv/bin/python -m pytest -q -p no:cacheprovider --timeout=900 --continue-on-collection-errors 2>&1 | tail -1', cwd=wt, env=env)
            res['suite_with_patch'] = out.strip()
            rc1, o1 = sh('/venv/bin/python %s' % demo, cwd=wt, env=env, timeout=600)
            res['demo_clean_exit'] = rc0
            res['demo_patched_exit'] = rc1
            res['demo_patched_tail'] = o1[-400:]
        res['confirmed'] = bool(res.get('patch_applies') and '7 failed, 339 passed, 1 xpassed' in res.get('suite_with_patch', '')
                                and res.get('demo_clean_exit') == 0 and res.get('demo_patched_exit') not in (0, None))
        # ---- our checks against it (same tree, via SISMIC_REPO: /repo itself is left alone so that
        #      several evaluations can run side by side; the registered commands use /repo)
        res['checks'] = {}
        if res.get('confirmed'):
            for c in checks:
                rc, out = sh('SISMIC_REPO=%s VERIF_REPLAY_DIR=%s ./check %s --tier quick --no-evidence' % (wt, wt + '_replays', c), cwd=VERIF, timeout=1800)
                lines = [l for l in out.splitlines() if l.startswith('VIOLATION') or l.startswith('KNOWN')]
                what = []
                for l in lines:
                    if 'replay=' in l:
                        path = l.split('replay=')[1].split()[0]
                        try:
                            what.append(json.load(open(path))['what'][:300])
                        except Exception:
                            pass
                res['checks'][c] = {'exit': rc, 'lines': lines, 'what': what, 'summary': out.strip().splitlines()[-1] if out.strip() else ''}
    finally:
        sh('git -C /repo worktree remove --force %s' % wt)
        shutil.rmtree(wt, ignore_errors=True)
        shutil.rmtree(wt + '_replays', ignore_errors=True)
    dst = os.path.join(VERIF, 'seeded', name)
    os.makedirs(dst, exist_ok=True)
    if res.get('confirmed'):
        for src, nm in ((patch, 'patch.diff'), (demo, 'demo.py')):
            if os.path.abspath(src) != os.path.abspath(os.path.join(dst, nm)):
                shutil.copy(src, os.path.join(dst, nm))
        json.dump({'breaks_property': prop, 'needs_to_manifest': (meta.get('needs_to_manifest') or meta.get('what_it_needs_to_manifest')),
                   'what_it_changes': meta.get('what_it_changes'), 'files_changed': meta.get('files_changed'),
                   'confirmed_by': 'tools/seed_eval.py: patch applies on /repo HEAD in a scratch worktree; suite = %s; demo exit clean=%s patched=%s'
                                   % (res.get('suite_with_patch'), res.get('demo_clean_exit'), res.get('demo_patched_exit')),
                   'checks_run': res['checks']}, open(os.path.join(dst, 'meta.json'), 'w'), indent=1)
    else:
        json.dump(res, open(os.path.join(dst, 'rejected.json'), 'w'), indent=1)
    det = {c: (v['exit'], [w[:120] for w in v['what']][:2]) for c, v in res['checks'].items()}
    print(name, 'confirmed=%s' % res.get('confirmed'), res.get('suite_with_patch'), json.dumps(det)[:600])


if __name__ == '__main__':
    main()
