#!/bin/bash
# run every registered check (tier $1, seeds $2...) and print one line per run; exit 1 if any run is not 0
cd "$(dirname "$0")/.."
TIER=${1:-quick}; shift
SEEDS=${@:-20260926}
rc=0
for s in $SEEDS; do
  for p in C01 C02 C03 C04 C05 C06 C07 C08 C09 C10 C11 C12 C13 C14 C15 C16 C17 C18 C19 C20; do
    out=$(VERIF_SEED=$s timeout 7200 ./check $p --tier $TIER $EXTRA 2>&1); e=$?
    echo "seed=$s $(echo "$out" | tail -1) rc=$e"
    echo "$out" | grep "^VIOLATION" | head -3
    [ $e != 0 ] && rc=1
  done
done
exit $rc
