#!/usr/bin/env python3
"""Run every registered quick check against every seeded change (each applied in its own scratch
worktree of /repo, selected through SISMIC_REPO; /repo itself is never touched) and write
seeded/MATRIX.json + seeded/MATRIX.md.  usage: seed_matrix.py [--jobs N] [seed names...]"""
import json, os, subprocess, sys, glob
from concurrent.futures import ThreadPoolExecutor

VERIF = os.path.dirname(os.path.dirname(os.path.abspath(__file__)))
PROPS = ['C%02d' % i for i in range(1, 21)]


def sh(cmd, **kw):
    p = subprocess.run(cmd, shell=True, stdout=subprocess.PIPE, stderr=subprocess.STDOUT, text=True, **kw)
    return p.returncode, p.stdout


def one(name):
    d = os.path.join(VERIF, 'seeded', name)
    wt = '/tmp/sm_%s' % name
    sh('git -C /repo worktree remove --force %s' % wt)
    rc, out = sh('git -C /repo worktree add -f --detach %s HEAD' % wt)
    row = {}
    try:
        rc, out = sh('git apply %s/patch.diff' % d, cwd=wt)
        if rc != 0:
            return name, {'error': 'patch does not apply: ' + out[-200:]}
        extra = dict(x.split(':') for x in os.environ.get('MATRIX_EXTRA', '').split(',') if ':' in x)
        # (OWN_ONLY: the check of the property the change breaks, and the neighbours named in MATRIX_EXTRA=name:Cxx+Cyy,...)
        for p in ([name[:3]] + [q for q in extra.get(name, '').split('+') if q] if os.environ.get('OWN_ONLY') else PROPS):
            env = dict(os.environ, SISMIC_REPO=wt, VERIF_REPLAY_DIR='/tmp/sm_rp_%s' % name, PYTHONDONTWRITEBYTECODE='1')
            rc, out = sh('timeout 1500 ./check %s --tier quick --no-evidence' % p, cwd=VERIF, env=env)
            lines = [l for l in out.splitlines() if l.startswith('VIOLATION')]
            row[p] = {'exit': rc, 'violations': len(lines),
                      'no_failing_input': any(l.endswith('no-failing-input-found') for l in lines)}
    finally:
        sh('git -C /repo worktree remove --force %s' % wt)
        sh('rm -rf /tmp/sm_rp_%s' % name)
    return name, row


def main():
    args = sys.argv[1:]
    jobs = 3
    if args and args[0] == '--jobs':
        jobs = int(args[1]); args = args[2:]
    names = args or sorted(os.path.basename(p) for p in glob.glob(os.path.join(VERIF, 'seeded', 'C??_*m?')))
    path = os.path.join(VERIF, 'seeded', 'MATRIX.json')
    mat = json.load(open(path)) if os.path.exists(path) else {}
    with ThreadPoolExecutor(jobs) as ex:
        for name, row in ex.map(one, names):
            mat[name] = row
            print(name, [p for p, v in row.items() if isinstance(v, dict) and v.get('exit') == 1], flush=True)
            json.dump(mat, open(path, 'w'), indent=1, sort_keys=True)
    with open(os.path.join(VERIF, 'seeded', 'MATRIX.md'), 'w') as f:
        f.write('| seeded change | breaks | caught by (quick tier, exit 1) | other exits |\n|---|---|---|---|\n')
        for name in sorted(mat):
            row = mat[name]
            if 'error' in row:
                f.write('| %s | | %s | |\n' % (name, row['error'])); continue
            caught = [p + ('*' if row[p]['no_failing_input'] else '') for p in PROPS if p in row and row[p]['exit'] == 1]
            other = ['%s=%d' % (p, row[p]['exit']) for p in PROPS if p in row and row[p]['exit'] not in (0, 1)]
            f.write('| %s | %s | %s | %s |\n' % (name, name[:3], ', '.join(caught), ', '.join(other)))
        f.write('\n`*` = reported with `no-failing-input-found` (a theorem or the correspondence no longer checks and the search found no concrete failing input for *that* property).\n')


if __name__ == '__main__':
    main()
