#!/usr/bin/env python3
"""Every replay a check writes for a changed tree must be an input on which /repo passes: apply a seeded change in a
scratch worktree, run the property's quick check, replay each reported input on /repo and on the changed tree.
usage: replay_audit.py [--jobs N] name ..."""
import json, os, shutil, subprocess, sys
from concurrent.futures import ThreadPoolExecutor
VERIF = os.path.dirname(os.path.dirname(os.path.abspath(__file__)))


def sh(cmd, **kw):
    p = subprocess.run(cmd, shell=True, stdout=subprocess.PIPE, stderr=subprocess.STDOUT, text=True, **kw)
    return p.returncode, p.stdout


def one(name):
    prop = name.split('_')[0]
    wt = '/tmp/ra_%s' % name
    rp = wt + '_rp'
    sh('git -C /repo worktree remove --force %s' % wt)
    sh('git -C /repo worktree add -f --detach %s HEAD' % wt)
    out_lines = []
    try:
        rc, out = sh('git apply %s/seeded/%s/patch.diff' % (VERIF, name), cwd=wt)
        if rc != 0:
            return name, ['patch does not apply']
        shutil.rmtree(rp, ignore_errors=True)
        env = dict(os.environ, SISMIC_REPO=wt, VERIF_REPLAY_DIR=rp)
        rc, out = sh('./check %s --tier quick --no-evidence' % prop, cwd=VERIF, env=env)
        cands = [l.split('replay=')[1].split()[0] for l in out.splitlines()
                 if l.startswith('VIOLATION') and 'no-failing-input-found' not in l]
        for c in cands:
            try:
                d = json.load(open(c))
            except Exception:
                continue
            if 'case' not in d or 'did not finish' in str(d.get('what')):
                continue
            r1, o1 = sh('./check %s --replay %s --no-evidence' % (prop, c), cwd=VERIF, env=dict(env, VERIF_REPLAY_DIR=rp + '2'))
            r0, o0 = sh('./check %s --replay %s --no-evidence' % (prop, c), cwd=VERIF, env=dict(os.environ, VERIF_REPLAY_DIR=rp + '2'))
            if 'KNOWN-FINDING' in o0:
                continue
            out_lines.append('%s changed=%d repo=%d %s' % (os.path.basename(c), r1, r0, '' if (r1 == 1 and r0 == 0) else
                                                      'BAD: ' + str(d.get('what'))[:160]))
        return name, out_lines or ['no replay with an input']
    finally:
        sh('git -C /repo worktree remove --force %s' % wt)
        for x in (rp, rp + '2'):
            shutil.rmtree(x, ignore_errors=True)


def main():
    args = sys.argv[1:]
    jobs = 5
    if args and args[0] == '--jobs':
        jobs = int(args[1]); args = args[2:]
    with ThreadPoolExecutor(jobs) as ex:
        for name, lines in ex.map(one, args):
            for l in lines:
                print(name, l, flush=True)


if __name__ == '__main__':
    main()
