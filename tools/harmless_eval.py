#!/usr/bin/env python3
"""Run every registered quick check against a behaviour-preserving refactoring (each applied in its
own scratch worktree of /repo, selected through SISMIC_REPO; /repo itself is never touched).
Any alarm is a false alarm of the machinery (or the refactoring is not behaviour-preserving: look).
usage: harmless_eval.py [--jobs N] [--tier quick|thorough] <dir with patch.diff>..."""
import json, os, subprocess, sys
from concurrent.futures import ThreadPoolExecutor

VERIF = os.path.dirname(os.path.dirname(os.path.abspath(__file__)))
PROPS = os.environ.get('HARMLESS_CHECKS', '').split(',') if os.environ.get('HARMLESS_CHECKS') else ['C%02d' % i for i in range(1, 21)]
TIER = 'quick'


def sh(cmd, **kw):
    p = subprocess.run(cmd, shell=True, stdout=subprocess.PIPE, stderr=subprocess.STDOUT, text=True, **kw)
    return p.returncode, p.stdout


def one(d):
    d = os.path.abspath(d)
    name = '_'.join(d.split('/')[-2:])
    wt = '/tmp/hm_%s' % name
    sh('git -C /repo worktree remove --force %s' % wt)
    sh('git -C /repo worktree add -f --detach %s HEAD' % wt)
    row = {}
    try:
        rc, out = sh('git apply %s/patch.diff' % d, cwd=wt)
        if rc != 0:
            return name, {'error': 'patch does not apply: ' + out[-200:]}
        env = dict(os.environ, PYTHONPATH=wt, PYTHONDONTWRITEBYTECODE='1')
        rc, out = sh('/venv/bin/python -m pytest -q -p no:cacheprovider --timeout=900 --continue-on-collection-errors 2>&1 | tail -1', cwd=wt, env=env)
        row['suite'] = out.strip()
        for p in PROPS:
            env = dict(os.environ, SISMIC_REPO=wt, VERIF_REPLAY_DIR='/tmp/hm_rp_%s' % name, PYTHONDONTWRITEBYTECODE='1')
            rc, out = sh('timeout 3000 ./check %s --tier %s --no-evidence' % (p, TIER), cwd=VERIF, env=env)
            if rc != 0:
                row[p] = {'exit': rc, 'tail': out.splitlines()[-6:]}
    finally:
        sh('git -C /repo worktree remove --force %s' % wt)
    return name, row


def main():
    global TIER
    args = sys.argv[1:]
    jobs = 3
    while args and args[0].startswith('--'):
        if args[0] == '--jobs':
            jobs = int(args[1])
        elif args[0] == '--tier':
            TIER = args[1]
        args = args[2:]
    with ThreadPoolExecutor(jobs) as ex:
        for name, row in ex.map(one, args):
            alarms = {k: v for k, v in row.items() if k.startswith('C')}
            print(name, row.get('suite', row.get('error')), 'ALARMS: %s' % sorted(alarms) if alarms else 'quiet', flush=True)
            for k, v in alarms.items():
                print('   ', k, v['exit'], ' | '.join(v['tail'])[:600], flush=True)


if __name__ == '__main__':
    main()
