#!/usr/bin/env python3
"""Keep, for every stored seeded change, one input on which the changed code fails its property — past failures
run first on every check (corpus/<property>/S_<seed>.json).  For each seeded/<name>: apply its patch in a scratch
worktree, run the property's quick check with a few seeds until it reports a violation with a concrete input, make sure
that input fails on the changed tree and passes on /repo, and store it.
usage: seed_corpus.py [--jobs N] [name ...]"""
import json, os, shutil, subprocess, sys
from concurrent.futures import ThreadPoolExecutor
VERIF = os.path.dirname(os.path.dirname(os.path.abspath(__file__)))
SEEDS = ['20260926', '11', '5', '303', '77']


def sh(cmd, **kw):
    p = subprocess.run(cmd, shell=True, stdout=subprocess.PIPE, stderr=subprocess.STDOUT, text=True, **kw)
    return p.returncode, p.stdout


def one(name):
    prop = name.split('_')[0]
    dst = os.path.join(VERIF, 'corpus', prop, 'S_%s.json' % name)
    wt = '/tmp/sc_%s' % name
    rp = wt + '_rp'
    sh('git -C /repo worktree remove --force %s' % wt)
    sh('git -C /repo worktree add -f --detach %s HEAD' % wt)
    try:
        rc, out = sh('git apply %s/seeded/%s/patch.diff' % (VERIF, name), cwd=wt)
        if rc != 0:
            return name, 'patch does not apply'
        for s in SEEDS:
            shutil.rmtree(rp, ignore_errors=True)
            env = dict(os.environ, SISMIC_REPO=wt, VERIF_SEED=s, VERIF_REPLAY_DIR=rp)
            rc, out = sh('./check %s --tier quick --no-evidence' % prop, cwd=VERIF, env=env)
            cands = [l.split('replay=')[1].split()[0] for l in out.splitlines()
                     if l.startswith('VIOLATION') and 'no-failing-input-found' not in l]
            for c in cands:
                try:
                    d = json.load(open(c))
                except Exception:
                    continue
                if 'case' not in d or 'did not finish' in str(d.get('what')):
                    continue
                tmp = rp + '_cand.json'
                shutil.copy(c, tmp)
                r1, o1 = sh('./check %s --replay %s --no-evidence' % (prop, tmp), cwd=VERIF, env=dict(env, VERIF_REPLAY_DIR=rp + '2'))
                r0, o0 = sh('./check %s --replay %s --no-evidence' % (prop, tmp), cwd=VERIF,
                            env=dict(os.environ, VERIF_REPLAY_DIR=rp + '2'))
                if r1 == 1 and r0 == 0:
                    os.makedirs(os.path.dirname(dst), exist_ok=True)
                    d['origin'] = 'seeded/%s (seed %s)' % (name, s)
                    json.dump(d, open(dst, 'w'))
                    return name, 'stored (seed %s): %s' % (s, str(d.get('what'))[:100])
        return name, 'NO INPUT FOUND'
    finally:
        sh('git -C /repo worktree remove --force %s' % wt)
        for x in (rp, rp + '2'):
            shutil.rmtree(x, ignore_errors=True)
        if os.path.exists(rp + '_cand.json'):
            os.remove(rp + '_cand.json')


def main():
    args = sys.argv[1:]
    jobs = 5
    if args and args[0] == '--jobs':
        jobs = int(args[1]); args = args[2:]
    names = args or sorted(n for n in os.listdir(os.path.join(VERIF, 'seeded')) if os.path.isdir(os.path.join(VERIF, 'seeded', n)))
    with ThreadPoolExecutor(jobs) as ex:
        for name, msg in ex.map(one, names):
            print(name, msg, flush=True)


if __name__ == '__main__':
    main()
