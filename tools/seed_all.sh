#!/bin/sh
# evaluate all delivered seeds for the given properties, 4 at a time
cd /verif
for p in "$@"; do
  for m in m1 m2; do
    echo "python3 tools/seed_eval.py $p /tmp/seed/out/$p/$m"
  done
done | xargs -P 4 -I{} sh -c "{}" 2>&1
