#!/usr/bin/env python3
"""How reliably does a check catch a stored seed?  usage: seed_rate.py <seeded name> [check] [seed ...]
Applies seeded/<name>/patch.diff in a scratch worktree and runs the quick check with several VERIF_SEEDs."""
import os, subprocess, sys, shutil
VERIF = os.path.dirname(os.path.dirname(os.path.abspath(__file__)))
name = sys.argv[1]
check = sys.argv[2] if len(sys.argv) > 2 else name.split('_')[0]
seeds = sys.argv[3:] or ['20260926', '11', '5', '303', '77']
wt = '/tmp/sr_%s' % name
subprocess.run('git -C /repo worktree remove --force %s' % wt, shell=True, capture_output=True)
subprocess.run('git -C /repo worktree add -f --detach %s HEAD' % wt, shell=True, capture_output=True, check=True)
try:
    subprocess.run('git apply %s/seeded/%s/patch.diff' % (VERIF, name), shell=True, cwd=wt, check=True)
    hits = 0
    for s in seeds:
        env = dict(os.environ, SISMIC_REPO=wt, VERIF_SEED=s, VERIF_REPLAY_DIR=wt + '_rp')
        p = subprocess.run('./check %s --tier quick --no-evidence' % check, shell=True, cwd=VERIF, env=env,
                           stdout=subprocess.PIPE, stderr=subprocess.STDOUT, text=True)
        viol = [l for l in p.stdout.splitlines() if l.startswith('VIOLATION')]
        soft = any('no-failing-input-found' in l for l in viol)
        hits += bool(viol) and not soft
        print(name, check, 'seed', s, 'exit', p.returncode, 'violations', len(viol), 'correspondence-only' if soft else '')
    print(name, check, 'caught with a failing input in %d/%d seeds' % (hits, len(seeds)))
finally:
    subprocess.run('git -C /repo worktree remove --force %s' % wt, shell=True, capture_output=True)
    shutil.rmtree(wt + '_rp', ignore_errors=True)
