#!/bin/bash
# usage: seed_eval_many.sh <round tag> <out dir> <jobs>  — evaluates <out dir>/Cxx/m{1,2} as Cxx_<tag>m{1,2}
cd "$(dirname "$0")/.."
TAG=$1; OUT=$2; JOBS=${3:-4}
ls $OUT | while read p; do for m in m1 m2; do [ -f $OUT/$p/$m/patch.diff ] && echo "$p $m"; done; done | \
  xargs -P $JOBS -L 1 sh -c 'python3 tools/seed_eval.py $0 '$OUT'/$0/$1 --keep-as ${0}_'$TAG'$1 2>&1 | tail -1'
