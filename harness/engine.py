"""Shared machinery of the checks: build + audit of the Lean development, the model driver,
comparison of observations, evidence and replay files, exit-code protocol."""
import hashlib
import json
import os
import re
import subprocess
import sys
import time

VERIF = os.path.dirname(os.path.dirname(os.path.abspath(__file__)))
LEAN = os.path.join(VERIF, 'lean')
DRIVER = os.path.join(LEAN, '.lake', 'build', 'bin', 'driver')
ALLOWED_AXIOMS = {'propext', 'Classical.choice', 'Quot.sound'}
FORBIDDEN = re.compile(r'\b(sorry|admit|native_decide|bv_decide|implemented_by|unsafe)\b|^\s*axiom\s|maxHeartbeats\s+0', re.M)


class MachineryError(Exception):
    """Something in the verification machinery itself failed (exit code 2, never a VIOLATION)."""


def sh(cmd, cwd=None, timeout=3600):
    p = subprocess.run(cmd, cwd=cwd, shell=isinstance(cmd, str), stdout=subprocess.PIPE,
                       stderr=subprocess.STDOUT, text=True, timeout=timeout)
    return p.returncode, p.stdout


_built = {}


def lake_build(targets=('Sismic', 'driver')):
    """(ok, output). No-op when up to date."""
    key = tuple(targets)
    if key in _built:
        return _built[key]
    rc, out = sh(['lake', 'build'] + list(targets), cwd=LEAN)
    _built[key] = (rc == 0, out)
    return _built[key]


def import_closure(module):
    """the project's own modules `module` depends on (read from the `import` lines)"""
    seen, todo = [], [module]
    while todo:
        m = todo.pop()
        if m in seen or not m.startswith('Sismic'):
            continue
        path = os.path.join(LEAN, *m.split('.')) + '.lean'
        if not os.path.exists(path):
            continue
        seen.append(m)
        for line in open(path):
            line = line.strip()
            if line.startswith('import '):
                todo.append(line.split()[1])
            elif line and not line.startswith('--') and not line.startswith('/-') and not line.startswith('import'):
                if not line.startswith('import'):
                    pass
    return sorted(seen)


def leanchecker(prop):
    """independent re-check of the compiled proofs of the property's theorems and everything of
    ours they depend on (thorough tier). Returns (ok, n_modules, seconds, output)."""
    import time as _t
    mods = import_closure('Sismic.Props.' + prop)
    t0 = _t.time()
    rc, out = sh(['lake', 'env', 'leanchecker'] + mods, cwd=LEAN, timeout=3600)
    return rc == 0, len(mods), round(_t.time() - t0, 1), out[-1500:]


def strip_comments(src):
    # block comments (possibly nested) and line comments
    out = []
    i = 0
    depth = 0
    while i < len(src):
        if src.startswith('/-', i):
            depth += 1
            i += 2
        elif depth and src.startswith('-/', i):
            depth -= 1
            i += 2
        elif depth:
            i += 1
        elif src.startswith('--', i):
            j = src.find('\n', i)
            i = len(src) if j < 0 else j
        else:
            out.append(src[i])
            i += 1
    return ''.join(out)


def audit_sources():
    """No sorry/admit/axiom/native_decide/... outside comments anywhere in the Lean sources."""
    bad = []
    for root, _, files in os.walk(os.path.join(LEAN, 'Sismic')):
        for f in files:
            if f.endswith('.lean'):
                p = os.path.join(root, f)
                m = FORBIDDEN.search(strip_comments(open(p).read()))
                if m:
                    bad.append('%s: %s' % (os.path.relpath(p, LEAN), m.group(0).strip()))
    return bad


def theorems_of(prop):
    """Names of the theorems stated in Props/<prop>.lean (the obligations of the property)."""
    p = os.path.join(LEAN, 'Sismic', 'Props', prop + '.lean')
    if not os.path.exists(p):
        return []
    src = strip_comments(open(p).read())
    ns = re.findall(r'^namespace\s+(\S+)', src, re.M)
    prefix = (ns[0] + '.') if ns else ''
    return [prefix + n for n in re.findall(r'^theorem\s+(\S+)', src, re.M)]


def print_axioms(prop, names):
    """{theorem: [axioms]} for the compiled library (missing theorem ⇒ absent from the dict)."""
    if not names:
        return {}
    tmp = os.path.join(LEAN, '.lake', 'audit_%s_%d.lean' % (prop, os.getpid()))
    with open(tmp, 'w') as f:
        f.write('import Sismic.Props.%s\n' % prop)
        for n in names:
            f.write('#print axioms %s\n' % n)
    rc, out = sh(['lake', 'env', 'lean', tmp], cwd=LEAN)
    os.unlink(tmp)
    res = {}
    for m in re.finditer(r"'([^']+)' depends on axioms: \[([^\]]*)\]", out):
        res[m.group(1)] = [a.strip() for a in m.group(2).replace('\n', ' ').split(',') if a.strip()]
    for m in re.finditer(r"'([^']+)' does not depend on any axioms", out):
        res[m.group(1)] = []
    return res


class Driver:
    def __init__(self):
        if not os.path.exists(DRIVER):
            raise MachineryError('model driver not built: ' + DRIVER)
        self.p = subprocess.Popen([DRIVER], stdin=subprocess.PIPE, stdout=subprocess.PIPE,
                                  text=True, bufsize=1)

    def ask(self, case):
        self.p.stdin.write(json.dumps(case) + '\n')
        self.p.stdin.flush()
        line = self.p.stdout.readline()
        if not line:
            raise MachineryError('model driver died on case')
        r = json.loads(line)
        if 'error' in r and len(r) == 1:
            raise MachineryError('model driver rejected case: ' + r['error'])
        return r

    def close(self):
        try:
            self.p.stdin.close()
            self.p.wait(timeout=5)
        except Exception:
            self.p.kill()

    def restart(self):
        """after an interrupted exchange the stream is out of step: start over"""
        try:
            self.p.kill()
            self.p.wait(timeout=5)
        except Exception:       # noqa
            pass
        self.__init__()


def diff(a, b, path=''):
    """First structural difference between two JSON values (bool ≠ int), or None."""
    if type(a) != type(b):
        if not (isinstance(a, (int, float)) and isinstance(b, (int, float))
                and not isinstance(a, bool) and not isinstance(b, bool)):
            return '%s: %r vs %r' % (path, a, b)
    if isinstance(a, dict):
        for k in sorted(set(a) | set(b)):
            if k not in a or k not in b:
                return '%s.%s: missing on one side' % (path, k)
            d = diff(a[k], b[k], path + '.' + k)
            if d:
                return d
        return None
    if isinstance(a, list):
        if len(a) != len(b):
            n = min(len(a), len(b))
            for i in range(n):
                d = diff(a[i], b[i], '%s[%d]' % (path, i))
                if d:
                    return d
            return '%s: length %d vs %d (first extra: %r)' % (
                path, len(a), len(b), (a[n] if len(a) > n else b[n]))
        for i, (x, y) in enumerate(zip(a, b)):
            d = diff(x, y, '%s[%d]' % (path, i))
            if d:
                return d
        return None
    if a != b:
        return '%s: %r vs %r' % (path, a, b)
    return None


def case_hash(obj):
    return hashlib.sha1(json.dumps(obj, sort_keys=True).encode()).hexdigest()[:16]


def write_json(path, obj):
    os.makedirs(os.path.dirname(path), exist_ok=True)
    tmp = path + '.tmp%d' % os.getpid()
    with open(tmp, 'w') as f:
        json.dump(obj, f, indent=1, sort_keys=True, default=str)
    os.replace(tmp, path)


def load_known_findings():
    p = os.path.join(VERIF, 'known_findings.json')
    if not os.path.exists(p):
        return []
    return json.load(open(p)).get('findings', [])
