"""Rebuilding sismic objects from protocol JSON (replay files, corpus, shrinking)."""
from sismic.model import (BasicState, CompoundState, DeepHistoryState, FinalState, OrthogonalState,
                          ShallowHistoryState, Statechart, Transition)


def _src(c):
    return None if c is None else c['src']


def state_from_json(js):
    k = js['kind']
    kw = dict(on_entry=_src(js.get('on_entry')), on_exit=_src(js.get('on_exit')))
    n = js['name']
    if k == 'basic':
        st = BasicState(n, **kw)
    elif k == 'compound':
        st = CompoundState(n, initial=js.get('initial'), **kw)
    elif k == 'orthogonal':
        st = OrthogonalState(n, **kw)
    elif k == 'final':
        st = FinalState(n, **kw)
    elif k == 'shallow':
        st = ShallowHistoryState(n, memory=js.get('memory'), **kw)
    else:
        st = DeepHistoryState(n, memory=js.get('memory'), **kw)
    st.preconditions.extend(_src(c) for c in js.get('pre', []))
    st.postconditions.extend(_src(c) for c in js.get('post', []))
    st.invariants.extend(_src(c) for c in js.get('inv', []))
    return st


def chart_from_json(j):
    sc = Statechart(j['name'], description=j.get('description'), preamble=_src(j.get('preamble')))
    parent = {n: p for n, p in j['parent']}
    by_name = {s['name']: s for s in j['states']}
    children = {p: list(l) for p, l in j['children']}
    done = set()

    def add(n):
        if n in done or n not in by_name:
            return
        done.add(n)
        sc.add_state(state_from_json(by_name[n]), parent.get(n))
        for c in children.get(n, []):
            add(c)
    for r in children.get(None, []):
        add(r)
    for s in j['states']:       # anything unreachable through the children lists
        p = parent.get(s['name'])
        if s['name'] not in done and (p is None or p in done):
            add(s['name'])
    for t in sorted(j['transitions'], key=lambda t: t['id']):
        tr = Transition(t['source'], t.get('target'), event=t.get('event'), guard=_src(t.get('guard')),
                        action=_src(t.get('action')), priority=t.get('priority', 0))
        tr.preconditions.extend(_src(c) for c in t.get('pre', []))
        tr.postconditions.extend(_src(c) for c in t.get('post', []))
        tr.invariants.extend(_src(c) for c in t.get('inv', []))
        sc.add_transition(tr)
    return sc
