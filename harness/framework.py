"""The decision procedure of a check (DESIGN.md §1.2).

A property module provides a `Prop` subclass.  `run_check` builds and audits the Lean development,
runs the corpus and the generated cases on the implementation and on the model, evaluates the
property's oracle on the *implementation's* observation, classifies what it saw, writes the
evidence file and returns the exit code."""
import collections
import json
import multiprocessing
import os
import random
import sys
import time
import traceback

from . import engine


CASE_TIMEOUT = 20
MAX_TIMEOUTS_PER_WORKER = 2   # a change that makes the implementation hang is reported, not waited for


class Case:
    """One protocol case. `payload` is JSON (sent to the driver as it is); `aux` is whatever the
    implementation side needs in addition and can be rebuilt from `payload` by `Prop.rebuild`."""

    def __init__(self, payload, aux=None, origin='gen', model_ok=True):
        self.payload = payload
        self.aux = aux
        self.origin = origin
        self.model_ok = model_ok     # False: outside the modelled subset — implementation only


class Result:
    def __init__(self):
        self.disagreement = None     # str: where model and implementation differ
        self.violations = []         # list of str: the property's oracle failed on the implementation
        self.features = set()        # what happened in this case (for the measured distribution)
        self.nontrivial = False
        self.model_skipped = False
        self.error = None            # machinery error
        self.model_violations = []   # (search mode) the oracle evaluated on the *model's* observation


class Prop:
    id = 'C00'
    title = ''
    quick_cases = 150
    thorough_cases = 3000
    rule = ''
    trusted = []
    level = 'proof'

    # --- to be provided by the property
    def gen_case(self, rnd, tier):
        raise NotImplementedError

    def rebuild(self, payload):
        """aux from payload (replay / corpus)"""
        return None

    def run_impl(self, case):
        """observation of the real code"""
        raise NotImplementedError

    def oracle(self, case, impl_obs, res):
        """fill res.violations / res.features / res.nontrivial from the implementation's observation"""
        raise NotImplementedError

    def normalize(self, obs):
        """projection of an observation on what is compared between model and implementation"""
        return obs

    def shrink_candidates(self, case):
        """smaller variants of a failing case (payload level)"""
        return []

    def known_signature(self, finding, case, res):
        """does this failing case match the open known finding?"""
        return False

    def extra_build(self):
        """property-specific (re)generation, e.g. Tie tables from /repo. Returns (ok, message)."""
        return True, ''

    def extra_evidence(self):
        return {}

    # --- generic
    def run_case(self, case, driver):
        res = Result()
        try:
            impl_obs = self.run_impl(case)
        except engine.MachineryError:
            raise
        except Exception:
            res.error = 'implementation harness crashed: ' + traceback.format_exc()[-1500:]
            return res, None, None
        try:
            self.oracle(case, impl_obs, res)
            if hasattr(self, 'post_oracle'):
                self.post_oracle(case, impl_obs, res)
        except Exception:
            res.error = 'oracle crashed: ' + traceback.format_exc()[-1500:]
            return res, impl_obs, None
        model_obs = None
        if not case.model_ok:
            case.payload['no_model'] = True       # remembered in the payload: replays and shrunk cases keep it
        if case.model_ok and not case.payload.get('no_model') and driver is not None:
            model_obs = driver.ask(case.payload)
            d = engine.diff(self.normalize(impl_obs), self.normalize(model_obs))
            if d:
                res.disagreement = d
            if getattr(self, 'search_model', False):
                # failing-input search: does the *model* violate the property on this input?
                rm = Result()
                try:
                    self.oracle(case, model_obs, rm)
                    res.model_violations = list(rm.violations)
                except Exception:
                    pass
        else:
            res.model_skipped = True
        return res, impl_obs, model_obs


class CaseTimeout(BaseException):
    """not an `Exception`: the code under test catches those (and would go on looping)"""


_ARMED = [0.0, 0.0, 20]  # wall clock and CPU time of this process when the watchdog was armed, and the allowance


def _on_alarm(signum, frame):
    # a busy machine is not a hang: the case is given up when this process itself has computed for most of the
    # allowance (an endless loop of the code under test does), or when six times the allowance has passed
    wall = time.time() - _ARMED[0]
    cpu = time.process_time() - _ARMED[1]
    if cpu < 0.6 * _ARMED[2] and wall < 6 * _ARMED[2]:
        return
    raise CaseTimeout('case did not finish within %d s' % _ARMED[2])


def _arm(seconds=None):
    import signal
    _ARMED[0], _ARMED[1], _ARMED[2] = time.time(), time.process_time(), seconds or CASE_TIMEOUT
    signal.signal(signal.SIGALRM, _on_alarm)
    signal.setitimer(signal.ITIMER_REAL, seconds or CASE_TIMEOUT, 1.0)   # re-fires should it be swallowed


def _disarm():
    import signal
    signal.setitimer(signal.ITIMER_REAL, 0)


def rebuild_any(prop, payload):
    """the auxiliary objects of a case; none for a case that stands for its own generation (see `run_any`)"""
    if payload.get('kind') == 'gen-hang':
        return None
    return prop.rebuild(payload)


def run_any(prop, case, driver):
    """Generators that plan edits or scripts against the real objects can be made to hang by the code under test.
    Such a case is kept as the seed it was generated from: running it generates it again (under the same watchdog)
    and then runs it."""
    if case.payload.get('kind') == 'gen-hang':
        try:
            c2 = prop.gen_case(random.Random(case.payload['gen_seed']), case.payload['tier'])
        except CaseTimeout:
            raise
        except Exception:
            res = Result()
            res.violations.append('while the case was being generated (valid edits and queries of a valid statechart): '
                                  + traceback.format_exc().strip().splitlines()[-1][:200])
            return res, None, None
        return prop.run_case(c2, driver)
    return prop.run_case(case, driver)


def corpus_cases(prop):
    d = os.path.join(engine.VERIF, 'corpus', prop.id)
    out = []
    if os.path.isdir(d):
        for f in sorted(os.listdir(d)):
            if f.endswith('.json'):
                payload = json.load(open(os.path.join(d, f)))
                payload = payload.get('case', payload)
                c = Case(payload, rebuild_any(prop, payload), origin='corpus:' + f)
                out.append(c)
    return out


def _worker(args):
    prop_mod, prop_cls, seeds, tier = args[:4]
    import importlib
    mod = importlib.import_module(prop_mod)
    prop = getattr(mod, prop_cls)()
    prop.search_model = len(args) > 4 and bool(args[4])
    driver = None
    try:
        driver = engine.Driver()
    except engine.MachineryError:
        driver = None
    out = []
    import signal

    timeouts = 0
    for seed in seeds:
        if timeouts >= MAX_TIMEOUTS_PER_WORKER:
            break
        rnd = random.Random(seed)
        case = None
        try:
            _arm()
            case = prop.gen_case(rnd, tier)
            res, io, mo = prop.run_case(case, driver)
            _disarm()
        except CaseTimeout as e:
            _disarm()
            timeouts += 1
            res = Result()
            # a hang of the implementation on a generated input is reported as a violation with
            # the input as replay (the oracle could not be evaluated)
            if case is not None:
                res.violations.append(str(e))
            else:
                # the generator itself did not return: the case is the seed it was generated from
                case = Case({'kind': 'gen-hang', 'gen_seed': seed, 'tier': tier}, None)
                res.violations.append('while the case was being generated (edits and scripts are planned against the real '
                                      'objects): ' + str(e))
            if driver:
                driver.close()
            try:
                driver = engine.Driver()
            except engine.MachineryError:
                driver = None
        except Exception:
            _disarm()
            res = Result()
            tb = traceback.format_exc()
            last = [l for l in tb.splitlines() if l.startswith('  File ')][-1:]
            if case is None and last and '/sismic/' in last[0] and '/harness/' not in last[0]:
                # raised inside the library while the case was being generated (edits and scripts are planned against
                # the real objects, with arguments that are valid): the case is the seed it was generated from
                case = Case({'kind': 'gen-hang', 'gen_seed': seed, 'tier': tier}, None)
                res.violations.append('while the case was being generated (valid edits and queries of a valid statechart): '
                                      + tb.strip().splitlines()[-1][:200])
            else:
                res.error = tb[-1500:]
                case = None
        keep = None
        if case is not None and (res.violations or res.disagreement or res.error or res.model_violations):
            keep = case.payload
        out.append((seed, engine.case_hash(case.payload) if case else None, res, keep,
                    (case.payload if (case is not None and seed == seeds[0]) else None)))
    if driver:
        driver.close()
    return out


def guarded_run(prop, case, driver):
    """`prop.run_case` under the watchdog: a case on which the implementation does not return yields
    a result that says so"""
    try:
        _arm()
        out = run_any(prop, case, driver)
        _disarm()
        return out
    except CaseTimeout as e:
        _disarm()
        if driver:
            driver.restart()
        res = Result()
        res.violations.append(str(e))
        return res, None, None


def same_failure(res0):
    """shrinking keeps the failure it started from: a candidate counts only if its first violation reads the same
    once numbers, names and quoted or bracketed data are taken out (a smaller input that fails for another reason —
    because it is not a valid input any more, say — is not a smaller witness)"""
    import re

    def sig(res):
        if not res.violations:
            return None
        t = re.sub(r"'[^']*'|\"[^\"]*\"|\[[^\]]*\]|\{[^}]*\}|\([^)]*\)", '', str(res.violations[0]))
        t = re.sub(r'[0-9]+', '', t)
        return re.sub(r'\s+', ' ', t)[:48]
    s0 = sig(res0)
    return lambda r: bool(r.violations) and sig(r) == s0


def shrink(prop, case, driver, pred):
    """greedy delta debugging with the property's own candidate generator (bounded: 300 candidates,
    45 s; a candidate on which the implementation does not return ends the shrinking)"""
    cur = case
    if case.payload.get('kind') == 'gen-hang':
        return case
    budget = 300
    deadline = time.time() + 45
    improved = True
    while improved and budget > 0 and time.time() < deadline:
        improved = False
        for payload in prop.shrink_candidates(cur):
            budget -= 1
            if budget <= 0 or time.time() > deadline:
                break
            try:
                _arm(5)
                c = Case(payload, prop.rebuild(payload), origin='shrunk', model_ok=cur.model_ok)
                res, _, _ = prop.run_case(c, driver)
                _disarm()
            except CaseTimeout:
                _disarm()
                if driver:
                    driver.restart()
                return cur
            except Exception:
                _disarm()
                continue
            if pred(res):
                cur = c
                improved = True
                break
    return cur


def fails_alone(prop, payload):
    """does a fresh process, given this input only, report a violation?"""
    import subprocess
    import tempfile
    d = tempfile.mkdtemp(prefix='vp_alone_')
    try:
        path = os.path.join(d, 'case.json')
        engine.write_json(path, {'property': prop.id, 'case': payload})
        env = dict(os.environ, VERIF_REPLAY_DIR=os.path.join(d, 'out'))
        try:
            p = subprocess.run([sys.executable, '-m', 'harness.check', prop.id, '--replay', path, '--no-evidence'],
                               cwd=engine.VERIF, env=env, stdout=subprocess.PIPE, stderr=subprocess.STDOUT, timeout=180)
        except subprocess.TimeoutExpired:
            return False
        return p.returncode == 1
    finally:
        import shutil
        shutil.rmtree(d, ignore_errors=True)


def run_check(prop, tier, seed, replay=None, jobs=None, n_cases=None, write_evidence=True):
    t0 = time.time()
    jobs = jobs or (8 if tier == 'quick' else 16)
    out_lines = []
    notes = []

    # ---- 1. build + audit -------------------------------------------------------------------
    ok_extra, msg_extra = prop.extra_build()
    ok_build, build_out = engine.lake_build()
    bad_tokens = engine.audit_sources() if ok_build else []
    names = engine.theorems_of(prop.id)
    axioms = engine.print_axioms(prop.id, names) if ok_build else {}
    discharged = [n for n in names if n in axioms and set(axioms[n]) <= engine.ALLOWED_AXIOMS]
    proof_broken = []
    if not ok_build:
        proof_broken.append('lake build failed: ' + build_out[-2000:])
    if not ok_extra:
        proof_broken.append('tie/extraction failed: ' + msg_extra)
    if bad_tokens:
        proof_broken.append('forbidden tokens: ' + '; '.join(bad_tokens))
    for n in names:
        if n not in discharged:
            proof_broken.append('theorem not discharged or inadmissible axioms: %s %s' % (n, axioms.get(n)))
    if ok_build and not names:
        proof_broken.append('no theorem found for ' + prop.id)
    recheck = None
    if ok_build and tier == 'thorough' and not replay and not os.environ.get('VERIF_NO_LEANCHECKER'):
        ok_rc, n_mods, secs, rc_out = engine.leanchecker(prop.id)
        recheck = {'tool': 'leanchecker', 'modules': n_mods, 'seconds': secs, 'ok': ok_rc}
        if not ok_rc:
            proof_broken.append('leanchecker rejected the compiled proofs: ' + rc_out)

    driver = None
    if ok_build:
        try:
            driver = engine.Driver()
        except engine.MachineryError as e:
            proof_broken.append(str(e))

    # ---- 2. cases -------------------------------------------------------------------------------
    results = []      # (origin, hash, Result, payload-if-interesting)
    samples = []
    if replay:
        payload = json.load(open(replay))
        payload = payload.get('case', payload)
        cases = [Case(payload, rebuild_any(prop, payload), origin='replay')]
    else:
        cases = corpus_cases(prop)
    for c in cases:
        try:
            _arm()
            res, io, mo = run_any(prop, c, driver)
            _disarm()
        except CaseTimeout as e:
            _disarm()
            res = Result()
            res.violations.append(str(e))
            if driver:
                driver.close()
            try:
                driver = engine.Driver()
            except engine.MachineryError:
                driver = None
        results.append((c.origin, engine.case_hash(c.payload), res, c.payload))
    if not replay:
        n = n_cases or (prop.quick_cases if tier == 'quick' else prop.thorough_cases)
        master = random.Random(seed)
        seeds = [master.getrandbits(48) for _ in range(n)]
        chunks = [seeds[i::jobs] for i in range(jobs)]
        chunks = [c for c in chunks if c]
        args = [(prop.__class__.__module__, prop.__class__.__name__, ch, tier) for ch in chunks]
        if jobs > 1 and len(chunks) > 1:
            with multiprocessing.Pool(len(chunks)) as pool:
                outs = pool.map(_worker, args)
        else:
            outs = [_worker(a) for a in args]
        for out in outs:
            for (s, h, res, keep, sample) in out:
                results.append(('seed:%d' % s, h, res, keep))
                if sample is not None and len(samples) < 2:
                    samples.append(sample)

    # ---- 3. classify ----------------------------------------------------------------------------
    machinery = [r for r in results if r[2].error]
    viol = [r for r in results if r[2].violations and not r[2].error]
    disag = [r for r in results if r[2].disagreement and not r[2].violations and not r[2].error]
    features = collections.Counter()
    nontrivial = set()
    evaluations = 0
    validated = 0
    skipped = 0
    for origin, h, res, _ in results:
        evaluations += 1
        features.update(res.features)
        if res.nontrivial and h:
            nontrivial.add(h)
        if res.model_skipped:
            skipped += 1
        elif not res.disagreement and not res.error:
            validated += 1

    known = [f for f in engine.load_known_findings()
             if f.get('property') == prop.id and f.get('status') == 'open']
    exit_code = 0
    nviol = 0
    replay_dir = os.environ.get('VERIF_REPLAY_DIR') or os.path.join(engine.VERIF, 'replays')

    def report(kind, origin, payload, text, suffix=''):
        nonlocal exit_code, nviol
        path = os.path.join(replay_dir, '%s_%s_%s.json' % (prop.id, kind, engine.case_hash(payload)))
        engine.write_json(path, {'property': prop.id, 'kind': kind, 'origin': origin, 'what': text,
                                 'case': payload})
        out_lines.append('VIOLATION property=%s replay=%s%s' % (prop.id, path, suffix))
        exit_code = 1
        nviol += 1

    seen_known = set()
    reported = 0
    unmatched = []
    for origin, h, res, payload in viol:
        case = Case(payload, rebuild_any(prop, payload), origin=origin)
        matched = None
        for f in known:
            if prop.known_signature(f, case, res):
                matched = f
                break
        if matched is not None:
            seen_known.add(matched['id'])
            continue
        unmatched.append((origin, res, case))
    # a replay is run by a fresh process: a failure that needs what this worker ran before (a cache of the code under
    # test filled by earlier cases) is a failure all the same, but the inputs that fail on their own are reported first
    alone = {}
    if not replay and len(unmatched) > 1:
        budget = 10
        for i, (origin, res, case) in enumerate(unmatched):
            if budget <= 0 or sum(alone.values()) >= 3:
                break
            if any('did not finish' in v for v in res.violations):
                alone[i] = True         # (a hang: running it again costs the allowance again)
                continue
            budget -= 1
            alone[i] = fails_alone(prop, case.payload)
        order = sorted(range(len(unmatched)), key=lambda i: (not alone.get(i, False), i))
        unmatched = [unmatched[i] for i in order]
    for origin, res, case in unmatched:
        if reported >= 3:
            nviol += 1
            continue
        small = shrink(prop, case, driver, same_failure(res))
        r2, _, _ = guarded_run(prop, small, driver)
        if not replay and small.payload != case.payload and r2.violations \
                and not any('did not finish' in v for v in r2.violations) and not fails_alone(prop, small.payload) \
                and fails_alone(prop, case.payload):
            small, r2 = case, res         # (the shrunk input only fails in this process)
        text = '; '.join((r2.violations or res.violations)[:3])
        report('violation', origin, small.payload, text)
        reported += 1
    for f in known:
        # a known finding is announced whenever its witness still fails (corpus) or it was met
        if f['id'] in seen_known:
            out_lines.append('KNOWN-FINDING: property=%s %s' % (prop.id, f['what']))
    if machinery and exit_code == 0:
        # cases the machinery could not evaluate, and no violation to report: the check is broken, not passed
        # (known findings do not hide them)
        for origin, h, res, payload in machinery[:3]:
            sys.stderr.write('MACHINERY ERROR (%s): %s\n' % (origin, res.error))
        exit_code = 2

    searched = 0
    model_cex = None
    if exit_code == 0 and (disag or proof_broken) and not replay:
        # the property is no longer *shown* to hold.  Search for a concrete failing input: a fresh,
        # larger batch of generated cases (other seeds, thorough knobs) on which the oracle is
        # evaluated on the implementation *and* on the model.
        n2 = 3 * (n_cases or (prop.quick_cases if tier == 'quick' else prop.thorough_cases))
        master2 = random.Random(seed ^ 0x5EA2C4)
        seeds2 = [master2.getrandbits(48) for _ in range(n2)]
        chunks2 = [c for c in (seeds2[i::jobs] for i in range(jobs)) if c]
        args2 = [(prop.__class__.__module__, prop.__class__.__name__, ch, 'thorough', True) for ch in chunks2]
        if jobs > 1 and len(chunks2) > 1:
            with multiprocessing.Pool(len(chunks2)) as pool:
                outs2 = pool.map(_worker, args2)
        else:
            outs2 = [_worker(a) for a in args2]
        for out in outs2:
            for (s2, h2, res2, keep2, _) in out:
                searched += 1
                if res2.error or keep2 is None:
                    continue
                if res2.model_violations and model_cex is None:
                    model_cex = (keep2, res2.model_violations[:2])
                if res2.violations and reported < 3:
                    case = Case(keep2, rebuild_any(prop, keep2), origin='search:%d' % s2)
                    if any(prop.known_signature(f, case, res2) for f in known):
                        continue
                    small = shrink(prop, case, driver, same_failure(res2))
                    r3, _, _ = guarded_run(prop, small, driver)
                    report('violation', 'search:%d' % s2, small.payload,
                           'found by the failing-input search after a broken obligation: '
                           + '; '.join((r3.violations or res2.violations)[:3]))
                    reported += 1

    if exit_code == 0 and (disag or proof_broken):
        # say which obligation broke; a failing input was searched for (the oracle ran on the
        # implementation for every case of this run and of the search batch) and not found
        what = []
        if searched:
            what.append('failing-input search: %d further cases, none fails on the implementation' % searched)
        if model_cex is not None:
            what.append('the MODEL violates the property on the attached search case (%s): model and code disagree there'
                        % '; '.join(model_cex[1]))
        if proof_broken:
            what += proof_broken
        payload = {'note': 'no failing input found'}
        if disag:
            origin, h, res, payload0 = disag[0]
            case = Case(payload0, prop.rebuild(payload0), origin=origin)
            small = shrink(prop, case, driver, lambda r: bool(r.disagreement) and not r.violations)
            r2, _, _ = guarded_run(prop, small, driver)
            what.append('correspondence model/implementation broken (%d cases), e.g. %s'
                        % (len(disag), r2.disagreement or res.disagreement))
            payload = small.payload
        report('unproved', 'tie', payload, ' | '.join(what)[:3000], ' no-failing-input-found')

    # ---- 4. evidence ----------------------------------------------------------------------------
    ev = {
        'property_id': prop.id, 'tier': tier, 'seed': seed, 'level': prop.level,
        'wall_s': round(time.time() - t0, 2), 'violations': nviol,
        'coverage': dict({
            'obligations': len(names), 'discharged': len(discharged),
            'theorems': {n: axioms.get(n) for n in names},
            'checker_cmd': 'cd lean && lake build && lake env lean <#print axioms of every theorem of Sismic/Props/%s.lean>' % prop.id,
            'trusted_base': ['Lean 4.33.0 kernel', 'axioms: propext, Classical.choice, Quot.sound (audited per theorem)',
                             'correspondence harness (harness/*.py) tying the hand-written model to /repo']
                            + list(prop.trusted),
            'evaluations': evaluations, 'distinct_nontrivial': len(nontrivial),
            'traces_validated_against_impl': validated,
            'cases_outside_model_subset': skipped,
            'disagreements_model_vs_impl': len(disag),
            'rule': prop.rule, 'samples': samples[:2] if samples else [r[3] for r in results[:1]],
            'distribution': dict(features.most_common(60)),
            'sismic_file': _sismic_file(),
            'independent_recheck': recheck,
        }, **prop.extra_evidence()),
        'assumptions': list(prop.trusted),
    }
    if not replay and write_evidence:
        engine.write_json(os.path.join(engine.VERIF, 'evidence', prop.id + '.json'), ev)
    if driver:
        driver.close()
    for l in out_lines:
        print(l)
    print('%s tier=%s seed=%d cases=%d nontrivial=%d validated=%d theorems=%d/%d violations=%d exit=%d (%.1fs)'
          % (prop.id, tier, seed, evaluations, len(nontrivial), validated, len(discharged), len(names),
             nviol, exit_code, time.time() - t0))
    return exit_code


def _sismic_file():
    try:
        import sismic
        return sismic.__file__
    except Exception as e:   # pragma: no cover
        return 'import failed: %r' % (e,)
