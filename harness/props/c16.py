"""C16 — structural editing keeps a statechart sound; failed edits change nothing."""
import copy

from sismic.exceptions import StatechartError
from sismic.model import (BasicState, CompoundState, DeepHistoryState, FinalState, OrthogonalState,
                          ShallowHistoryState, Transition, TransitionStateMixin)

from .. import gen, engine
from ..decode import chart_from_json, state_from_json
from ..encode import ChartEnc, enc_code, kind_of
from ..framework import Case, Prop

KINDS = {'basic': BasicState, 'compound': CompoundState, 'orthogonal': OrthogonalState, 'final': FinalState,
         'shallow': ShallowHistoryState, 'deep': DeepHistoryState}


def snapshot(sc):
    def codes(l):
        return list(l)
    sts = []
    for n in sc.states:
        st = sc.state_for(n)
        sts.append({'name': n, 'kind': kind_of(st), 'initial': getattr(st, 'initial', None),
                    'memory': getattr(st, 'memory', None), 'parent': sc.parent_for(n),
                    'children': list(sc.children_for(n)),
                    'on_entry': getattr(st, 'on_entry', None), 'on_exit': getattr(st, 'on_exit', None),
                    'pre': codes(st.preconditions), 'post': codes(st.postconditions), 'inv': codes(st.invariants)})
    ts = [{'source': t.source, 'target': t.target, 'event': t.event, 'guard': t.guard, 'action': t.action,
           'priority': t.priority, 'pre': codes(t.preconditions), 'post': codes(t.postconditions),
           'inv': codes(t.invariants)} for t in sc.transitions]
    try:
        valid = bool(sc.validate())
    except StatechartError:
        valid = False
    return {'root': sc.root, 'valid': valid, 'states': sts, 'transitions': ts}


def trans_from_json(t):
    tr = Transition(t['source'], t.get('target'), event=t.get('event'),
                    guard=(t.get('guard') or {}).get('src') if isinstance(t.get('guard'), dict) else t.get('guard'),
                    action=(t.get('action') or {}).get('src') if isinstance(t.get('action'), dict) else t.get('action'),
                    priority=t.get('priority', 0))
    return tr


def invariants(sc):
    """the structural soundness C16 promises (public API only); returns a message or None"""
    names = sc.states
    roots = [n for n in names if sc.parent_for(n) is None]
    if len(roots) > 1:
        return 'several roots %s' % roots
    for n in names:
        if sc.state_for(n).name != n:
            return 'state registered as %s is named %s' % (n, sc.state_for(n).name)
        p = sc.parent_for(n)
        if p is not None and (p not in names or n not in sc.children_for(p)):
            return 'parent/children inconsistent at %s' % n
        ch = sc.children_for(n)
        if len(set(ch)) != len(ch):
            return 'duplicate child of %s' % n
        for c in ch:
            if c not in names or sc.parent_for(c) != n:
                return 'child %s of %s has another parent' % (c, n)
        seen = set()
        x = n
        while x is not None:
            if x in seen:
                return 'cycle through %s' % n
            seen.add(x)
            x = sc.parent_for(x)
    for t in sc.transitions:
        if t.source not in names or not isinstance(sc.state_for(t.source), TransitionStateMixin):
            return 'transition from %s which cannot own transitions' % t.source
        if t.target is not None and t.target not in names:
            return 'transition to unknown state %s' % t.target
    return None


class C16(Prop):
    id = 'C16'
    quick_cases = 3000
    thorough_cases = 50000
    rule = ('random edit scripts of ~30 add/remove/rename/move state and add/remove/rotate transition calls (≈30 % '
            'invalid arguments: unknown names, existing names, descendants as new parent, final/history sources, …) on '
            'random valid charts; after every call the full public post-state (states, kinds, parent_for, children_for '
            'with order, initial/memory, transitions with order, validate()) and the exception class are compared with '
            'the model; oracle on the implementation: soundness invariants after every successful call, validate() '
            'passes unless a dangling reference was carried in by an added state, documented effect of remove / rename '
            '(= substitution of the name) / move, and an unchanged post-state whenever StatechartError / ValueError is '
            'raised; non-trivial = a script with ≥1 failing call of ≥3 different operations')

    def gen_case(self, rnd, tier):
        kn = gen.Knobs(code=rnd.random() < 0.3, contracts=0.2 if rnd.random() < 0.3 else 0.0,
                       max_states=rnd.choice([5, 9, 14]), wf=False)
        g = gen.ChartGen(rnd, kn)
        sc = g.build()
        enc = ChartEnc(sc)
        ops = []
        # the script is generated against the real object (names in use change along the way)
        sc2 = copy.deepcopy(sc)
        from ..framework import CaseTimeout
        for _ in range(rnd.randint(10, 40)):
            try:
                names = sc2.states
                if not names:
                    break

                def pick():
                    return rnd.choice(names + ['nope']) if rnd.random() < 0.15 else rnd.choice(names)
                k = rnd.choice(['add_state', 'remove_state', 'rename_state', 'move_state', 'add_transition',
                                'remove_transition', 'rotate_transition', 'rotate_transition', 'validate'])
                if k == 'add_state':
                    kind = rnd.choice(list(KINDS))
                    nm = rnd.choice(names) if rnd.random() < 0.12 else g.fresh()
                    js = {'name': nm, 'kind': kind, 'initial': None, 'memory': None}
                    if kind == 'compound' and rnd.random() < 0.3:
                        js['initial'] = pick()
                    if kind in ('shallow', 'deep') and rnd.random() < 0.5:
                        js['memory'] = pick()
                    op = [k, js, None if rnd.random() < 0.05 else pick()]
                    if js['memory'] is not None and op[2] in names and rnd.random() < 0.5:
                        # a memory that fits: a state that already is a child of the chosen parent
                        sibs = list(sc2.children_for(op[2]))
                        if sibs:
                            js['memory'] = rnd.choice(sibs)
                elif k == 'remove_state':
                    n = pick()
                    if n == sc2.root and rnd.random() < 0.9:
                        continue
                    op = [k, n]
                elif k == 'rename_state':
                    op = [k, pick(), rnd.choice(names + [g.fresh(), g.fresh(), g.fresh()])]
                elif k == 'move_state':
                    op = [k, pick(), pick()]
                elif k == 'add_transition':
                    op = [k, {'id': 0, 'source': pick(), 'target': rnd.choice([None, pick(), pick()] + ([''] if rnd.random() < 0.25 else [])),
                              'event': rnd.choice([None, 'e', 'f']), 'guard': None, 'action': None,
                              'priority': rnd.choice([0, 0, 1, -1, 5])}]
                    if sc2.transitions and rnd.random() < 0.3:
                        # a look-alike of a transition that is there: same ends and event, another priority or guard
                        t0 = rnd.choice(sc2.transitions)
                        j0 = copy.deepcopy(ChartEnc(sc2).json['transitions'][ChartEnc(sc2).tid(t0)])
                        c = rnd.random()
                        if c < 0.4:
                            j0['priority'] = rnd.choice([p for p in (-1, 0, 1, 2, 5) if p != j0.get('priority', 0)])
                        elif c < 0.7:
                            j0['guard'] = enc_code(rnd.choice(['x > 1', 'x < 5', 'v0']), 'eval')[0]
                        else:
                            # … or nothing but another contract
                            kind = rnd.choice(['pre', 'post', 'inv'])
                            j0[kind] = list(j0.get(kind, [])) + [enc_code(rnd.choice(['x >= 0', 'x + 1 > x', 'y >= 0']), 'eval')[0]]
                        op = [k, j0]
                elif k == 'remove_transition':
                    ts = sc2.transitions
                    if ts and rnd.random() < 0.85:
                        t = rnd.choice(ts)
                        op = [k, ChartEnc(sc2).json['transitions'][ChartEnc(sc2).tid(t)]]
                        if rnd.random() < 0.15:
                            # a transition that is not registered: it differs from a registered one in a contract only
                            j0 = copy.deepcopy(op[1])
                            kind = rnd.choice(['pre', 'post', 'inv'])
                            if j0.get(kind) and rnd.random() < 0.5:
                                j0[kind] = list(j0[kind])[:-1]
                            else:
                                j0[kind] = list(j0.get(kind, [])) + [enc_code('x * 2 >= x', 'eval')[0]]
                            op = [k, j0]
                    else:
                        op = [k, {'id': 0, 'source': pick(), 'target': None, 'event': 'never', 'guard': None,
                                  'action': None, 'priority': 0}]
                elif k == 'rotate_transition':
                    ts = sc2.transitions
                    i = rnd.randrange(len(ts)) if ts and rnd.random() < 0.9 else None
                    src = pick() if rnd.random() < 0.65 else None
                    r = rnd.random()
                    tgt = '<keep>' if r < 0.35 else (None if r < 0.5 else pick())
                    op = [k, i, src, tgt]
                else:
                    op = [k]
                ops.append(op)
                try:
                    apply_op(sc2, op)
                except (StatechartError, ValueError):
                    pass
            except CaseTimeout:
                # the object the script is generated against does not answer any more (the script so far made it
                # loop): the script so far is the case — running it reports the hang with this input as replay
                break
        payload = {'kind': 'edit', 'chart': enc.json, 'ops': ops}
        return Case(payload, {'chart': sc}, model_ok=True)

    def rebuild(self, payload):
        sc = chart_from_json(payload['chart'])
        payload['chart'] = ChartEnc(sc).json
        return {'chart': sc}

    def run_impl(self, case):
        sc = copy.deepcopy(case.aux['chart'])
        obs = []
        for op in case.payload['ops']:
            err = None
            try:
                apply_op(sc, op)
            except StatechartError:
                err = 'StatechartError'
            except ValueError:
                err = 'ValueError'
            except Exception as e:      # noqa
                err = 'OTHER:' + type(e).__name__
            obs.append({'err': err, 'chart': snapshot(sc)})
        return {'obs': obs}

    def oracle(self, case, obs, res):
        prev = snapshot(case.aux['chart'])
        dangling_ok = True       # no dangling reference was carried in by an added state so far
        failed = set()
        for i, (op, ob) in enumerate(zip(case.payload['ops'], obs['obs'])):
            cur = ob['chart']
            k = op[0]
            if ob['err'] is not None:
                failed.add(k)
                if ob['err'].startswith('OTHER'):
                    res.violations.append('op %d %s raised %s' % (i, k, ob['err']))
                if k == 'remove_transition':
                    src = lambda c: (c or {}).get('src') if isinstance(c, dict) else c
                    j = op[1]
                    want = {'source': j['source'], 'target': j.get('target'), 'event': j.get('event'),
                            'guard': src(j.get('guard')), 'action': src(j.get('action')), 'priority': j.get('priority', 0),
                            'pre': [src(c) for c in j.get('pre', [])], 'post': [src(c) for c in j.get('post', [])],
                            'inv': [src(c) for c in j.get('inv', [])]}
                    if any(t == want for t in prev['transitions']):
                        res.violations.append('op %d remove_transition of a transition the statechart holds raised %s' % (i, ob['err']))
                if k != 'validate' and cur != prev:
                    res.violations.append('op %d %s%s raised %s but changed the statechart: %s'
                                          % (i, k, op[1:], ob['err'], engine.diff(prev, cur)))
                prev = cur
                continue
            sc = None
            names = {s['name']: s for s in cur['states']}
            pnames = {s['name']: s for s in prev['states']}
            # soundness
            roots = [n for n, s in names.items() if s['parent'] is None]
            if len(roots) > 1:
                res.violations.append('op %d %s: several roots' % (i, k))
            for n, s in names.items():
                if s['parent'] is not None and (s['parent'] not in names or n not in names[s['parent']]['children']):
                    res.violations.append('op %d %s: parent/children inconsistent at %s' % (i, k, n))
                for c in s['children']:
                    if c not in names or names[c]['parent'] != n:
                        res.violations.append('op %d %s: child %s of %s inconsistent' % (i, k, c, n))
            for t in cur['transitions']:
                if t['source'] not in names or names[t['source']]['kind'] not in ('basic', 'compound', 'orthogonal'):
                    res.violations.append('op %d %s: transition from %s' % (i, k, t['source']))
                if t['target'] is not None and t['target'] not in names:
                    res.violations.append('op %d %s: transition to unknown %s' % (i, k, t['target']))
            if k == 'add_state':
                # exactly when validate() still passes (Lean: C16.validate_after_add_iff): a compound state arrives
                # without `initial`, a history state without `memory` or with one that already is another child of
                # the same parent
                js = op[1]
                fits = True
                if js['kind'] == 'compound' and js.get('initial'):
                    fits = False
                if js['kind'] in ('shallow', 'deep') and js.get('memory') is not None:
                    mem = js['memory']
                    fits = (mem != js['name'] and op[2] is not None and mem in pnames and pnames[mem]['parent'] == op[2])
                if not fits:
                    dangling_ok = False
                    if prev['valid'] and cur['valid']:
                        res.violations.append('op %d add_state%s: validate() passes although the new state does not fit '
                                              '(initial / memory that cannot be a child yet)' % (i, op[1:]))
            if dangling_ok and prev['valid'] and not cur['valid']:
                res.violations.append('op %d %s%s: validate() no longer passes' % (i, k, op[1:]))
            # documented effects
            if k == 'remove_state':
                gone = set(pnames) - set(names)
                exp = descendants(pnames, op[1]) | {op[1]}
                if gone != exp:
                    res.violations.append('op %d remove_state(%s) removed %s, expected %s' % (i, op[1], sorted(gone), sorted(exp)))
                keep = [t for t in prev['transitions'] if t['source'] not in exp and t['target'] not in exp]
                if cur['transitions'] != keep:
                    res.violations.append('op %d remove_state(%s): transitions are not exactly those not touching the removed states' % (i, op[1]))
                for s in cur['states']:
                    if s['initial'] in exp or s['memory'] in exp:
                        res.violations.append('op %d remove_state(%s): dangling initial/memory on %s' % (i, op[1], s['name']))
            if k == 'rename_state' and op[1] != op[2]:
                def m(x):
                    return op[2] if x == op[1] else x
                exp_states = sorted(({**s, 'name': m(s['name']), 'initial': m(s['initial']), 'memory': m(s['memory']),
                                      'parent': m(s['parent']), 'children': sorted(map(m, s['children']))}
                                     for s in prev['states']), key=lambda s: s['name'])
                got_states = [{**s, 'children': sorted(s['children'])} for s in cur['states']]
                exp_tr = [{**t, 'source': m(t['source']), 'target': m(t['target'])} for t in prev['transitions']]
                if got_states != exp_states or cur['transitions'] != exp_tr or cur['root'] != m(prev['root']):
                    res.violations.append('op %d rename_state(%s, %s) is not the substitution of the name: %s'
                                          % (i, op[1], op[2], engine.diff({'s': got_states, 't': cur['transitions']},
                                                                         {'s': exp_states, 't': exp_tr})))
            if k == 'move_state':
                n, p = op[1], op[2]
                if names[n]['parent'] != p:
                    res.violations.append('op %d move_state: parent not updated' % i)
                for s in cur['states']:
                    if s['initial'] == n or s['memory'] == n:
                        res.violations.append('op %d move_state(%s): %s still refers to it' % (i, n, s['name']))
                if set(names) != set(pnames) or cur['transitions'] != prev['transitions']:
                    res.violations.append('op %d move_state changed states or transitions' % i)
            if k in ('add_transition',):
                if cur['transitions'][:-1] != prev['transitions'] or len(cur['transitions']) != len(prev['transitions']) + 1:
                    res.violations.append('op %d add_transition: not appended' % i)
            if k == 'remove_transition':
                # exactly the first transition with the same source, target, event, guard, action, priority and
                # contract is gone (compared field by field: not through Transition.__eq__)
                def flat(j):
                    src = lambda c: (c or {}).get('src') if isinstance(c, dict) else c
                    return {'source': j['source'], 'target': j.get('target'), 'event': j.get('event'),
                            'guard': src(j.get('guard')), 'action': src(j.get('action')), 'priority': j.get('priority', 0),
                            'pre': [src(c) for c in j.get('pre', [])], 'post': [src(c) for c in j.get('post', [])],
                            'inv': [src(c) for c in j.get('inv', [])]}
                want = flat(op[1])
                idx = next((n for n, t in enumerate(prev['transitions']) if t == want), None)
                if idx is None:
                    res.violations.append('op %d remove_transition of a transition the statechart does not hold succeeded' % i)
                elif cur['transitions'] != prev['transitions'][:idx] + prev['transitions'][idx + 1:]:
                    res.violations.append('op %d remove_transition did not remove exactly the first transition equal to the '
                                          'given one (%s)' % (i, engine.diff(cur['transitions'],
                                                                             prev['transitions'][:idx] + prev['transitions'][idx + 1:])))
            if k in ('add_transition', 'remove_transition', 'rotate_transition') and cur['states'] != prev['states']:
                res.violations.append('op %d %s changed the states' % (i, k))
            if k == 'rotate_transition' and op[1] is not None:
                exp_tr = copy.deepcopy(prev['transitions'])
                if op[2] is not None:
                    exp_tr[op[1]]['source'] = op[2]
                if op[3] != '<keep>':
                    exp_tr[op[1]]['target'] = op[3]
                if cur['transitions'] != exp_tr:
                    res.violations.append('op %d rotate_transition%s: unexpected transitions' % (i, op[1:]))
            res.features.add(k + '-ok')
            prev = cur
        for k in failed:
            res.features.add(k + '-err')
        if len(failed - {'validate'}) >= 3:
            res.nontrivial = True

    def shrink_candidates(self, case):
        p = case.payload
        for i in range(len(p['ops']) - 1, -1, -1):
            q = copy.deepcopy(p)
            del q['ops'][i]
            yield q


def descendants(by_name, n):
    out = set()
    todo = [n]
    while todo:
        x = todo.pop()
        for c in by_name.get(x, {'children': []})['children']:
            if c not in out:
                out.add(c)
                todo.append(c)
    return out


def apply_op(sc, op):
    k = op[0]
    if k == 'add_state':
        js = op[1]
        sc.add_state(state_from_json({'name': js['name'], 'kind': js['kind'], 'initial': js.get('initial'),
                                      'memory': js.get('memory')}), op[2])
    elif k == 'remove_state':
        sc.remove_state(op[1])
    elif k == 'rename_state':
        sc.rename_state(op[1], op[2])
    elif k == 'move_state':
        sc.move_state(op[1], op[2])
    elif k == 'add_transition':
        t = trans_from_json(op[1])
        for c in op[1].get('pre', []):
            t.preconditions.append(c['src'])
        for c in op[1].get('post', []):
            t.postconditions.append(c['src'])
        for c in op[1].get('inv', []):
            t.invariants.append(c['src'])
        sc.add_transition(t)
    elif k == 'remove_transition':
        t = trans_from_json(op[1])
        for c in op[1].get('pre', []):
            t.preconditions.append(c['src'])
        for c in op[1].get('post', []):
            t.postconditions.append(c['src'])
        for c in op[1].get('inv', []):
            t.invariants.append(c['src'])
        sc.remove_transition(t)
    elif k == 'rotate_transition':
        ts = sc.transitions
        t = ts[op[1]] if op[1] is not None and op[1] < len(ts) else Transition('zzz-not-there', None, event='never')
        kw = {}
        if op[2] is not None:
            kw['new_source'] = op[2]
        if op[3] != '<keep>':
            kw['new_target'] = op[3]
        sc.rotate_transition(t, **kw)
    elif k == 'validate':
        sc.validate()
