"""C09 — contract checking is transparent."""
import copy
import json

from sismic.io import import_from_yaml

from .. import gen, oracles, engine
from ..encode import ChartEnc
from ..framework import Case
from ..interp_prop import InterpProp

import os
REPO = os.environ.get('SISMIC_REPO', '/repo')
SHIPPED = [REPO + '/docs/examples/elevator/elevator_contract.yaml',
           REPO + '/docs/examples/microwave/microwave.yaml',
           REPO + '/tests/yaml/microwave_with_contracts.yaml',
           REPO + '/docs/examples/elevator/elevator.yaml']
SHIPPED_EVENTS = {
    'elevator': [('floorSelected', 'floor', range(0, 6))],
    'microwave': [('door_opened',), ('door_closed',), ('item_placed',), ('item_removed',), ('timer_inc',),
                  ('timer_dec',), ('cooking_start',), ('cooking_stop',), ('timer_reset',), ('timer_tick',),
                  ('power_inc',), ('power_dec',), ('power_reset',)],
}


class C09(InterpProp):
    id = 'C09'
    # observables compared with the model (see InterpProp.normalize)
    cmp_eff = ('cond',)
    cmp_step = ()
    cmp_slot = ()
    cmp_callbacks = False
    cmp_err = 'full'
    cmp_time = False
    quick_cases = 1500
    thorough_cases = 20000
    n_ops = 30
    with_contracts = 0.7
    rule = ('every random chart with contracts (and, 1 case in 6, a shipped elevator/microwave contract chart under a '
            'random event script) is executed in lock-step with ignore_contract=False and =True on the same history; '
            'oracle: until a contract condition fails or errs both runs have identical macro steps, configurations, '
            'contexts, sent events, meta-events and non-contract effect logs; the ignoring run never evaluates a '
            'condition and never raises a ContractError; non-trivial = a run in which ≥10 conditions were evaluated '
            '(all true) by the checking side')

    def knobs(self, rnd, tier):
        hist = rnd.random() < 0.3
        return gen.Knobs(contracts=self.with_contracts, max_states=rnd.choice([6, 10, 16]), shared_code=rnd.choice([0.06, 0.06, 0.25]),
                         p_history=0.6 if hist else 0.15, history_focus=0.8 if hist else 0.0)

    def rewind_template(self, rnd):
        """a history state reached from outside its parent and then again from inside, the parent not being left in
        between: what it restores is what was remembered when the parent was last left, contracts or not"""
        from sismic.model import (BasicState, CompoundState, DeepHistoryState, ShallowHistoryState, Statechart, Transition)
        sc = Statechart('r', preamble='x = 0\ny = 0')
        sc.add_state(CompoundState('root', initial='P'), None)
        P = CompoundState('P', initial='t0')
        P.invariants.append('x >= __old__.x')
        sc.add_state(P, 'root')
        n = rnd.randint(3, 5)
        hk = rnd.choice([ShallowHistoryState, DeepHistoryState])
        sc.add_state(hk('h', memory='t0'), 'P')
        for i in range(n):
            st = BasicState('t%d' % i, on_entry='x += 1\ny = %d' % i)
            if rnd.random() < 0.5:
                st.postconditions.append('x > 0')
            if rnd.random() < 0.5:
                st.preconditions.append('x >= %d' % 0)
            sc.add_state(st, 'P')
        for i in range(n):
            sc.add_transition(Transition('t%d' % i, 't%d' % ((i + 1) % n), event='next'))
            if i:
                sc.add_transition(Transition('t%d' % i, 'h', event='rewind'))
        O = BasicState('O', on_entry='x += 10')
        O.postconditions.append('x >= __old__.x')
        sc.add_state(O, 'root')
        sc.add_transition(Transition('P', 'O', event='pause'))
        sc.add_transition(Transition('O', 'h', event='resume'))
        evs = ['next'] * rnd.randint(1, n - 1) + ['pause', 'resume'] + ['next'] * rnd.randint(1, n - 1) + ['rewind']
        evs += [rnd.choice(['next', 'rewind', 'pause', 'resume']) for _ in range(rnd.randint(2, 8))]
        ops1 = [['exec', 0, 0]]
        for k, e in enumerate(evs):
            ops1 += [['queue', 0, {'ev': e, 'data': []}], ['exec', 0, k + 1]]
        return sc, ops1

    def ignoring_world(self, rnd):
        """every interpreter of the client ignores contracts — the one that runs a property statechart too (handed over
        ready-made, the form of sismic < 1.4): no condition is evaluated anywhere, no ContractError comes out"""
        from .c10 import property_chart, KINDS
        kn = gen.Knobs(contracts=0.6, max_states=rnd.choice([5, 8]))
        sc = gen.ChartGen(rnd, kn).build()
        prop = property_chart(rnd.sample(KINDS, 3), 1000)
        prop.state_for('w').invariants.append('n < 0')          # false from the start: never looked at
        prop.state_for('w').preconditions.append('n > 100')
        ops = [['create', 0, True, [], 0], ['bindprop', 0, 1]] + gen.gen_ops(rnd, kn, 16)
        payload = {'kind': 'interp', 'charts': [ChartEnc(sc).json, ChartEnc(prop).json], 'ops': ops, 'prop_instance': True,
                   'prop_ignore': True, 'no_model': True, 'via_yaml': False}
        return Case(payload, {'charts': [sc, prop]}, model_ok=False)

    def gen_case(self, rnd, tier):
        if rnd.random() < 0.04:
            return self.ignoring_world(rnd)
        self._third = rnd.choice([False, False, 'checking', 'ignoring'])
        if rnd.random() < 1 / 6:
            path = rnd.choice(SHIPPED)
            try:
                sc = import_from_yaml(filepath=path)
            except Exception:
                sc = None
            if sc is not None:
                enc = ChartEnc(sc)
                fam = 'elevator' if 'elevator' in path else 'microwave'
                ops1 = []
                t = 0
                for _ in range(self.n_ops):
                    if rnd.random() < 0.5:
                        e = rnd.choice(SHIPPED_EVENTS[fam])
                        data = [[e[1], rnd.choice(list(e[2]))]] if len(e) > 1 else []
                        ops1.append(['queue', 0, {'ev': e[0], 'data': data}])
                    else:
                        t += rnd.choice([0, 1, 2, 5, 10])
                        ops1.append(['exec', 0, t])
                return self._pair(enc, sc, ops1)
        if rnd.random() < 0.03:
            sc, ops1 = self.rewind_template(rnd)
            return self._pair(ChartEnc(sc), sc, ops1)
        kn = self.knobs(rnd, tier)
        g = gen.ChartGen(rnd, kn)
        sc = g.build()
        mut = rnd.random() < 0.15
        if mut:
            gen.add_mutables(rnd, sc)
        grasping = not mut and rnd.random() < 0.1
        if grasping:
            # conditions reaching for what only executed code is given (setdefault, send, notify): conditions are
            # evaluated, not executed — such a condition is an error of the statechart, and an erring run is outside
            # the premise; were it to succeed it would write where the run ignoring contracts does not
            objs = [st for st in (sc.state_for(n) for n in sc.states)] + list(sc.transitions)
            for o in rnd.sample(objs, min(len(objs), rnd.randint(1, 3))):
                getattr(o, rnd.choice(['preconditions', 'postconditions', 'invariants'])).append(
                    rnd.choice(["setdefault('q', 1) == 1", "setdefault('x', 0) >= 0 or True", "send('zz') is None",
                                "notify('zz') is None"]))
        case = self._pair(ChartEnc(sc), sc, gen.gen_ops(rnd, kn, self.n_ops))
        if mut:
            # the implementation-side `__old__` channel: was a failing condition shown the documented __old__?
            case.payload['record_old'] = True
        elif grasping:
            case.payload['no_model'] = True
            case.model_ok = False
        elif rnd.random() < 0.12:
            # each interpreter has a clock of its own that moves whenever it is read (time passes between two
            # readings of a wall clock): checking contracts must not add readings (implementation only)
            case.payload['tick_clock'] = True
            case.payload['no_model'] = True
            case.model_ok = False
        return case

    def _pair(self, enc, sc, ops1):
        ops = [['create', 0, False, [], 0], ['create', 0, True, [], 0]]
        if getattr(self, '_third', False):
            # a third interpreter of the same statechart, created last and never run: its `ignore_contract` is its own
            ops.append(['create', 0, self._third == 'ignoring', [], 0])
        for op in ops1:
            ops.append(op)
            op2 = list(op)
            op2[1] = 1
            ops.append(op2)
        payload = {'kind': 'interp', 'charts': [enc.json], 'ops': ops}
        return Case(payload, {'charts': [sc]}, model_ok=enc.supported)

    @staticmethod
    def old_mismatch(r):
        snaps = {}
        last = None
        for e in r.get('oldchk', []):
            if e[0] == 'snap':
                snaps[json.dumps(e[1])] = e[2]
            else:
                want = snaps.get(json.dumps(e[2]))
                last = (e[4], want) if (want is not None and e[4] != want) else None
        return last       # about the last condition evaluated: the one that failed

    def shrink_candidates(self, case):
        p = case.payload
        ops = p['ops']
        n0 = sum(1 for op in ops if op[0] == 'create')
        for cut in (n0 + (len(ops) - n0) // 4 * 2, len(ops) - 2):
            if n0 < cut < len(ops):
                q = copy.deepcopy(p)
                q['ops'] = ops[:cut]
                yield q
        for i in range(len(ops) - 2, n0 - 1, -2):
            q = copy.deepcopy(p)
            del q['ops'][i:i + 2]
            yield q

    def oracle(self, case, obs, res):
        ops = case.payload['ops']
        clean = True
        nconds = 0
        if case.payload.get('prop_ignore'):
            n = 0
            for k, o in enumerate(obs['obs']):
                r = o['r']
                if not isinstance(r, dict):
                    continue
                n += len(oracles.meta_effects(r.get('eff', [])))
                if any(e[0] == 'cond' for e in r.get('eff', [])):
                    res.violations.append('op %d: a contract condition was evaluated although every interpreter was created '
                                          'with ignore_contract=True' % k)
                    return
                if r.get('outcome') == 'error' and r['err']['class'] in ('PreconditionError', 'PostconditionError', 'InvariantError'):
                    res.violations.append('op %d: %s raised although every interpreter was created with ignore_contract=True'
                                          % (k, r['err']['class']))
                    return
            if n >= 5:
                res.nontrivial = True
                res.features.add('all-ignoring')
            return
        for k in range(sum(1 for op in ops if op[0] == 'create'), len(ops) - 1, 2):
            a, b = obs['obs'][k], obs['obs'][k + 1]
            rb = b['r']
            if isinstance(rb, dict):
                if any(e[0] == 'cond' for e in rb.get('eff', [])):
                    res.violations.append('op %d: a contract condition was evaluated although ignore_contract=True' % k)
                if rb.get('outcome') == 'error' and rb['err']['class'] in ('PreconditionError', 'PostconditionError', 'InvariantError'):
                    res.violations.append('op %d: %s raised although ignore_contract=True' % (k, rb['err']['class']))
            if not clean:
                continue
            ra = a['r']
            if isinstance(ra, dict) and ra.get('outcome') == 'error' and ra['err']['class'] in (
                    'PreconditionError', 'PostconditionError', 'InvariantError'):
                clean = False
                res.features.add('contract-failed')
                w = self.old_mismatch(ra)
                if w:
                    res.violations.append('op %d: %s raised by the checking run on a condition that was shown %s as __old__ although '
                                          'the variables were %s when its state was entered / its transition started: with the '
                                          'documented __old__ no condition fails here, and the run ignoring contracts goes on'
                                          % (k, ra['err']['class'], w[0], w[1]))
                continue
            if isinstance(ra, dict) and ra.get('outcome') == 'error' and any(
                    e[0] == 'cond' and e[5] is None for e in ra.get('eff', [])):
                clean = False        # a condition erred
                res.features.add('contract-erred')
                continue
            if isinstance(ra, dict) and 'eff' in ra:
                nconds += sum(1 for e in ra['eff'] if e[0] == 'cond')
                ra = dict(ra, eff=[e for e in ra['eff'] if e[0] != 'cond'])
                ra.pop('oldchk', None)
                rb = dict(rb)
                rb.pop('oldchk', None)
            d = engine.diff(ra, rb)
            if d is None:
                d = engine.diff(b['world']['slots'][0], b['world']['slots'][1])
            if d:
                res.violations.append('op %d %s: run with contract checking differs from the run ignoring contracts: %s'
                                      % (k, ops[k][0], d))
                clean = False
        if nconds >= 10:
            res.nontrivial = True
        res.features.add('conds>=10' if nconds >= 10 else 'conds<10')
        if case.payload['charts'][0]['name'] != 'g':
            res.features.add('shipped:' + case.payload['charts'][0]['name'])
