"""C19 — BDD verdicts are sound."""
import ast
import copy
import json
import os
import re
import tempfile

from sismic.exceptions import StatechartError
from sismic.interpreter import Interpreter
from sismic.model import Event

from .. import gen, engine
from ..decode import chart_from_json
from ..encode import ChartEnc, enc_code
from ..framework import Case, Prop

REPO = os.environ.get('SISMIC_REPO', '/repo')


def lit(v):
    # (values are Python expressions, not only literals: some integers are written as sums)
    if isinstance(v, int) and not isinstance(v, bool) and v % 3 == 2:
        return '%d+1' % (v - 1)
    return repr(v)


def table(params):
    rows = ['      | parameter | value |'] + ['      | %s | %s |' % (k, lit(v)) for k, v in params]
    return '\n'.join(rows)


def act_text(a):
    k = a[0]
    if k == 'nothing':
        return 'I do nothing'
    if k == 'send':
        if len(a[2]) == 1:
            return 'I send event %s with %s=%s' % (a[1], a[2][0][0], lit(a[2][0][1]))
        if len(a[2]) > 1:
            return 'I send event %s\n%s' % (a[1], table(a[2]))
        return 'I send event %s' % a[1]
    if k == 'wait':
        if isinstance(a[1], float):
            return 'I wait %s seconds' % ('%.7f' % a[1]).rstrip('0')
        return 'I wait %d second%s' % (a[1], '' if a[1] == 1 else 's')
    if k == 'repeat':
        return 'I repeat "%s" %d times' % (act_text(a[1]), a[2])
    if k == 'reproduce':
        return 'I reproduce "%s"' % a[1]
    raise ValueError(a)


def assertion_text(a):
    k = a[0]
    t = {'entered': 'state %s is entered', 'not_entered': 'state %s is not entered', 'exited': 'state %s is exited',
         'not_exited': 'state %s is not exited', 'active': 'state %s is active', 'not_active': 'state %s is not active',
         'not_fired': 'event %s is not fired'}
    if k in t:
        return t[k] % a[1]
    if k == 'fired':
        if len(a[2]) == 1:
            return 'event %s is fired with %s=%s' % (a[1], a[2][0][0], lit(a[2][0][1]))
        if len(a[2]) > 1:
            # Gherkin table for all but the last parameter, which is given inline
            return 'event %s is fired with %s=%s\n%s' % (a[1], a[2][-1][0], lit(a[2][-1][1]), table(a[2][:-1]))
        return 'event %s is fired' % a[1]
    if k == 'no_event':
        return 'no event is fired'
    if k == 'var_eq':
        return 'variable %s equals %s' % (a[1], lit(a[2]))
    if k == 'var_ne':
        return 'variable %s does not equal %s' % (a[1], lit(a[2]))
    if k == 'expr':
        return 'expression "%s" holds' % a[1]['src']
    if k == 'not_expr':
        return 'expression "%s" does not hold' % a[1]['src']
    if k == 'final':
        return 'statechart is in a final configuration'
    if k == 'not_final':
        return 'statechart is not in a final configuration'
    raise ValueError(a)


def feature_text(scenarios):
    out = ['Feature: generated']
    for i, sc in enumerate(scenarios):
        out.append('  Scenario: s%d' % i)
        for st in sc:
            if st[0] == 'undefined':
                out.append('    Then the moon is made of cheese')
            elif st[0] in ('given', 'when'):
                out.append('    %s %s' % (st[0].capitalize(), act_text(st[1])))
            else:
                out.append('    Then %s' % assertion_text(st[1]))
    return '\n'.join(out) + '\n'


class SubStepFailed(Exception):
    pass


# ---- reference semantics on a plain interpreter (independent of sismic.bdd) -------------------------

def ref_scenario(sc, steps, want_trace=False):
    it = Interpreter(sc)
    trace = None
    monitoring = False
    out = []

    BUILTIN = ('step started', 'step ended', 'event consumed', 'event sent', 'delayed event sent',
               'state exited', 'state entered', 'transition processed')
    heard = []
    it.attach(heard.append)

    class Frozen:
        """what happened during a macro step, as the interpreter announced it while it happened (the states it
        said it entered and exited, the events it said were sent) — not what the returned MacroStep lists, and
        fixed when the step returns"""
        def __init__(self, m, metas):
            self.entered_states = [e.state for e in metas if e.name == 'state entered']
            self.exited_states = [e.state for e in metas if e.name == 'state exited']
            self.sent_events = [e.event if e.name == 'event sent' else e for e in metas
                                if e.name == 'event sent' or e.name not in BUILTIN]
            self.event = m.event

    def run_all():
        ms = []
        while True:
            del heard[:]
            m = it.execute_once()
            if m is None:
                return ms
            ms.append(Frozen(m, list(heard)))

    def do(kw, a):
        nonlocal trace, monitoring
        if a[0] == 'send':
            it.queue(Event(a[1], **{k: v for k, v in a[2]}))
        elif a[0] == 'wait':
            it.clock.time = it.clock.time + a[1]
        elif a[0] == 'repeat':
            for _ in range(a[2]):
                try:
                    do(kw, a[1])
                    after(kw)
                except Exception:
                    raise SubStepFailed()
        elif a[0] == 'reproduce':
            # the given / when steps of the named scenario, each as a step of its own under the keyword
            # of *this* step; an unknown scenario is a failed assertion
            if a[2] is None:
                raise SubStepFailed()
            for sub in a[2]:
                try:
                    do(kw, sub)
                    after(kw)
                except Exception:
                    raise SubStepFailed()

    def after(kw):
        nonlocal trace, monitoring
        ms = run_all()
        if kw == 'when':
            if not monitoring:
                monitoring = True
                trace = []
            trace.extend(ms)
    failed = False
    for st in steps:
        if failed:
            out.append('skipped')
            continue
        if st[0] == 'undefined':
            out.append('undefined')
            failed = True
            continue
        if st[0] in ('given', 'when'):
            try:
                do(st[0], st[1])
            except SubStepFailed:
                # the step failed; its after_step hook still runs, and a raising hook wins
                try:
                    after(st[0])
                    out.append('failed')
                except Exception:
                    out.append('hook_error')
                failed = True
                continue
            try:
                after(st[0])
                out.append('passed')
            except Exception:
                out.append('hook_error')
                failed = True
            continue
        monitoring = False
        if trace is None:
            out.append('hook_error')
            failed = True
            continue
        a = st[1]
        k = a[0]
        try:
            if k in ('entered', 'not_entered', 'exited', 'not_exited', 'active', 'not_active'):
                sc.state_for(a[1])
            ent = any(a[1] in m.entered_states for m in trace) if k in ('entered', 'not_entered') else None
            exi = any(a[1] in m.exited_states for m in trace) if k in ('exited', 'not_exited') else None
            sent = [e for m in trace for e in m.sent_events]
            if k == 'entered':
                ok = ent
            elif k == 'not_entered':
                ok = not ent
            elif k == 'exited':
                ok = exi
            elif k == 'not_exited':
                ok = not exi
            elif k == 'active':
                ok = a[1] in it.configuration
            elif k == 'not_active':
                ok = a[1] not in it.configuration
            elif k == 'fired':
                ok = any(e.name == a[1] and all(e.data.get(p, None) == v for p, v in a[2]) for e in sent)
            elif k == 'not_fired':
                ok = not any(e.name == a[1] for e in sent)
            elif k == 'no_event':
                ok = not sent
            elif k == 'var_eq':
                ok = a[1] in it.context and it.context[a[1]] == a[2]
            elif k == 'var_ne':
                ok = a[1] in it.context and it.context[a[1]] != a[2]
            elif k in ('expr', 'not_expr'):
                v = bool(eval(a[1]['src'], {'active': lambda s: s in it.configuration, 'time': it.time},
                              dict(it.context)))
                ok = v if k == 'expr' else not v
            elif k == 'final':
                ok = it.final
            elif k == 'not_final':
                ok = not it.final
            out.append('passed' if ok else 'failed')
            if not ok:
                failed = True
        except Exception:
            out.append('error')
            failed = True
    if want_trace:
        return out, trace
    return out


def sent_so_far(sc, steps):
    """events sent per macro step of the when-block a `then` step placed now would judge (used by
    the generator only, to write assertions that are *true* for a non-obvious reason)"""
    try:
        out, trace = ref_scenario(copy.deepcopy(sc), [st for st in steps if st[0] in ('given', 'when')],
                                  want_trace=True)
    except Exception:       # noqa
        return []
    return [[e for e in m.sent_events] for m in (trace or [])]


# ---- the pattern table: code vs documentation -------------------------------------------------------

def code_patterns():
    src = open(os.path.join(REPO, 'sismic', 'bdd', 'steps.py')).read()
    pats = {'given': set(), 'when': set(), 'then': set()}
    for node in ast.walk(ast.parse(src)):
        if isinstance(node, ast.FunctionDef):
            for d in node.decorator_list:
                if isinstance(d, ast.Call) and isinstance(d.func, ast.Name) and d.func.id in pats and d.args \
                        and isinstance(d.args[0], ast.Constant):
                    pats[d.func.id].add(d.args[0].value)
    return pats


def doc_patterns():
    pats = {'given': set(), 'when': set(), 'then': set()}
    for line in open(os.path.join(REPO, 'docs', 'behavior.rst')):
        m = re.match(r'^Given/when (.+?)\s*$', line)
        if m:
            pats['given'].add(m.group(1))
            pats['when'].add(m.group(1))
        m = re.match(r'^Then (.+?)\s*$', line)
        if m and not m.group(1).startswith('state heating') and '{' in m.group(1) or (m and m.group(1) in (
                'no event is fired', 'statechart is in a final configuration',
                'statechart is not in a final configuration')):
            pats['then'].add(m.group(1))
    return pats


FINE_WAITS = [0.1234564, 0.0000004, 2.0000004, 0.5, 0.0000015]


def counting_template(rnd):
    """one `when` step that takes more than a thousand macro steps to come to rest: it is run to the end, and the
    assertions that follow are about all of it"""
    from sismic.model import BasicState, CompoundState, Statechart, Transition
    n = rnd.choice([1100, 1500, 2100])
    sc = Statechart('counting', preamble='n = 0\nx = 0\ny = 0')
    sc.add_state(CompoundState('r', initial='idle'), None)
    for s in ('idle', 'loop', 'finished'):
        sc.add_state(BasicState(s), 'r')
    sc.add_transition(Transition('idle', 'loop', event='go'))
    sc.add_transition(Transition('loop', 'loop', guard='n < %d' % n, action='n = n + 1'))
    sc.add_transition(Transition('loop', 'finished', guard='n >= %d' % n, action="send('out', v=n)"))
    steps = [['when', ['send', 'go', []]],
             ['then', ['active', 'finished']], ['then', ['var_eq', 'n', n]], ['then', ['fired', 'out', []]],
             ['then', ['not_active', 'loop']], ['then', ['var_ne', 'n', 1000]], ['then', ['entered', 'finished']]]
    return sc, [steps]


def history_template(rnd):
    """a compound state with a history state that is left, resumed through the history state, advanced and
    left again — inside one block of when steps; assertions about which of its children were entered"""
    from sismic.model import (BasicState, CompoundState, DeepHistoryState, ShallowHistoryState, Statechart,
                              Transition)
    letters = 'abcdefghijklmnopqrstuvwxyz'
    used = set()

    def nm():
        while True:
            n = ''.join(rnd.choice(letters) for _ in range(rnd.randint(2, 4)))
            if n not in used:
                used.add(n)
                return n
    sc = Statechart('t', preamble='x = 0\ny = 0\nv0 = False\nv1 = False\nseen = -1\nlast = -1')
    root, comp, away, hist = nm(), nm(), nm(), nm()
    kids = [nm() for _ in range(rnd.randint(3, 5))]
    sc.add_state(CompoundState(root, initial=comp), None)
    sc.add_state(CompoundState(comp, initial=kids[0]), root)
    for k in kids:
        sc.add_state(BasicState(k, on_entry='x += 1'), comp)
    cls = rnd.choice([ShallowHistoryState, DeepHistoryState])
    sc.add_state(cls(hist, memory=kids[0]), comp)
    sc.add_state(BasicState(away), root)
    for a, b in zip(kids, kids[1:]):
        sc.add_transition(Transition(a, b, event='e'))
    sc.add_transition(Transition(comp, away, event='f'))
    sc.add_transition(Transition(away, hist, event='g'))
    sc.validate()
    scenarios = []
    for _ in range(rnd.randint(2, 3)):
        steps = []
        kw = 'given'
        for _ in range(rnd.randint(0, 2)):
            steps.append([kw, ['send', 'e', []]])
        steps.append([kw, ['send', 'f', []]])
        kw = rnd.choice(['when', 'when', 'given'])
        steps.append([kw, ['send', 'g', []]])
        kw = 'when'
        for _ in range(rnd.randint(0, 2)):
            steps.append([kw, ['send', 'e', []]])
        steps.append([kw, ['send', 'f', []]])
        if rnd.random() < 0.5:
            steps.append([kw, ['send', 'g', []]])
        for _ in range(rnd.randint(1, 3)):
            steps.append(['then', [rnd.choice(['entered', 'not_entered', 'exited', 'not_exited']),
                                   rnd.choice(kids + [comp, hist])]])
            # (a failing assertion ends the scenario: one or two of them are enough)
        scenarios.append(steps)
    return sc, scenarios


class C19(Prop):
    id = 'C19'
    quick_cases = 1000
    thorough_cases = 8000
    rule = ('random charts (code inside the modelled subset, no eventless loops) × feature files of 4–6 scenarios × 4–10 '
            'steps written in the documented spelling of the predefined steps (send with and without parameter, wait, '
            'do nothing, repeat; every `then` step, asserting true and false facts alike, unknown state names, then '
            'before any when, given between whens, undefined steps), executed by the real execute_bdd (behave, JSON '
            'report); oracle: the per-step status equals the verdict computed from a plain interpreter run following '
            'the documentation (when-blocks, current state), and equals the model; the step patterns registered in '
            'sismic/bdd/steps.py are compared with those documented in docs/behavior.rst on every run; '
            'non-trivial = a feature in which both a passing and a failing `then` step occurred')
    trusted = ['behave (step matching, hooks, skipping after a failure) is modelled for the predefined patterns only']

    def extra_build(self):
        try:
            c, d = code_patterns(), doc_patterns()
        except Exception as e:
            return False, 'cannot extract step patterns: %r' % (e,)
        missing = []
        for kw in d:
            for p in d[kw]:
                if p not in c[kw]:
                    missing.append('%s: %s' % (kw, p))
        self._patterns = {'code': {k: sorted(v) for k, v in c.items()}, 'documented': {k: sorted(v) for k, v in d.items()}}
        if missing:
            return False, 'documented step patterns without a registered step: %s' % missing
        if sum(len(v) for v in d.values()) < 20:
            return False, 'step pattern extraction from docs/behavior.rst found too little: %s' % d
        return True, ''

    def extra_evidence(self):
        return {'step_patterns': getattr(self, '_patterns', None)}

    def gen_case(self, rnd, tier):
        kn = gen.Knobs(p_eventless=0.0, contracts=0.0, sends=0.45, max_states=rnd.choice([4, 7, 10]),
                       time_preds=0.15, p_final=0.3, send_names=('out', 'o2'))
        if rnd.random() < 0.3:
            kn.subnames = 0.4       # state names that contain other state names
        if rnd.random() < 0.35:
            # history states that are left and come back to within one scenario
            kn.p_history, kn.history_focus, kn.max_states, kn.p_guard = 0.9, 0.9, rnd.choice([7, 10, 13]), 0.2
        g = gen.ChartGen(rnd, kn)
        sc = g.build()
        template = None
        if rnd.random() < 0.1:
            sc, template = history_template(rnd)
        elif rnd.random() < 0.015:
            sc, template = counting_template(rnd)
            payload = {'kind': 'bdd', 'chart': ChartEnc(sc).json, 'scenarios': template, 'no_model': True}
            return Case(payload, {'chart': sc}, model_ok=False)
        under = rnd.random() < 0.25
        if under:
            # events sent with a parameter whose name starts with an underscore (`_k`): a parameter like any other
            for o in [sc.state_for(n) for n in sc.states] + list(sc.transitions):
                for attr in ('on_entry', 'on_exit', 'action'):
                    code = getattr(o, attr, None)
                    if code and "send('" in code:
                        setattr(o, attr, code.replace(", v=", ", _k=7, v="))
        if rnd.random() < 0.3:
            # a variable that is defined and holds None (`nil`), and one that is reset to None now and then
            root = sc.state_for(sc.root)
            root.on_entry = ((root.on_entry + '\n') if root.on_entry else '') + 'nil = None'
        # (sometimes) waits of a fraction of a second, down to parts of a microsecond: the clock advances by what was waited
        fine = rnd.random() < 0.05
        enc = ChartEnc(sc)
        names = list(sc.states)
        scenarios = list(template or [])
        for _ in range(rnd.randint(4, 6)):
            steps = []
            kw = 'given'
            n = rnd.randint(4, 10)
            first_when = rnd.random() < 0.9
            for i in range(n):
                c = rnd.random()
                if (i == 0 and first_when) or c < 0.4:
                    kw = 'when' if (rnd.random() < 0.8 or i == 0) else 'given'
                    r = rnd.random()
                    if r < 0.5:
                        ps = [[rnd.choice(['v', 'b']), rnd.choice([0, 1, 2, 3, True, False])]] if rnd.random() < 0.5 else []
                        a = ['send', rnd.choice(gen.EVENTS), ps]
                        if ps and ps[0][0] == 'v' and isinstance(ps[0][1], bool):
                            ps[0][1] = 2
                        if ps and ps[0][0] == 'b' and not isinstance(ps[0][1], bool):
                            ps[0][1] = True
                        if ps and rnd.random() < 0.3:
                            ps = [['v', rnd.randint(0, 4)], ['b', rnd.random() < 0.5]]
                    elif r < 0.65:
                        a = ['wait', rnd.randint(1, 4)]
                        if fine and rnd.random() < 0.7:
                            a = ['wait', rnd.choice(FINE_WAITS)]
                    elif r < 0.8:
                        a = ['nothing']
                    elif r < 0.9 and scenarios:
                        # replay the given / when steps of an earlier scenario under this step's keyword (the
                        # replayed step texts carry no table: a send with several parameters is replayed bare)
                        if rnd.random() < 0.08:
                            a = ['reproduce', 'no such scenario', None]
                        else:
                            k0 = rnd.randrange(len(scenarios))
                            subs = [(st[1] if not (st[1][0] == 'send' and len(st[1][2]) > 1) else ['send', st[1][1], []])
                                    for st in scenarios[k0] if st[0] in ('given', 'when')]
                            if any(x[0] == 'reproduce' for x in subs):
                                a = ['nothing']
                            else:
                                a = ['reproduce', 's%d' % k0, subs]
                    else:
                        a = ['repeat', ['send', rnd.choice(gen.EVENTS), []], rnd.randint(1, 3)]
                    steps.append([kw, a])
                elif c < 0.43:
                    steps.append(['undefined'])
                else:
                    k = rnd.choice(['entered', 'not_entered', 'exited', 'not_exited', 'active', 'not_active', 'fired',
                                    'fired', 'not_fired', 'no_event', 'var_eq', 'var_ne', 'expr', 'not_expr', 'final',
                                    'not_final'])
                    nm = rnd.choice(names) if rnd.random() < 0.95 else 'nosuchstate'
                    if k in ('entered', 'not_entered', 'exited', 'not_exited', 'active', 'not_active'):
                        a = [k, nm]
                    elif k == 'fired':
                        ps = [[rnd.choice(['v', 'delay', 'b']), rnd.choice([0, 1, 2, 3])]] if rnd.random() < 0.5 else []
                        if ps and rnd.random() < 0.5:
                            ps = [['v', rnd.choice([0, 1, 2, 3, 4, 5])], ['b', rnd.choice([True, False])]]
                            if rnd.random() < 0.3:
                                ps.append(['nosuch', 1])
                            rnd.shuffle(ps)
                        if under and rnd.random() < 0.4:
                            ps = [['_k', rnd.choice([7, 7, 8])]]
                        a = [k, rnd.choice(('out', 'o2', 'e', 'n0')), ps]
                        if rnd.random() < 0.5:
                            # a fact that holds: one of the events really sent, by preference one that
                            # comes after another event of the same name in its macro step
                            per_step = sent_so_far(sc, steps)
                            late = [e for evs in per_step for i, e in enumerate(evs)
                                    if any(f.name == e.name for f in evs[:i])]
                            pool = late if late and rnd.random() < 0.8 else [e for evs in per_step for e in evs]
                            if pool:
                                e = rnd.choice(pool)
                                data = [[kk, vv] for kk, vv in e.data.items()
                                        if isinstance(vv, (int, bool)) and kk in ('v', 'b', 'delay', '_k')]
                                rnd.shuffle(data)
                                a = [k, e.name, data[:rnd.randint(1, max(1, len(data)))]]
                    elif k == 'not_fired':
                        a = [k, rnd.choice(('out', 'o2', 'e', 'n1'))]
                    elif k in ('var_eq', 'var_ne'):
                        a = [k, rnd.choice(['x', 'y', 'v0', 'seen', 'nosuchvar', 'nil', 'nil']), rnd.choice([0, 1, 2, 3, 4, True, False, -1, None, None])]
                    elif k in ('expr', 'not_expr'):
                        src = rnd.choice(['x > 1', 'x == y', 'x % 2 == 0', 'v0 or v1', "active('%s')" % rnd.choice(names),
                                          'time >= 2', 'x + y < 4', 'nosuchvar > 1'])
                        if fine and rnd.random() < 0.6:
                            w = rnd.choice(FINE_WAITS)
                            src = rnd.choice(['time >= %s' % repr(w), 'time == %s' % repr(w), 'time < %s' % repr(w),
                                              'time * 10000000 % 10 >= 1'])
                        a = [k, enc_code(src, 'eval')[0]]
                    else:
                        a = [k]
                    steps.append(['then', a])
            scenarios.append(steps)
        payload = {'kind': 'bdd', 'chart': enc.json, 'scenarios': scenarios}
        if fine:
            payload['no_model'] = True
        return Case(payload, {'chart': sc}, model_ok=enc.supported and not fine)

    def rebuild(self, payload):
        sc = chart_from_json(payload['chart'])
        payload['chart'] = ChartEnc(sc).json
        return {'chart': sc}

    def run_impl(self, case):
        from sismic.bdd import execute_bdd
        sc = copy.deepcopy(case.aux['chart'])
        text = feature_text(case.payload['scenarios'])
        with tempfile.TemporaryDirectory() as d:
            fp = os.path.join(d, 'gen.feature')
            open(fp, 'w').write(text)
            outp = os.path.join(d, 'out.json')
            import io
            import contextlib
            buf = io.StringIO()
            with contextlib.redirect_stdout(buf), contextlib.redirect_stderr(buf):
                execute_bdd(sc, [fp], behave_parameters=['-f', 'json', '-o', outp, '--no-summary', '--no-snippets'])
            rep = json.load(open(outp))
        outs = []
        for f in rep:
            for el in f.get('elements', []):
                if el.get('type') != 'scenario':
                    continue
                outs.append([(s.get('result') or {}).get('status', 'skipped') for s in el['steps']])
        case.aux['ref'] = [ref_scenario(copy.deepcopy(case.aux['chart']), st) for st in case.payload['scenarios']]
        return {'scenarios': outs}

    def normalize(self, obs):
        # The verdicts depend on how the interpreter behaves, which is other properties' business: the
        # property (verdict ⇔ fact, block structure) is checked on the implementation by the oracle, which
        # recomputes every asserted fact from a plain run of the same implementation; the model is compared
        # on the shape of the report only (number of scenarios and steps, which steps are undefined/skipped
        # for structural reasons).
        return {'shape': [[st if st in ('undefined',) else 'x' for st in sc] for sc in obs['scenarios']]}

    def oracle(self, case, obs, res):
        ref = case.aux['ref']
        got = obs['scenarios']
        seen = set()
        for i, (a, b) in enumerate(zip(got, ref)):
            if a != b:
                j = next((k for k in range(min(len(a), len(b))) if a[k] != b[k]), min(len(a), len(b)))
                st = case.payload['scenarios'][i][j] if j < len(case.payload['scenarios'][i]) else None
                res.violations.append('scenario %d step %d %s: behave reports %s, the fact computed from a plain run is %s'
                                      % (i, j, json.dumps(st)[:120], a[j] if j < len(a) else None, b[j] if j < len(b) else None))
            for st, s in zip(case.payload['scenarios'][i], a):
                if st[0] == 'then':
                    seen.add((st[1][0], s))
                    res.features.add('%s:%s' % (st[1][0], s))
                elif st[0] in ('given', 'when'):
                    res.features.add('%s-%s:%s' % (st[0], st[1][0], s))
        if len(got) != len(ref):
            res.violations.append('behave reported %d scenarios, %d were written' % (len(got), len(ref)))
        st = set(s for _, s in seen)
        if 'passed' in st and 'failed' in st:
            res.nontrivial = True

    def shrink_candidates(self, case):
        p = case.payload
        # scenarios are named by their position and a `reproduce` step carries a copy of the steps it replays: while
        # one scenario refers to another, no scenario is dropped and the scenarios referred to stay as they are
        refs = set(st[1][1] for sc in p['scenarios'] for st in sc
                   if len(st) > 1 and isinstance(st[1], list) and len(st[1]) > 1 and st[1][0] == 'reproduce')
        for i in range(len(p['scenarios']) - 1, -1, -1):
            if len(p['scenarios']) > 1 and not refs:
                q = copy.deepcopy(p)
                del q['scenarios'][i]
                yield q
        for i, sc in enumerate(p['scenarios']):
            if 's%d' % i in refs:
                continue
            for j in range(len(sc) - 1, -1, -1):
                q = copy.deepcopy(p)
                del q['scenarios'][i][j]
                yield q
