"""C01 — transition selection follows the documented step semantics."""
from .. import gen, oracles
from ..interp_prop import InterpProp


class C01(InterpProp):
    id = 'C01'
    decoy = 0.12
    # observables compared with the model (see InterpProp.normalize)
    cmp_eff = ('guard',)
    cmp_step = ('event', 'transition')
    cmp_slot = ()
    cmp_callbacks = False
    cmp_err = 'class'
    cmp_time = False
    quick_cases = 2500
    thorough_cases = 40000
    n_ops = 36
    edited = 0.3
    owns_construction = True
    rule = ('random well-formed charts (≤14 states, dense transitions with all priority classes, guards over '
            'event parameters, context flags, after/idle/active) × random histories of queue/setvar/exec; '
            'oracle: the set of fired transitions is recomputed from the configuration before the step, the '
            'consumed event and the logged guard results with the declarative Fires relation (unevaluated guards '
            'once as false, once as true: both must give the fired set); non-trivial = a case in which some step '
            'had ≥2 enabled candidates competing (priority, inner-first or eventless pre-emption decided)')

    def knobs(self, rnd, tier):
        kn = gen.Knobs(avoid_nondet=False, trans_per_owner=rnd.choice([1.5, 2.5, 4.0]), p_guard=0.6,
                       p_eventless=rnd.choice([0.1, 0.25]), max_states=rnd.choice([8, 14, 20]))
        if rnd.random() < 0.2:
            # the event whose name is the empty string is an event like any other
            kn.empty_event = 0.15
        if rnd.random() < 0.25:
            kn.dups = 0.15      # a transition declared twice is two transitions (both enabled together: reported)
        if rnd.random() < 0.3:
            # the clock moves between a step and the queueing of a (delayed) event: it is due `delay` after the
            # time of the last step, and offered to the transitions from then on
            kn.clock_moves = 0.4
        c = rnd.random()
        if c < 0.25:
            # priorities with several digits and several negative ones (their order is numeric)
            kn.prio_pool = [-12, -10, -2, -1, 0, 2, 9, 10, 11, 100]
        elif c < 0.35:
            # more than ten levels of nesting (depths with two digits)
            kn.chain = rnd.choice([8, 9, 10, 11])
            kn.p_guard = 0.3
        return kn

    def check_exec(self, info, res):
        r, gh, sc, trans = info['r'], info['ghost'], info['sc'], info['trans']
        if not gh.clean or not gh.initialized or gh.final:
            return
        out = r['outcome']
        if out == 'error':
            res.features.add('err:' + r['err']['class'])
            if r['err']['class'] in ('NonDeterminismError', 'ConflictingTransitionsError'):
                # the selection these are raised about is the documented one: when that holds no pair of
                # transitions that cannot fire together, nothing is to be raised
                gt = oracles.guard_table(r.get('eff', []))
                pending = gh.next(info['clock'])
                pend_name = pending['ev']['ev'] if pending else None
                exps = [sorted(oracles.fires_spec(sc, trans, set(info['cfg0']), pend_name,
                                                  lambda i, x, d=d: gt.get((i, x), d) is True if (i, x) in gt else d))
                        for d in (False, True)]
                if exps[0] == exps[1] and oracles.classify(sc, [trans[i] for i in exps[0]]) == 'ok':
                    res.violations.append('step %d: %s raised; the documented selection is %s, which can fire together'
                                          % (info['k'], r['err']['class'], exps[0]))
            return
        eff = r['eff']
        gt = oracles.guard_table(eff)
        # "whose guard holds": a guard that reads context variables and event parameters only has the value those
        # have (all guards of a step are evaluated before any of its code runs)
        if info['slot0'] is not None:
            for e in eff:
                if e[0] == 'guard' and e[3] is not None:
                    want = oracles.pure_eval(trans[e[1]].guard, info['slot0']['ctx'], e[2])
                    if want is not None and want != e[3]:
                        res.violations.append('step %d: guard %r of transition %d was evaluated %s; with %s%s it is %s'
                                              % (info['k'], trans[e[1]].guard, e[1], e[3],
                                                 [kv for kv in info['slot0']['ctx'] if kv[0] in trans[e[1]].guard],
                                                 '' if e[2] is None else ' and event %s' % (e[2],), want))
                        return
                    if want is not None:
                        res.features.add('guard-recomputed')
        cfg = set(info['cfg0'])
        pending = gh.next(info['clock'])
        pend_name = pending['ev']['ev'] if pending else None
        if out == 'step':
            step = r['step']
            fired = sorted(oracles.step_transitions(step))
            ev = oracles.step_event(step)
        else:
            fired, ev = [], None
        for default in (False, True):
            exp = sorted(oracles.fires_spec(sc, trans, cfg, pend_name,
                                            lambda i, x: gt.get((i, x), default) is True
                                            if (i, x) in gt else default))
            if exp != fired:
                res.violations.append('step %d: fired %s, documented semantics fires %s (unevaluated guards as %s)'
                                      % (info['k'], fired, exp, default))
                return
        # consumption
        eventless = any(trans[i].event is None for i in fired)
        if fired and eventless and ev is not None:
            res.violations.append('step %d: eventless transitions fired but event %s consumed' % (info['k'], ev['ev']))
        if fired and not eventless and (ev is None or ev['ev'] != pend_name):
            res.violations.append('step %d: event-triggered transitions fired without consuming the pending event' % info['k'])
        if not fired and pending is not None and (out != 'step' or ev is None or ev != pending['ev']):
            res.violations.append('step %d: pending event %s not consumed by an empty step' % (info['k'], pend_name))
        if not fired and pending is None and out == 'step':
            res.violations.append('step %d: a macro step without cause' % info['k'])
        # exposure
        for e in eff:
            if e[0] == 'guard':
                t = trans[e[1]]
                if t.event is None and e[2] is not None:
                    res.violations.append('step %d: guard of eventless transition %d saw event %s' % (info['k'], e[1], e[2]['ev']))
                if t.event is not None and (pending is None or e[2] != pending['ev']):
                    res.violations.append('step %d: guard of transition %d saw %r, pending event is %r'
                                          % (info['k'], e[1], e[2], pending and pending['ev']))
        if fired and not eventless and ev != (pending and pending['ev']):
            res.violations.append('step %d: consumed event differs from the one exposed to guards' % info['k'])
        # features
        cand = [i for i, t in enumerate(trans) if t.source in cfg and
                (t.event is None or t.event == pend_name)]
        enabled = [i for i in cand if trans[i].guard is None or gt.get((i, trans[i].event is not None)) is True]
        res.features.add('fired%d' % min(len(fired), 3))
        if len(enabled) >= 2:
            res.features.add('competition')
            res.nontrivial = True
            if len(enabled) > len(fired):
                res.features.add('pre-empted')
        if any(v is False for v in gt.values()):
            res.features.add('guard-false')
        if eventless:
            res.features.add('eventless-fired')
