"""C12 — YAML import accepts only structurally sound statecharts."""
import copy
import glob
import io
import json
import os

import ruamel.yaml as yaml

from sismic.exceptions import StatechartError
from sismic.io import import_from_yaml
from sismic.io.datadict import export_to_dict
from sismic.model import (CompoundState, OrthogonalState, ShallowHistoryState, DeepHistoryState,
                          TransitionStateMixin)

from .. import gen, engine
from ..framework import Case, Prop
from .c16 import snapshot

REPO = os.environ.get('SISMIC_REPO', '/repo')


def dump(data):
    out = io.StringIO()
    y = yaml.YAML(typ='safe', pure=True)
    y.default_flow_style = False
    y.dump(data, out)
    return out.getvalue()


def load(text):
    return yaml.YAML(typ='safe', pure=True).load(text)


def states_of(data):
    """[(state dict, parent dict or None, path)] in document order"""
    out = []

    def walk(s, parent):
        out.append((s, parent))
        if isinstance(s, dict):
            for k in ('states', 'parallel states'):
                if isinstance(s.get(k), list):
                    for c in s[k]:
                        walk(c, s)
    try:
        walk(data['statechart']['root state'], None)
    except Exception:
        pass
    return out


def is_hist(s):
    return isinstance(s, dict) and s.get('type') in ('shallow history', 'deep history')


FAULTS = ['dup_name', 'unknown_target', 'trans_on_pseudo', 'hist_in_orth', 'hist_root', 'initial_unknown',
          'initial_not_child', 'memory_unknown', 'memory_self', 'memory_not_sibling', 'unknown_key',
          'unknown_type', 'bad_priority', 'both_kinds', 'missing', 'wrong_container', 'empty_target']


def inject(data, fault, rnd):
    """Mutates `data`; returns a description, or None when the fault does not apply here."""
    sts = [(s, p) for s, p in states_of(data) if isinstance(s, dict)]
    names = [s.get('name') for s, _ in sts]
    if not sts:
        return None
    if fault == 'dup_name':
        if len(sts) < 2:
            return None
        a, b = rnd.sample(sts, 2)
        b[0]['name'] = a[0]['name']
        return 'duplicate name %r' % (a[0]['name'],)
    if fault == 'unknown_target':
        cand = [s for s, _ in sts if s.get('transitions')]
        if not cand:
            s = rnd.choice([s for s, _ in sts if not s.get('type')] or [None])
            if s is None:
                return None
            s['transitions'] = [{'event': 'e', 'target': 'no-such-state'}]
            return 'added transition to unknown state'
        t = rnd.choice(rnd.choice(cand)['transitions'])
        t['target'] = 'no-such-state'
        if rnd.random() < 0.3:
            # (whatever the transition says: the rejection is a StatechartError)
            t['guard'] = rnd.choice(['x in {1, 2, 3}', 'y not in {}', "'{0}' != '{'", 'x == {"a": 1}.get("a")'])
        return 'transition retargeted to unknown state'
    if fault == 'empty_target':
        if '' in names:
            return None
        cand = [s for s, _ in sts if s.get('transitions')]
        if not cand:
            s = rnd.choice([s for s, _ in sts if not s.get('type')] or [None])
            if s is None:
                return None
            s['transitions'] = [{'event': 'e', 'target': ''}]
            return 'added transition to the state named by the empty string (there is none)'
        t = rnd.choice(rnd.choice(cand)['transitions'])
        t['target'] = ''
        return 'transition retargeted to the empty string (no such state)'
    if fault == 'trans_on_pseudo':
        cand = [s for s, _ in sts if s.get('type')]
        if not cand:
            return None
        s = rnd.choice(cand)
        s['transitions'] = [{'event': 'e', 'target': rnd.choice(names)}]
        return 'transition on %s state %r' % (s['type'], s['name'])
    if fault == 'hist_in_orth':
        cand = [s for s, _ in sts if s.get('parallel states')]
        if not cand:
            return None
        s = rnd.choice(cand)
        sib = s['parallel states'][0].get('name')
        s['parallel states'].append({'name': 'hh-injected', 'type': rnd.choice(['shallow history', 'deep history']),
                                     'memory': sib})
        return 'history state inside orthogonal state %r' % (s['name'],)
    if fault == 'hist_root':
        r = data['statechart']['root state']
        r['type'] = rnd.choice(['shallow history', 'deep history'])
        return 'root state of type history'
    if fault in ('initial_unknown', 'initial_not_child'):
        cand = [s for s, _ in sts if s.get('states') and not s.get('type')]
        bare = [s for s, _ in sts if isinstance(s, dict) and not s.get('type') and 'states' not in s
                and 'parallel states' not in s]
        if bare and (not cand or rnd.random() < 0.3):
            # a compound state without any child (`states: []`) that declares an initial state all the same
            s = rnd.choice(bare)
            s['states'] = []
            s['initial'] = 'no-such-state' if fault == 'initial_unknown' or len(names) < 2 else \
                rnd.choice([n for n in names if n != s.get('name')])
            return '%s on the childless compound state %r' % (fault, s['name'])
        if not cand:
            return None
        s = rnd.choice(cand)
        kids = [c.get('name') for c in s['states'] if isinstance(c, dict)]
        if fault == 'initial_unknown':
            s['initial'] = 'no-such-state'
        else:
            others = [n for n in names if n not in kids]
            if not others:
                return None
            s['initial'] = rnd.choice(others)
        return '%s on %r' % (fault, s['name'])
    if fault in ('memory_unknown', 'memory_self', 'memory_not_sibling'):
        cand = [(s, p) for s, p in sts if is_hist(s) and p is not None and p.get('states')]
        if not cand:
            par = [s for s, _ in sts if s.get('states') and not s.get('type')]
            if not par:
                return None
            p = rnd.choice(par)
            s = {'name': 'hh-injected', 'type': rnd.choice(['shallow history', 'deep history'])}
            p['states'].append(s)
        else:
            s, p = rnd.choice(cand)
        sibs = [c.get('name') for c in p['states'] if isinstance(c, dict)]
        if fault == 'memory_unknown':
            s['memory'] = 'no-such-state'
        elif fault == 'memory_self':
            s['memory'] = s['name']
        else:
            others = [n for n in names if n not in sibs]
            if not others:
                return None
            s['memory'] = rnd.choice(others)
        if rnd.random() < 0.6:
            # well-formed history states without a memory elsewhere in the document, before and after the faulty
            # one in every traversal order
            k = 0
            for c, _ in sts:
                if c.get('states') and not c.get('type') and rnd.random() < 0.7:
                    k += 1
                    c['states'].insert(rnd.randint(0, len(c['states'])),
                                       {'name': 'hm-%d' % k, 'type': rnd.choice(['shallow history', 'deep history'])})
        return '%s on %r' % (fault, s['name'])
    if fault == 'unknown_key':
        level = rnd.choice(['top', 'statechart', 'state', 'transition', 'contract'])
        key = rnd.choice(['colour', 'Name', 'on_entry', 'onentry', 'parallel', 'sub states', 'guards'])
        if level == 'top':
            data[key] = 1
        elif level == 'statechart':
            data['statechart'][key] = 'x'
        elif level == 'state':
            rnd.choice(sts)[0][key] = 'x'
        elif level == 'transition':
            cand = [s for s, _ in sts if s.get('transitions')]
            if not cand:
                return None
            rnd.choice(rnd.choice(cand)['transitions'])[key] = 'x'
        else:
            cand = [s for s, _ in sts if s.get('contract')]
            if not cand:
                s = rnd.choice(sts)[0]
                s['contract'] = [{key: 'True'}]
            else:
                rnd.choice(rnd.choice(cand)['contract'])[key] = 'True'
        return 'unknown key %r at %s level' % (key, level)
    if fault == 'unknown_type':
        s = rnd.choice(sts)[0]
        s['type'] = rnd.choice(['history', 'Final', 'compound', 'shallow', 7, None if 'type' in s else 'basic'])
        return 'type %r on %r' % (s['type'], s['name'])
    if fault == 'bad_priority':
        cand = [s for s, _ in sts if s.get('transitions')]
        if not cand:
            return None
        t = rnd.choice(rnd.choice(cand)['transitions'])
        t['priority'] = rnd.choice(['urgent', 'HIGH', None, 'one', '1.5x', '', 'highest', 'lower', 'below', 'very high', 'low '])
        return 'priority %r' % (t['priority'],)
    if fault == 'both_kinds':
        s = rnd.choice(sts)[0]
        if s.get('states'):
            s['parallel states'] = [{'name': 'pp-injected'}]
        elif s.get('parallel states'):
            s['states'] = [{'name': 'pp-injected'}]
        else:
            s['states'] = [{'name': 'pp-injected1'}]
            s['parallel states'] = [{'name': 'pp-injected2'}]
        return 'both states and parallel states on %r' % (s['name'],)
    if fault == 'missing':
        what = rnd.choice(['state name', 'root state', 'statechart name', 'statechart'])
        if what == 'state name':
            s = rnd.choice(sts)[0]
            del s['name']
        elif what == 'root state':
            del data['statechart']['root state']
        elif what == 'statechart name':
            del data['statechart']['name']
        else:
            data['statecharts'] = data.pop('statechart')
        return 'missing ' + what
    if fault == 'wrong_container':
        what = rnd.choice(['states', 'transitions', 'root', 'statechart', 'contract', 'state'])
        if what == 'states':
            cand = [s for s, _ in sts if s.get('states') or s.get('parallel states')]
            if not cand:
                return None
            s = rnd.choice(cand)
            k = 'states' if s.get('states') else 'parallel states'
            s[k] = {'a': s[k]}
        elif what == 'transitions':
            cand = [s for s, _ in sts if s.get('transitions')]
            if not cand:
                return None
            rnd.choice(cand)['transitions'] = rnd.choice(['go', {'event': 'e'}, 3])
        elif what == 'root':
            data['statechart']['root state'] = [data['statechart']['root state']]
        elif what == 'statechart':
            data['statechart'] = [data['statechart']]
        elif what == 'contract':
            s = rnd.choice(sts)[0]
            s['contract'] = rnd.choice(['x > 0', {'before': 'True'}, [['before', 'True']], ['True']])
        else:
            cand = [s for s, _ in sts if s.get('states')]
            if not cand:
                return None
            s = rnd.choice(cand)
            s['states'][rnd.randrange(len(s['states']))] = rnd.choice(['just-a-name', ['x'], 5])
        return 'wrong container for ' + what
    return None


def sound(sc):
    """the soundness C12 promises of an accepted statechart; returns a message or None"""
    names = sc.states
    if len(names) != len(set(names)):
        return 'duplicate names'
    roots = [n for n in names if sc.parent_for(n) is None]
    if len(roots) != 1:
        return '%d roots' % len(roots)
    for n in names:
        seen = set()
        x = n
        while x is not None:
            if x in seen:
                return 'cycle'
            seen.add(x)
            x = sc.parent_for(x)
        if x is None and n != roots[0] and roots[0] not in seen:
            return '%s not under the root' % n
        st = sc.state_for(n)
        p = sc.parent_for(n)
        if isinstance(st, (ShallowHistoryState, DeepHistoryState)):
            if p is None or not isinstance(sc.state_for(p), CompoundState):
                return 'history state %s not inside a compound state' % n
            if st.memory is not None and (st.memory == n or st.memory not in sc.children_for(p)):
                return 'memory of %s is not a sibling' % n
        if isinstance(st, CompoundState) and st.initial is not None and st.initial not in sc.children_for(n):
            return 'initial of %s is not a child' % n
    for t in sc.transitions:
        if t.source not in names or not isinstance(sc.state_for(t.source), TransitionStateMixin):
            return 'transition from %s' % t.source
        if t.target is not None and t.target not in names:
            return 'transition to unknown %s' % t.target
    return None


_BASE = None


def base_documents():
    global _BASE
    if _BASE is None:
        _BASE = []
        for f in sorted(glob.glob(REPO + '/tests/yaml/*.yaml') + glob.glob(REPO + '/docs/examples/*/*.yaml')
                        + glob.glob(REPO + '/docs/examples/*.yaml')):
            try:
                d = load(open(f).read())
                if isinstance(d, dict) and 'statechart' in d:
                    _BASE.append(d)
            except Exception:
                pass
    return _BASE


def jsonable(d):
    """JSON form of loaded YAML data, or None when it contains what the model's Data cannot hold"""
    if d is None or isinstance(d, (bool, str)):
        return d
    if isinstance(d, int):
        return d
    if isinstance(d, list):
        r = [jsonable(x) for x in d]
        return None if any(x is None and y is not None for x, y in zip(r, d)) else r
    if isinstance(d, dict):
        out = {}
        for k, v in d.items():
            if not isinstance(k, str):
                return None
            j = jsonable(v)
            if j is None and v is not None:
                return None
            out[k] = j
        return out
    return None


class C12(Prop):
    id = 'C12'
    quick_cases = 3000
    thorough_cases = 40000
    level = 'proof'
    rule = ('base documents = the 25 shipped YAML charts and random generated charts (exported); each case injects one '
            '(thorough: up to two) of 16 fault kinds (duplicate name, unknown target, transition on final/history, '
            'history under orthogonal / as root, initial unknown / not a child, memory unknown / self / not a sibling, '
            'unknown key at any of 5 levels, unknown type, bad priority, both child kinds, missing name / root / '
            'statechart, wrong container type) at a random position, or none; the document is dumped to YAML text and '
            'given to the real import_from_yaml; oracle: a faulty document is rejected with StatechartError (never '
            'accepted, never another exception), an unfaulted one is accepted and the result is structurally sound; the '
            'model is given the same loaded data and must produce the same outcome and the same statechart; '
            'non-trivial = a case in which a fault was actually injected')
    trusted = ['YAML text ↔ data (ruamel.yaml) is not modelled: model and implementation are given the same loaded data',
               'the `schema` library is modelled by the semantics of SCHEMA (Use(str), Use(int), Or, Optional, list, dict)']

    def gen_case(self, rnd, tier):
        if rnd.random() < 0.5 and base_documents():
            data = copy.deepcopy(rnd.choice(base_documents()))
            origin = 'shipped'
        else:
            kn = gen.Knobs(contracts=0.3, max_states=rnd.choice([4, 8, 12]), p_history=0.5)
            sc = gen.ChartGen(rnd, kn).build()
            data = json.loads(json.dumps(export_to_dict(sc)))
            origin = 'generated'
        if rnd.random() < 0.15:
            # an empty `states:` list beside the regions of an orthogonal state (what a tool that always writes both
            # keys produces): it changes nothing
            for st, _ in states_of(data):
                if isinstance(st, dict) and st.get('parallel states') and 'states' not in st and rnd.random() < 0.7:
                    st['states'] = []
        faults = []
        n = rnd.choice([0, 1, 1, 1, 1, 1]) if tier == 'quick' else rnd.choice([0, 1, 1, 1, 2, 2])
        for _ in range(n):
            f = rnd.choice(FAULTS)
            try:
                what = inject(data, f, rnd)
            except Exception:
                what = None
            if what:
                faults.append([f, what])
        text = dump(data)
        payload = {'kind': 'io_import', 'text': text, 'faults': faults, 'origin': origin}
        if rnd.random() < 0.3:
            # the same text was loaded leniently before (a tool that inspects documents it does not trust)
            payload['preload'] = True
        c = Case(payload, None)
        self._finish(c)
        return c

    def _finish(self, case):
        p = case.payload
        try:
            d = load(p['text'])
            j = jsonable(d)
        except Exception:
            j = None
        if j is None or not isinstance(j, dict):
            case.model_ok = False
            p['data'] = None
        else:
            p['data'] = j

    def rebuild(self, payload):
        c = Case(payload, None)
        self._finish(c)
        return None

    def run_impl(self, case):
        if case.payload.get('preload'):
            try:
                import_from_yaml(case.payload['text'], ignore_schema=True, ignore_validation=True)
            except Exception:       # noqa
                pass
        try:
            sc = import_from_yaml(case.payload['text'])
        except StatechartError:
            return {'outcome': 'StatechartError'}
        except Exception as e:     # noqa
            return {'outcome': 'OTHER', 'class': type(e).__name__, 'msg': str(e)[:200]}
        case.aux = {'sc': sc}
        return {'outcome': 'ok', 'chart': snapshot(sc), 'name': sc.name, 'description': sc.description,
                'preamble': sc.preamble}

    def normalize(self, obs):
        o = dict(obs)
        o.pop('class', None)
        o.pop('msg', None)
        return o

    def oracle(self, case, obs, res):
        faults = case.payload['faults']
        for f, _ in faults:
            res.features.add('fault:' + f)
        res.features.add(case.payload['origin'])
        if obs['outcome'] == 'OTHER':
            res.violations.append('import_from_yaml raised %s (%s), not StatechartError; faults: %s'
                                  % (obs.get('class'), obs.get('msg'), faults))
            return
        if faults:
            res.nontrivial = True
            if obs['outcome'] == 'ok':
                res.violations.append('faulty document accepted: %s' % faults)
        else:
            res.features.add('valid-document')
            if obs['outcome'] != 'ok':
                res.violations.append('valid document rejected')
        if obs['outcome'] == 'ok':
            s = sound(case.aux['sc'])
            if s:
                res.violations.append('accepted statechart is not sound: %s' % s)
            if not faults:
                # everything the document declares is registered (and nothing else)
                try:
                    doc = sorted(str(st.get('name')) for st, _ in states_of(load(case.payload['text'])) if isinstance(st, dict))
                except Exception:       # noqa
                    doc = None
                got = sorted(map(str, case.aux['sc'].states))
                if doc is not None and doc != got:
                    res.violations.append('the accepted statechart has the states %s, the document declares %s'
                                          % ([n for n in got if n not in doc][:5] or got[:8], [n for n in doc if n not in got][:5] or doc[:8]))

    def shrink_candidates(self, case):
        return []
