"""C20 — async runner: no step unreported, no event lost, orderly lifecycle."""
import collections
import copy
import random
import threading as real_threading
import types

from ..framework import Case, Prop
from .. import engine

CHART = """
statechart:
  name: t
  root state:
    name: root
    initial: a
    states:
      - name: a
        # a watchdog the statechart sends itself: it stays pending (the clock of the runs is frozen)
        # and must neither be consumed nor get in the way of the external events
        on entry: send('watchdog', delay=100000)
        transitions: [{event: e, target: b}, {event: stop, target: f}]
      - name: b
        transitions: [{event: e, target: a}, {event: stop, target: f}]
      - name: f
        type: final
"""


class Sched:
    """Baton-passing scheduler: exactly one managed thread runs at a time; a scheduling step
    resumes a thread at its current yield point, lets it perform the operation that follows and
    run up to its next yield point."""

    def __init__(self):
        self.batons = {}
        self.state = {}            # name -> 'ready' | ('blocked', predicate) | 'done'
        self.trace = []            # (thread, label) in execution order
        self.main = real_threading.Semaphore(0)
        self.pending_label = {}
        self.first = {}            # threads being spawned: semaphore their first yield releases

    def spawn(self, name, target):
        """create a managed thread and let it run to its first yield point"""
        self.batons[name] = real_threading.Semaphore(0)
        self.state[name] = 'ready'
        ready = real_threading.Semaphore(0)
        self.first[name] = ready

        def body():
            self.batons[name].acquire()
            try:
                target()
            finally:
                self.state[name] = 'done'
                self._handback(name)
        t = real_threading.Thread(target=body, name=name, daemon=True)
        t.start()
        self.batons[name].release()
        ready.acquire()
        return t

    def _handback(self, name):
        sem = self.first.pop(name, None)
        (sem or self.main).release()

    def yield_point(self, label, blocked_until=None):
        name = real_threading.current_thread().name
        if name not in self.batons:
            return      # (the scheduler itself looking at a flag, e.g. through `running`: not a step of anybody)
        self.pending_label[name] = label
        self.state[name] = ('blocked', blocked_until) if blocked_until else 'ready'
        self._handback(name)
        self.batons[name].acquire()
        self.trace.append((name, label))

    def enabled(self):
        return [k for k, v in self.state.items()
                if v == 'ready' or (isinstance(v, tuple) and v[1]())]

    def resume(self, name):
        self.state[name] = 'ready'
        self.batons[name].release()
        self.main.acquire()


class Ctx:
    S = None
    events = []
    stop_index = None      # creation index of the runner's stop flag (see `event_roles`)


class CoopEvent:
    def __init__(self):
        self.flag = False
        self.ops = []
        self.is_stop = Ctx.stop_index is not None and len(Ctx.events) == Ctx.stop_index
        Ctx.events.append(self)

    def is_set(self):
        if Ctx.S is not None:
            Ctx.S.yield_point('is_set')
        return self.flag

    def set(self):
        if Ctx.S is not None:
            Ctx.S.yield_point('set-stop' if self.is_stop else 'set')
        self.ops.append('set')
        self.flag = True

    def clear(self):
        if Ctx.S is not None:
            Ctx.S.yield_point('clear')
        self.ops.append('clear')
        self.flag = False

    def wait(self, timeout=None):
        if Ctx.S is not None:
            Ctx.S.yield_point('wait', blocked_until=lambda: self.flag)
        return True


def event_roles(runner_class, make_interpreter):
    """Which of the `threading.Event`s a runner creates is the pause flag and which the stop flag,
    found by calling the public `pause()` and `stop()` on a runner that is never started (no private
    name is read).  Returns (index of the unpaused flag, index of the stop flag) in creation order."""
    saved, Ctx.S, Ctx.events = Ctx.S, None, []
    Ctx.stop_index = None
    try:
        class Probe(runner_class):
            def wait(self):
                pass

            def __del__(self):
                pass
        probe = Probe(make_interpreter())
        evs = list(Ctx.events)
        for e in evs:
            del e.ops[:]
        probe.pause()
        cleared = [i for i, e in enumerate(evs) if 'clear' in e.ops]
        for e in evs:
            del e.ops[:]
        probe.stop()
        was_set = [i for i, e in enumerate(evs) if 'set' in e.ops]
        if len(cleared) != 1 or len([i for i in was_set if i != cleared[0]]) != 1:
            raise engine.MachineryError('cannot tell the pause flag from the stop flag of AsyncRunner: '
                                        'pause() cleared %s, stop() set %s of %d events' % (cleared, was_set, len(evs)))
        return cleared[0], [i for i in was_set if i != cleared[0]][0]
    finally:
        Ctx.S, Ctx.events = saved, []


class CoopThread:
    def __init__(self, target=None, **kw):
        self.target = target
        self.started = False

    def start(self):
        Ctx.S.yield_point('thread.start')
        self.started = True
        Ctx.S.spawn('runner', self.target)

    def is_alive(self):
        return self.started and Ctx.S.state.get('runner') != 'done'

    def join(self, timeout=None):
        Ctx.S.yield_point('join', blocked_until=lambda: Ctx.S.state.get('runner') == 'done')


def run_schedule(payload, rnd=None):
    """Run the real AsyncRunner under the deterministic scheduler.  If payload['sched'] is given it is
    replayed, otherwise a schedule is drawn from rnd and stored."""
    import sismic.runner.runner as rr
    from sismic.io import import_from_yaml
    from sismic.interpreter import Interpreter
    old_threading, old_time = rr.threading, rr.time
    S = Sched()
    Ctx.S = S
    rr.threading = types.SimpleNamespace(Event=CoopEvent, Thread=CoopThread)
    rr.time = types.SimpleNamespace(time=lambda: 0.0, sleep=lambda d: S.yield_point('sleep'))
    try:
        executed, reported, hooks = [], [], collections.Counter()
        kept = []

        class I(Interpreter):
            @property
            def final(self):
                if real_threading.current_thread().name == 'runner':
                    S.yield_point('final')
                return Interpreter.final.fget(self)
        it = I(import_from_yaml(CHART))
        orig = it.execute_once

        queued_n = [0]
        starved = []

        def eo():
            S.yield_point('execute_once')
            was_final = Interpreter.final.fget(it)
            s = orig()
            if s:
                executed.append(s.event.name if s.event is not None else '<init>')
            elif not was_final and queued_n[0] > len([e for e in executed if e != '<init>']):
                # (every event the clients queue is due at once)
                starved.append([queued_n[0], len(executed)])
            return s
        it.execute_once = eo

        class R(rr.AsyncRunner):
            def before_run(self):
                S.yield_point('before_run')
                hooks['before_run'] += 1

            def after_run(self):
                S.yield_point('after_run')
                hooks['after_run'] += 1

            def before_execute(self):
                S.yield_point('before_execute')
                hooks['cycles'] += 1

            def after_execute(self, steps):
                S.yield_point('after_execute')
                reported.append([s.event.name if s.event is not None else '<init>' for s in steps])
                kept.append(steps)      # (a hook may well keep what it was handed)

            def wait(self):
                # the real wait() joins only a live thread; one scheduling point in either case
                S.yield_point('join', blocked_until=lambda: not self.running)

            def __del__(self):
                pass
        i_unpaused, i_stop = event_roles(rr.AsyncRunner, lambda: Interpreter(import_from_yaml(CHART)))
        Ctx.events = []
        Ctx.stop_index = i_stop
        r = R(it, interval=0.1, execute_all=payload['execute_all'])
        r_events = list(Ctx.events)
        start_err = []

        def client_body(prog, who=None):
            def body():
                for op in prog:
                    k = op[0]
                    if k == 'start':
                        try:
                            r.start()
                        except RuntimeError:
                            start_err.append(1)
                    elif k == 'queue':
                        S.yield_point('queue')
                        it.queue(op[1])
                        queued_n[0] += 1
                    elif k == 'pause':
                        r.pause()
                    elif k == 'unpause':
                        r.unpause()
                    elif k == 'stop':
                        r.stop()
                        S.trace.append((who, 'stop-returned'))
                    elif k == 'wait':
                        r.wait()
            return body
        names = ['runner']
        for i, prog in enumerate(payload['clients']):
            nm = 'client%d' % i
            names.append(nm)
            S.spawn(nm, client_body(prog, nm))
        sched = []
        fixed = payload.get('sched')
        n = 0
        limit = payload.get('limit', 400)
        result = 'limit'
        while n < limit:
            en = S.enabled()
            if fixed is not None:
                if n >= len(fixed):
                    result = 'end-of-schedule'
                    break
                nm = names[fixed[n]]
                if nm not in en:
                    # the model treats a step of a blocked / finished / not yet existing thread as a no-op
                    sched.append(fixed[n])
                    n += 1
                    continue
            else:
                if not en:
                    result = 'deadlock' if any(v != 'done' for v in S.state.values()) else 'done'
                    break
                nm = rnd.choice(sorted(en))
            sched.append(names.index(nm))
            S.resume(nm)
            n += 1
        if fixed is None:
            payload['sched'] = sched
        en = S.enabled()
        if not en:
            result = 'deadlock' if any(v != 'done' for v in S.state.values()) else 'done'
        obs = {'executed': executed, 'reported': reported, 'before_run': hooks['before_run'],
               'after_run': hooks['after_run'], 'cycles': hooks['cycles'],
               'unpaused': r_events[i_unpaused].flag, 'stop': r_events[i_stop].flag, 'final': Interpreter.final.fget(it),
               'runner_done': S.state.get('runner') == 'done', 'starved': starved,
               'enabled': [nm in en for nm in names]}
        later = [[s.event.name if s.event is not None else '<init>' for s in steps] for steps in kept]
        if later != reported:
            obs['kept'] = later
        aux = {'result': result, 'trace': list(S.trace), 'names': names,
               'states': {k: (v if isinstance(v, str) else 'blocked') for k, v in S.state.items()}}
        return obs, aux
    finally:
        rr.threading, rr.time = old_threading, old_time


class C20(Prop):
    id = 'C20'
    quick_cases = 2500
    thorough_cases = 40000
    rule = ('the real AsyncRunner (threading / time of sismic.runner.runner replaced by cooperative shims with a yield '
            'point at every flag operation, hook, sleep, join, final test and execute_once) is run under random '
            'deterministic schedules against 1–2 client threads executing random programs of start / queue / pause / '
            'unpause / stop / wait; the same schedule is replayed by the model and every observable compared (executed '
            'and reported macro steps per cycle, hook counts, flags, who is blocked); oracle on the implementation: '
            'reported = executed (in order, one per cycle unless execute_all), hooks once, FIFO exactly-once '
            'consumption, at most one cycle starts after pause() returned, stop() returns and nothing executes '
            'afterwards, the runner ends by itself when final, no deadlock with a single client; non-trivial = a '
            'schedule with a pause while a cycle was under way or a stop with events still pending')
    trusted = ['pre-emption inside one Python-level call is not modelled; threading.Event / Thread.join by their documented behaviour']

    def extra_build(self):
        """the tie needs to tell the runner's pause flag from its stop flag (by what the public `pause()` and `stop()`
        do to the `threading.Event`s a runner creates): when it cannot, the correspondence is broken"""
        try:
            run_schedule({'kind': 'runner', 'execute_all': False, 'clients': [[['start'], ['stop']]], 'limit': 50},
                         __import__('random').Random(1))
        except engine.MachineryError as e:
            return False, str(e)
        return True, ''

    def gen_case(self, rnd, tier):
        try:
            return self._gen_case(rnd, tier)
        except engine.MachineryError as e:
            return Case({'kind': 'runner', 'skip': str(e)[:300], 'execute_all': False, 'clients': [], 'limit': 1}, None,
                        model_ok=False)

    def _gen_case(self, rnd, tier):
        if rnd.random() < 0.005:
            # a backlog: a thousand and more events queued before the runner is started, all due in its first cycle
            n = rnd.choice([1003, 1250, 2100])
            prog = [['queue', 'e'] for _ in range(n)] + [['start']]
            prog += rnd.choice([[['queue', 'stop'], ['wait']], [['queue', 'e'], ['queue', 'stop'], ['unpause'], ['wait']]])
            payload = {'kind': 'runner', 'execute_all': rnd.random() < 0.8, 'clients': [prog], 'limit': 4 * n + 400}
            run_schedule(payload, rnd)
            return Case(payload, None)
        nclients = 1 if rnd.random() < 0.75 else 2
        clients = []
        for c in range(nclients):
            prog = [['start']] if c == 0 else []
            for _ in range(rnd.randint(2, 10)):
                op = rnd.choice(['queue', 'queue', 'queue', 'pause', 'unpause', 'queue-stop'])
                if op == 'queue':
                    prog.append(['queue', 'e'])
                elif op == 'queue-stop':
                    if rnd.random() < 0.2:
                        prog.append(['queue', 'stop'])
                else:
                    prog.append([op])
            if c == 0:
                r = rnd.random()
                if r < 0.55:
                    prog.append(['stop'])
                elif r < 0.85:
                    prog += [['queue', 'stop'], ['unpause'], ['wait']]
                else:
                    prog += [['pause']]
            clients.append(prog)
        payload = {'kind': 'runner', 'execute_all': rnd.random() < 0.4, 'clients': clients, 'limit': 400}
        obs, aux = run_schedule(payload, rnd)       # draws and stores the schedule
        return Case(payload, None)

    def rebuild(self, payload):
        return None

    def run_impl(self, case):
        if case.payload.get('skip'):
            return {'skipped': case.payload['skip']}
        try:
            obs, aux = run_schedule(case.payload)
        except engine.MachineryError as e:
            case.model_ok = False
            return {'skipped': str(e)[:300]}
        case.aux = aux
        return obs

    def normalize(self, obs):
        if 'skipped' in obs:
            return {}
        keys = ('executed', 'reported', 'before_run', 'after_run', 'cycles', 'unpaused', 'stop', 'final', 'enabled')
        o = {k: obs[k] for k in keys}
        if 'pc' in obs:
            o['runner_done'] = obs['pc'] == 'done'
        else:
            o['runner_done'] = obs['runner_done']
        return o

    def oracle(self, case, obs, res):
        if 'skipped' in obs:
            res.features.add('tie-broken')
            return
        p = case.payload
        aux = case.aux
        trace = aux['trace']
        single = len(p['clients']) == 1
        flat = [s for c in obs['reported'] for s in c]
        ex = obs['executed']
        if flat != ex[:len(flat)] or len(ex) - len(flat) > (10 ** 6 if p['execute_all'] else 1):
            res.violations.append('reported macro steps %s are not the executed ones %s' % (flat, ex))
        if obs['runner_done'] and flat != ex:
            res.violations.append('runner finished but executed %s ≠ reported %s' % (ex, flat))
        if 'kept' in obs:
            res.violations.append('what after_execute was handed changed after the call: it was handed %s, the same lists hold %s '
                                  'at the end' % (obs['reported'], obs['kept']))
        if not p['execute_all'] and any(len(c) > 1 for c in obs['reported']):
            res.violations.append('more than one macro step reported in one cycle without execute_all')
        if obs['before_run'] > 1 or obs['after_run'] > 1:
            res.violations.append('before_run / after_run called more than once')
        if obs['runner_done'] and (obs['before_run'] != 1 or obs['after_run'] != 1):
            res.violations.append('runner finished with before_run=%d after_run=%d' % (obs['before_run'], obs['after_run']))
        # FIFO exactly once: consumed events are a prefix of the queued ones, in order
        queued = [op[1] for (nm, lab), op in zip([t for t in trace if t[1] == 'queue'],
                                                [o for c in p['clients'] for o in c if o[0] == 'queue'])] if single else None
        consumed = [e for e in ex if e != '<init>']
        if single and consumed != queued[:len(consumed)]:
            res.violations.append('consumed events %s are not a prefix of the queued events %s' % (consumed, queued))
        if obs.get('starved'):
            q, n = obs['starved'][0]
            res.violations.append('execute_once() executed nothing although %d events had been queued (all due at once) and only '
                                  '%d consumed: a due event was not consumed' % (q, len([e for e in ex[:n] if e != '<init>'])))
        if ex.count('<init>') > 1 or (ex and ex[0] != '<init>'):
            res.violations.append('unexpected macro step sequence %s' % ex)
        # pause: once pause() has returned, only the cycle already under way (the runner passed its
        # wait and has not reached the next one) may still call before_execute, and only if it has not yet
        if single:
            allowed = None            # None: not paused
            stopping = False          # the client is inside stop(): what it sets now is not an unpause()
            last_runner = None
            cycle_started = False     # before_execute already called in the cycle under way
            for nm, lab in trace:
                if nm == 'runner':
                    if lab == 'wait':
                        cycle_started = False
                    if lab == 'before_execute':
                        cycle_started = True
                        if allowed is not None:
                            if allowed <= 0:
                                res.violations.append('a cycle started after pause() returned although none was under way')
                                break
                            allowed -= 1
                            res.features.add('cycle-after-pause')
                    last_runner = lab
                elif lab == 'clear':
                    under_way = last_runner in ('wait', 'final', 'is_set', 'before_execute', 'execute_once', 'after_execute')
                    allowed = 1 if (under_way and not cycle_started) else 0
                    res.features.add('pause-under-way' if under_way else 'pause-at-gate')
                elif lab == 'set-stop':
                    stopping = True
                elif lab == 'set':
                    if stopping:
                        # stop() releases a paused runner so that it can end: no further cycle may start
                        stopping = False
                        if allowed is not None:
                            res.features.add('stop-while-paused')
                    else:
                        allowed = None
        # stop(): returns, nothing executes afterwards
        joins = [i for i, (nm, lab) in enumerate(trace) if nm.startswith('client') and lab == 'join']
        if joins and any(nm == 'runner' and lab == 'execute_once' for nm, lab in trace[joins[0] + 1:]):
            res.violations.append('execute_once ran after stop()/wait() returned')
        back = [i for i, (nm, lab) in enumerate(trace) if lab == 'stop-returned']
        if back:
            late = [lab for nm, lab in trace[back[0] + 1:] if nm == 'runner']
            if late:
                res.violations.append('the runner thread was still at work after stop() had returned: %s' % late[:6])
        if aux['result'] == 'deadlock':
            res.features.add('deadlock')
            stopped = any(op[0] == 'stop' for c in p['clients'] for op in c)
            runner_blocked = aux['states'].get('runner') == 'blocked'
            client_in_join = any(aux['states'].get(nm) == 'blocked' for nm in aux['names'][1:])
            if client_in_join and runner_blocked:
                res.violations.append('deadlock: stop()/wait() never returns (runner blocked on pause, final=%s, %d clients)'
                                      % (obs['final'], len(p['clients'])))
        if aux['result'] == 'limit':
            # a runner nobody stopped, unpaused, on a statechart that is not final runs for ever: fine
            stop_issued = any(op[0] == 'stop' for c in p['clients'] for op in c)
            if stop_issued or obs['final']:
                res.violations.append('no termination within %d scheduling steps although %s'
                                      % (p['limit'], 'stop() was called' if stop_issued else 'the statechart is final'))
            else:
                res.features.add('runs-for-ever')
        if obs['final'] and obs['unpaused'] and aux['result'] in ('done', 'deadlock') and not obs['runner_done'] \
                and obs['before_run'] == 1:
            res.violations.append('statechart final and runner not paused, but the runner did not stop')
        res.features.add('clients%d' % len(p['clients']))
        res.features.add('execute_all' if p['execute_all'] else 'one-per-cycle')
        res.features.add('result:' + aux['result'])
        if 'cycle-after-pause' in res.features or (obs['stop'] and len(consumed) < len(queued or [])):
            res.nontrivial = True

    def known_signature(self, finding, case, res):
        if finding.get('signature') == 'pause-after-stop':
            # wait()/stop() blocked for ever because another pause() landed after the flags were set
            p = case.payload
            return all(v.startswith('deadlock') for v in res.violations) and \
                any(op[0] == 'pause' for c in p['clients'] for op in c)
        return False

    def shrink_candidates(self, case):
        return []
