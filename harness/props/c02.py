"""C02 — the active configuration is always a legal, stable statechart configuration."""
from .. import gen, oracles
from ..interp_prop import InterpProp


class C02(InterpProp):
    id = 'C02'
    anomaly_tags = ('config',)
    edited = 0.2
    decoy = 0.12
    # observables compared with the model (see InterpProp.normalize)
    cmp_eff = ()
    cmp_step = ('entered', 'exited')
    cmp_slot = ('config', 'final', 'legal')
    cmp_callbacks = False
    cmp_err = 'class'
    cmp_time = False
    quick_cases = 2000
    thorough_cases = 40000
    n_ops = 40
    rule = ('random well-formed charts biased to targets nested in orthogonal regions, history states, ancestors '
            'and self-loops × histories of ~40 ops; oracle: Legal(configuration) after every execute_once that '
            'returned normally, final is absorbing; non-trivial = a run with a macro step that entered or left an '
            'orthogonal or history structure, or reached a final configuration')

    def knobs(self, rnd, tier):
        return gen.Knobs(nested_targets=0.55, p_orth=0.45, p_history=0.45, p_guard=0.3,
                         max_states=rnd.choice([10, 16, 22]), trans_per_owner=2.0, history_focus=0.5)

    def check_other(self, op, ob, prev_world, gh, res):
        if op[0] == 'create' and isinstance(ob['r'], dict) and 'wf' in ob['r']:
            # the hypothesis of C02.legal_preserved_partial, decided by wfB (Lean) and wf_json (Python)
            res.features.add('wf:%s' % ob['r']['wf'])
            if not ob['r']['wf']:
                res.error = 'the generator promised a W1-W8 statechart but wfB says it is not well-formed'

    def check_exec(self, info, res):
        r, gh, sc = info['r'], info['ghost'], info['sc']
        if not gh.clean:
            return
        if r['outcome'] == 'error':
            res.features.add('err:' + r['err']['class'])
            return
        cfg = info['slot1']['config']
        if gh.final:
            if cfg:
                res.violations.append('step %d: final configuration left: %s' % (info['k'], cfg))
            res.features.add('after-final')
            return
        l = oracles.legal(sc, cfg)
        if l is not True:
            res.violations.append('step %d: illegal configuration %s: %s' % (info['k'], cfg, l))
        if not cfg and gh.initialized:
            # became final: a final child of the root must have been entered
            entered = [s for m in r['step']['steps'] for s in m['entered']] if r['outcome'] == 'step' else []
            if not any(isinstance(sc.state_for(s), oracles.FinalState) and sc.parent_for(s) == sc.root for s in entered):
                res.violations.append('step %d: configuration became empty without entering a final child of the root' % info['k'])
            res.features.add('became-final')
            res.nontrivial = True
        if r['outcome'] == 'step':
            for m in r['step']['steps']:
                for s in m['entered'] + m['exited']:
                    st = sc.state_for(s)
                    if isinstance(st, oracles.OrthogonalState):
                        res.features.add('orthogonal-entered/exited')
                        res.nontrivial = True
                    if oracles.is_hist(st):
                        res.features.add('history-entered')
                        res.nontrivial = True
                if m['transition'] is not None:
                    t = info['trans'][m['transition']]
                    if t.target and any(isinstance(sc.state_for(a), oracles.OrthogonalState)
                                        for a in oracles.tree(sc).ancestors_for(t.target)) and t.target not in info['cfg0']:
                        res.features.add('target-nested-in-region')
            res.features.add('micro%d' % min(len(r['step']['steps']), 6))
            nt = len([m for m in r['step']['steps'] if m['transition'] is not None])
            # covered by the theorem (at most one planned step) / by the tie only (one transition per region)
            res.features.add('planned:single' if nt <= 1 else 'planned:multi')
