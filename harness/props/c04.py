"""C04 — non-determinism and conflicts are reported, never silently resolved."""
from .. import gen, oracles
from ..encode import ChartEnc
from ..framework import Case
from ..interp_prop import InterpProp


def nested_template(rnd):
    """an orthogonal state one of whose regions holds another orthogonal state; three (or more) transitions on
    the same event from sources of varying depth: two in sibling regions of the inner orthogonal state (one of
    them may leave its region, the inner orthogonal state, or stay), one in the other outer region"""
    from sismic.model import BasicState, CompoundState, OrthogonalState, Statechart, Transition
    letters = 'abcdefghijklmnopqrstuvwxyz'
    used = set()

    def nm():
        while True:
            n = ''.join(rnd.choice(letters) for _ in range(rnd.randint(2, 3)))
            if n not in used:
                used.add(n)
                return n
    sc = Statechart('n', preamble='x = 0\ny = 0\nv0 = False\nv1 = False\nseen = -1\nlast = -1')
    root, P, R1, R2, Q, Q1, Q2, X = (nm() for _ in range(8))
    sc.add_state(CompoundState(root, initial=P), None)
    sc.add_state(OrthogonalState(P), root)

    def chain(parent, depth_extra, leaf_names):
        """a compound region with `depth_extra` wrapping compound layers and basic leaves at the bottom"""
        cur = parent
        for _ in range(depth_extra):
            w = nm()
            sc.add_state(CompoundState(w), cur)
            if isinstance(sc.state_for(cur), CompoundState):
                sc.state_for(cur).initial = sc.state_for(cur).initial or w
            cur = w
        for i, l in enumerate(leaf_names):
            sc.add_state(BasicState(l, on_entry='x += 1'), cur)
            if i == 0:
                sc.state_for(cur).initial = l
        return cur
    sc.add_state(CompoundState(R1, initial=Q), P)
    sc.add_state(CompoundState(R2), P)
    sc.add_state(OrthogonalState(Q), R1)
    sc.add_state(BasicState(X), R1)
    sc.add_state(CompoundState(Q1), Q)
    sc.add_state(CompoundState(Q2), Q)
    a = [nm(), nm()]
    b = [nm(), nm()]
    c = [nm(), nm()]
    chain(Q1, rnd.randint(0, 2), a)
    chain(Q2, rnd.randint(0, 2), b)
    chain(R2, rnd.randint(0, 3), c)
    ev = 'e'
    # the transition of the first inner region: stays, leaves its region, leaves the inner orthogonal state
    sc.add_transition(Transition(a[0], rnd.choice([a[1], a[1], X, X, Q2, b[1], None]), event=ev, action='y += 1'))
    sc.add_transition(Transition(b[0], rnd.choice([b[1], b[1], None, X]), event=ev, action='y += 1'))
    sc.add_transition(Transition(c[0], rnd.choice([c[1], c[1], None]), event=ev, action='y += 1'))
    if rnd.random() < 0.3:
        sc.add_transition(Transition(rnd.choice([Q1, Q2, R1]), None, event=ev, guard='x > 100'))
    # ways back, so that the situation arises again
    sc.add_transition(Transition(X, Q, event='f'))
    sc.add_transition(Transition(a[1], a[0], event='f'))
    sc.add_transition(Transition(b[1], b[0], event='f'))
    sc.add_transition(Transition(c[1], c[0], event='f'))
    sc.validate()
    ops = [['exec', 0, 0]]
    for e in rnd.choice([['e'], ['e', 'f', 'e'], ['f', 'e', 'e'], ['e', 'e', 'f', 'e']]):
        ops.append(['queue', 0, {'ev': e, 'data': []}])
        ops.append(['exec', 0, 0])
    return sc, ops


class C04(InterpProp):
    id = 'C04'
    # observables compared with the model (see InterpProp.normalize)
    cmp_eff = ('meta', 'guard')
    cmp_meta = ('step started', 'event consumed', 'step ended')
    cmp_step = ('transition',)
    cmp_slot = ('config', 'ctx')
    cmp_callbacks = False
    cmp_err = 'class'
    cmp_time = False
    quick_cases = 2500
    thorough_cases = 40000
    n_ops = 30
    rule = ('random well-formed charts with many weakly guarded transitions on few events (same state under '
            'compound / orthogonal parent / root, different regions staying inside or leaving, nested orthogonals) '
            '× histories; oracle: the selected set (recomputed with the Fires relation from the guard log) is '
            'classified by the documented rule and compared with the exception class; after such an error the '
            'configuration, context and pending event are unchanged and no code ran; non-trivial = a run in which '
            '≥2 transitions were selected at once')

    owns_construction = True

    def knobs(self, rnd, tier):
        return gen.Knobs(dups=rnd.choice([0, 0, 0.15]), avoid_nondet=False, p_orth=0.6, trans_per_owner=rnd.choice([2.5, 4.0]), p_guard=0.25, p_eventless=0.08,
                         max_states=rnd.choice([6, 10, 16]), p_history=0.15, nested_targets=0.3, flags=2)

    def make_ops(self, rnd, knobs, sc):
        # few event names so that several transitions are triggered at once
        ops = gen.gen_ops(rnd, knobs, self.n_ops)
        for op in ops:
            if op[0] == 'queue':
                op[2]['ev'] = rnd.choice(['e', 'e', 'f'])
        return ops

    def gen_case(self, rnd, tier):
        if rnd.random() < 0.1:
            sc, ops1 = nested_template(rnd)
            if oracles.wf_json(ChartEnc(sc).json):
                enc = ChartEnc(sc)
                payload = {'kind': 'interp', 'charts': [enc.json],
                           'ops': [['create', 0, self.ignore_contract, [], 0]] + ops1}
                return Case(payload, {'charts': [sc]}, model_ok=enc.supported)
        return super().gen_case(rnd, tier)

    def post_build(self, rnd, g, sc):
        for t in sc.transitions:
            if t.event is not None:
                t.event = rnd.choice(['e', 'e', 'f'])
        if rnd.random() < 0.12:
            # guards written with braces (set displays): they show in the text of the transition, hence in the
            # messages of the exceptions (outside the modelled subset: implementation only)
            for t in sc.transitions:
                if rnd.random() < 0.5:
                    t.guard = rnd.choice(['x in {0, 1, 2, 3, 4, 5, 6, 7, 8, 9}', 'y not in {-7}', 'x >= 0 or x in {}'])
        # sometimes two transitions on the root state (D3)
        if rnd.random() < 0.25:
            from sismic.model import Transition
            for _ in range(2):
                sc.add_transition(Transition(sc.root, None, event='e', action='x += 1'))

    def check_exec(self, info, res):
        r, gh, sc, trans = info['r'], info['ghost'], info['sc'], info['trans']
        if not gh.clean or not gh.initialized or gh.final:
            return
        out = r['outcome']
        k = info['k']
        cls = r['err']['class'] if out == 'error' else None
        gt = oracles.guard_table(r['eff'])
        pending = gh.next(info['clock'])
        pend_name = pending['ev']['ev'] if pending else None
        sel = oracles.fires_spec(sc, trans, set(info['cfg0']), pend_name,
                                 lambda i, x: gt.get((i, x)) is True)
        exp = oracles.classify(sc, [trans[i] for i in sel])
        if out == 'error' and cls not in ('NonDeterminismError', 'ConflictingTransitionsError'):
            res.features.add('err:' + cls)
            if cls == 'StatechartError' or cls.startswith('OTHER'):
                res.violations.append('step %d: %s raised by execute_once' % (k, cls))
            elif exp != 'ok' and not any(e[0] in ('exit', 'action', 'entry', 'cond') for e in r['eff']):
                # nothing was executed yet: the error comes from the selection itself, where the selected
                # transitions call for NonDeterminismError / ConflictingTransitionsError
                res.violations.append('step %d: selected transitions %s are %s but execute_once raised %s'
                                      % (k, sel, exp, r['err'].get('msg') or cls))
            return
        got = {'NonDeterminismError': 'nondet', 'ConflictingTransitionsError': 'conflict', None: 'ok'}[cls]
        if exp != got:
            res.violations.append('step %d: selected transitions %s are %s but execute_once reported %s'
                                  % (k, sel, exp, got))
        if len(sel) >= 2:
            res.nontrivial = True
            res.features.add('multi-' + exp)
            if len(set(trans[i].source for i in sel)) < len(sel):
                res.features.add('same-source')
        if out == 'error':
            s0, s1 = info['slot0'], info['slot1']
            if s0['config'] != s1['config'] or s0['ctx'] != s1['ctx']:
                res.violations.append('step %d: state changed although %s was raised' % (k, cls))
            if oracles.exec_effects(r['eff']) or any(e[0] == 'cond' for e in r['eff']):
                res.violations.append('step %d: code or contracts ran although %s was raised' % (k, cls))
            metas = [m['ev'] for m in oracles.meta_effects(r['eff'])]
            if metas != ['step started']:
                res.violations.append('step %d: meta-events %s emitted although %s was raised' % (k, metas, cls))
