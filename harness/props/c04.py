"""C04 — non-determinism and conflicts are reported, never silently resolved."""
from .. import gen, oracles
from ..interp_prop import InterpProp


class C04(InterpProp):
    id = 'C04'
    # observables compared with the model (see InterpProp.normalize)
    cmp_eff = ('meta', 'guard')
    cmp_meta = ('step started', 'event consumed', 'step ended')
    cmp_step = ('transition',)
    cmp_slot = ('config', 'ctx')
    cmp_callbacks = False
    cmp_err = 'class'
    cmp_time = False
    quick_cases = 1000
    thorough_cases = 40000
    n_ops = 30
    rule = ('random well-formed charts with many weakly guarded transitions on few events (same state under '
            'compound / orthogonal parent / root, different regions staying inside or leaving, nested orthogonals) '
            '× histories; oracle: the selected set (recomputed with the Fires relation from the guard log) is '
            'classified by the documented rule and compared with the exception class; after such an error the '
            'configuration, context and pending event are unchanged and no code ran; non-trivial = a run in which '
            '≥2 transitions were selected at once')

    def knobs(self, rnd, tier):
        return gen.Knobs(avoid_nondet=False, p_orth=0.6, trans_per_owner=rnd.choice([2.5, 4.0]), p_guard=0.25, p_eventless=0.08,
                         max_states=rnd.choice([6, 10, 16]), p_history=0.15, nested_targets=0.3, flags=2)

    def make_ops(self, rnd, knobs, sc):
        # few event names so that several transitions are triggered at once
        ops = gen.gen_ops(rnd, knobs, self.n_ops)
        for op in ops:
            if op[0] == 'queue':
                op[2]['ev'] = rnd.choice(['e', 'e', 'f'])
        return ops

    def post_build(self, rnd, g, sc):
        for t in sc.transitions:
            if t.event is not None:
                t.event = rnd.choice(['e', 'e', 'f'])
        # sometimes two transitions on the root state (D3)
        if rnd.random() < 0.25:
            from sismic.model import Transition
            for _ in range(2):
                sc.add_transition(Transition(sc.root, None, event='e', action='x += 1'))

    def check_exec(self, info, res):
        r, gh, sc, trans = info['r'], info['ghost'], info['sc'], info['trans']
        if not gh.clean or not gh.initialized or gh.final:
            return
        out = r['outcome']
        k = info['k']
        cls = r['err']['class'] if out == 'error' else None
        if out == 'error' and cls not in ('NonDeterminismError', 'ConflictingTransitionsError'):
            res.features.add('err:' + cls)
            if cls == 'StatechartError' or cls.startswith('OTHER'):
                res.violations.append('step %d: %s raised by execute_once' % (k, cls))
            return
        gt = oracles.guard_table(r['eff'])
        pending = gh.next(info['clock'])
        pend_name = pending['ev']['ev'] if pending else None
        sel = oracles.fires_spec(sc, trans, set(info['cfg0']), pend_name,
                                 lambda i, x: gt.get((i, x)) is True)
        exp = oracles.classify(sc, [trans[i] for i in sel])
        got = {'NonDeterminismError': 'nondet', 'ConflictingTransitionsError': 'conflict', None: 'ok'}[cls]
        if exp != got:
            res.violations.append('step %d: selected transitions %s are %s but execute_once reported %s'
                                  % (k, sel, exp, got))
        if len(sel) >= 2:
            res.nontrivial = True
            res.features.add('multi-' + exp)
            if len(set(trans[i].source for i in sel)) < len(sel):
                res.features.add('same-source')
        if out == 'error':
            s0, s1 = info['slot0'], info['slot1']
            if s0['config'] != s1['config'] or s0['ctx'] != s1['ctx']:
                res.violations.append('step %d: state changed although %s was raised' % (k, cls))
            if oracles.exec_effects(r['eff']) or any(e[0] == 'cond' for e in r['eff']):
                res.violations.append('step %d: code or contracts ran although %s was raised' % (k, cls))
            metas = [m['ev'] for m in oracles.meta_effects(r['eff'])]
            if metas != ['step started']:
                res.violations.append('step %d: meta-events %s emitted although %s was raised' % (k, metas, cls))
