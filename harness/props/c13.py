"""C13 — time is frozen per step; after() and idle() mean what they say."""
import re

from .. import gen, oracles
from ..interp_prop import InterpProp


class C13(InterpProp):
    id = 'C13'
    # observables compared with the model (see InterpProp.normalize)
    cmp_eff = ('guard', 'cond', 'meta')
    cmp_meta = ('step started',)
    cmp_step = ()
    cmp_slot = ('time', 'ctx')
    cmp_callbacks = False
    cmp_err = 'class'
    quick_cases = 800
    thorough_cases = 30000
    n_ops = 40
    rule = ('random charts whose guards are mostly single after(d)/idle(d) predicates with thresholds around the exact '
            'boundary, internal transitions, self-loops, re-entries, actions storing `time` × histories with clock moves '
            '(the harness also advances the real clock *during* steps from a listener); oracle: every logged guard '
            'result of after(d)/idle(d) equals time−d ≥ last entry / last entry-or-fire of the source (ghost times '
            'recomputed from the trace); MacroStep.time, the time in "step started", the time stored by actions equal '
            'the clock value at the call; non-trivial = a run in which a time predicate was evaluated at the exact boundary')
    clock_mover = True

    def knobs(self, rnd, tier):
        return gen.Knobs(time_preds=0.75, p_guard=0.8, p_internal=0.3, p_eventless=0.3, clock_moves=0.2,
                         max_states=rnd.choice([5, 9, 13]), trans_per_owner=2.0)

    def make_ops(self, rnd, knobs, sc):
        ops = gen.gen_ops(rnd, knobs, self.n_ops)
        t = 0
        for op in ops:
            if op[0] == 'exec':
                t += rnd.choice([0, 0, 1, 1, 2, 3])
                op[2] = t
        return ops

    def run_impl(self, case):
        import copy
        from .. import impl
        charts = [copy.deepcopy(sc) for sc in case.aux['charts']]
        case.aux['run_charts'] = charts
        obs, world = impl.run_case(case.payload, charts, clock_mover=True)
        return obs

    def check_exec(self, info, res):
        r, gh, sc, trans = info['r'], info['ghost'], info['sc'], info['trans']
        if not gh.clean:
            return
        k, t = info['k'], info['clock']
        if r['outcome'] == 'step' and r['step']['time'] != t:
            res.violations.append('step %d: MacroStep.time %r differs from the clock value %r at the call' % (k, r['step']['time'], t))
        if info['slot1']['time'] != t and r['outcome'] != 'error':
            res.violations.append('step %d: interpreter.time %r after the step, clock was %r' % (k, info['slot1']['time'], t))
        metas = oracles.meta_effects(r['eff'])
        for m in metas:
            if m['ev'] == 'step started' and m['data'] != [['time', t]]:
                res.violations.append('step %d: step started carries %s, clock was %r' % (k, m['data'], t))
        if r['outcome'] == 'step':
            ran = [e for e in r['eff'] if e[0] in ('action', 'entry', 'exit')]
            seen = dict(info['slot1']['ctx']).get('seen')
            stores = False
            for e in ran:
                code = (trans[e[1]].action if e[0] == 'action' else
                        getattr(sc.state_for(e[1]), 'on_entry' if e[0] == 'entry' else 'on_exit', None))
                if code and 'seen = time' in code:
                    stores = True
            if stores and seen != t:
                res.violations.append('step %d: code saw time=%r, step time is %r' % (k, seen, t))
        for e in r['eff']:
            if e[0] != 'guard' or e[3] is None:
                continue
            g = trans[e[1]].guard
            m = re.fullmatch(r'(after|idle)\((\d+)\)', g or '')
            if not m:
                continue
            d = int(m.group(2))
            src = trans[e[1]].source
            ref = gh.entered_at.get(src) if m.group(1) == 'after' else gh.idle_at.get(src)
            if ref is None:
                continue
            exp = (t - d >= ref)
            if exp != e[3]:
                res.violations.append('step %d: %s on %s evaluated %s at time %d, reference time %d' % (k, g, src, e[3], t, ref))
            res.features.add(m.group(1))
            if t - d == ref:
                res.features.add('boundary')
                res.nontrivial = True
