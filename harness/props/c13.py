"""C13 — time is frozen per step; after() and idle() mean what they say."""
import re

from .. import gen, oracles
from ..interp_prop import InterpProp


class C13(InterpProp):
    id = 'C13'
    decoy = 0.12
    anomaly_tags = ('time',)
    # observables compared with the model (see InterpProp.normalize)
    cmp_eff = ('guard', 'cond', 'meta')
    cmp_meta = ('step started',)
    cmp_step = ()
    cmp_slot = ('time', 'ctx')
    cmp_callbacks = False
    cmp_err = 'class'
    quick_cases = 2000
    thorough_cases = 30000
    n_ops = 40
    rule = ('random charts whose guards are mostly single after(d)/idle(d) predicates with thresholds around the exact '
            'boundary, internal transitions, self-loops, re-entries, actions storing `time` × histories with clock moves '
            '(the harness also advances the real clock *during* steps from a listener); oracle: every logged guard '
            'result of after(d)/idle(d) equals time−d ≥ last entry / last entry-or-fire of the source (ghost times '
            'recomputed from the trace); MacroStep.time, the time in "step started", the time stored by actions equal '
            'the clock value at the call; non-trivial = a run in which a time predicate was evaluated at the exact boundary')
    clock_mover = True

    def knobs(self, rnd, tier):
        kn = gen.Knobs(time_preds=0.75, p_guard=0.8, p_internal=0.3, p_eventless=0.3, clock_moves=0.2,
                       max_states=rnd.choice([5, 9, 13]), trans_per_owner=2.0)
        if rnd.random() < 0.35:
            # time predicates in contracts too (state postconditions / invariants, transition contracts)
            kn.contracts = 0.5
            kn.time_conds = 0.6
            kn.cflags = 0
        return kn

    @staticmethod
    def watchdog(rnd):
        """a state whose invariant says that it is not stayed in (or not idle) for too long: passing time alone makes
        it false, at a step that has nothing else to do as well"""
        from sismic.model import BasicState, CompoundState, Statechart, Transition
        d = rnd.randint(1, 6)
        kind = rnd.choice(['after', 'idle'])
        sc = Statechart('watchdog', preamble='x = 0\ny = 0\nseen = -1')
        sc.add_state(CompoundState('root', initial='armed'), None)
        a = BasicState('armed')
        a.invariants.append('not %s(%d)' % (kind, d))
        if rnd.random() < 0.5:
            a.invariants.append('%s(0)' % rnd.choice(['after', 'idle']))
        sc.add_state(a, 'root')
        sc.add_state(BasicState('safe'), 'root')
        sc.add_transition(Transition('armed', None, event='e', action='x += 1'))        # (resets idle, not after)
        sc.add_transition(Transition('armed', 'armed', event='f', action='y += 1'))      # (re-entry: resets both)
        sc.add_transition(Transition('armed', 'safe', event='g'))
        sc.add_transition(Transition('safe', 'armed', event='g'))
        ops, t = [['exec', 0, 0]], 0
        for _ in range(rnd.randint(4, 12)):
            if rnd.random() < 0.35:
                ops.append(['queue', 0, {'ev': rnd.choice(['e', 'e', 'f', 'g', 'zz']), 'data': []}])
            else:
                t += rnd.choice([0, 1, 1, 2, 3])
                ops.append(['exec', 0, t])
        return sc, ops

    def gen_case(self, rnd, tier):
        if rnd.random() < 0.05:
            from ..encode import ChartEnc
            from ..framework import Case
            sc, ops1 = self.watchdog(rnd)
            enc = ChartEnc(sc)
            payload = {'kind': 'interp', 'charts': [enc.json], 'ops': [['create', 0, self.ignore_contract, [], 0]] + ops1}
            return Case(payload, {'charts': [sc]}, model_ok=enc.supported)
        case = super().gen_case(rnd, tier)
        if rnd.random() < 0.08 and not case.payload.get('history'):
            # clock values finer than a millisecond (exact binary fractions): a time is a time, not a display value
            fine, last = 0, None
            for op in case.payload['ops']:
                if op[0] in ('exec', 'setclock'):
                    if op[2] != last:
                        fine = rnd.randint(1, 7) / 4096.0
                        last = op[2]
                    op[2] = op[2] + fine
            case.payload['no_model'] = True
            case.model_ok = False
        elif rnd.random() < 0.1 and not case.payload.get('history'):
            # the clock shows seconds since the epoch (a quarter past, exact in a float) or integer ticks beyond 2**53:
            # time is the clock value sampled, and time predicates are about differences
            off = rnd.choice([1790000000.25, 2 ** 53 + 1, 10 ** 15 + 7])
            for op in case.payload['ops']:
                if op[0] in ('exec', 'setclock'):
                    op[2] = op[2] + off
                elif op[0] == 'create':
                    op[4] = op[4] + off
            if isinstance(off, float):
                case.payload['no_model'] = True
                case.model_ok = False
        return case

    def make_ops(self, rnd, knobs, sc):
        ops = gen.gen_ops(rnd, knobs, self.n_ops)
        t = 0
        for op in ops:
            if op[0] == 'exec':
                t += rnd.choice([0, 0, 1, 1, 2, 3])
                op[2] = t
        return ops

    def run_impl(self, case):
        import copy
        from .. import impl
        charts = [copy.deepcopy(sc) for sc in case.aux['charts']]
        case.aux['run_charts'] = charts
        obs, world = impl.run_case(case.payload, charts, clock_mover=True)
        return obs

    def check_other(self, op, ob, prev_world, gh, res):
        # the interpreter's time changes at calls to execute_once only — whatever is done to its clock, its queue or
        # its variables in between (or to another interpreter)
        try:
            t0, t1 = prev_world['slots'][0]['time'], ob['world']['slots'][0]['time']
        except (TypeError, KeyError, IndexError):
            return
        if t0 != t1 and not res.violations:
            res.violations.append('%s changed interpreter.time from %r to %r: it changes only at calls to execute_once'
                                  % (op[:4], t0, t1))

    def check_exec(self, info, res):
        r, gh, sc, trans = info['r'], info['ghost'], info['sc'], info['trans']
        if not gh.clean:
            return
        k, t = info['k'], info['clock']
        if r['outcome'] == 'step' and r['step']['time'] != t:
            res.violations.append('step %d: MacroStep.time %r differs from the clock value %r at the call' % (k, r['step']['time'], t))
        if info['slot1']['time'] != t and r['outcome'] != 'error':
            res.violations.append('step %d: interpreter.time %r after the step, clock was %r' % (k, info['slot1']['time'], t))
        metas = oracles.meta_effects(r['eff'])
        for m in metas:
            if m['ev'] == 'step started' and m['data'] != [['time', t]]:
                res.violations.append('step %d: step started carries %s, clock was %r' % (k, m['data'], t))
        if r['outcome'] == 'step':
            ran = [e for e in r['eff'] if e[0] in ('action', 'entry', 'exit')]
            seen = dict(info['slot1']['ctx']).get('seen')
            stores = False
            for e in ran:
                code = (trans[e[1]].action if e[0] == 'action' else
                        getattr(sc.state_for(e[1]), 'on_entry' if e[0] == 'entry' else 'on_exit', None))
                if code and 'seen = time' in code:
                    stores = True
            if stores and seen != t:
                res.violations.append('step %d: code saw time=%r, step time is %r' % (k, seen, t))
        self.check_selection(info, res)
        self.check_conds(info, res)
        for e in r['eff']:
            if e[0] != 'guard' or e[3] is None:
                continue
            g = trans[e[1]].guard
            m = re.fullmatch(r'(after|idle)\((\d+)\)', g or '')
            if not m:
                continue
            d = int(m.group(2))
            src = trans[e[1]].source
            ref = gh.entered_at.get(src) if m.group(1) == 'after' else gh.idle_at.get(src)
            if ref is None:
                continue
            exp = (t - d >= ref)
            if exp != e[3]:
                res.violations.append('step %d: %s on %s evaluated %s at time %d, reference time %d' % (k, g, src, e[3], t, ref))
            res.features.add(m.group(1))
            if t - d == ref:
                res.features.add('boundary')
                res.nontrivial = True

    # ---- what fires, with the time predicates evaluated by the oracle itself ------------------------
    @staticmethod
    def time_pred(src_text):
        m = re.fullmatch(r'(after|idle)\((\d+)\)', src_text or '')
        return (m.group(1), int(m.group(2))) if m else None

    @staticmethod
    def time_cond(src_text):
        """a condition that is a time predicate or the negation of one: (kind, d, negated)"""
        m = re.fullmatch(r'(not )?(after|idle)\((\d+)\)', src_text or '')
        return (m.group(2), int(m.group(3)), bool(m.group(1))) if m else None

    def check_selection(self, info, res):
        r, gh, sc, trans = info['r'], info['ghost'], info['sc'], info['trans']
        if not gh.initialized or gh.final or r['outcome'] == 'error':
            return
        t = info['clock']
        gt = oracles.guard_table(r['eff'])
        cfg = set(info['cfg0'])
        pending = gh.next(t)
        pend_name = pending['ev']['ev'] if pending else None
        fired = sorted(oracles.step_transitions(r['step'])) if r['outcome'] == 'step' else []

        def gv(default):
            def f(i, x):
                tp = self.time_pred(trans[i].guard)
                if tp is not None:
                    ref = (gh.entered_at if tp[0] == 'after' else gh.idle_at).get(trans[i].source)
                    if ref is not None:
                        return t - tp[1] >= ref
                return gt.get((i, x), default) is True if (i, x) in gt else default
            return f
        exps = [sorted(oracles.fires_spec(sc, trans, cfg, pend_name, gv(d))) for d in (False, True)]
        if fired not in exps and exps[0] == exps[1]:
            res.violations.append('step %d: fired %s at time %d; with after()/idle() of each source state computed from '
                                  'its own last entry / last transition the documented semantics fires %s'
                                  % (info['k'], fired, t, exps[0]))

    def check_final_invariants(self, info, res, entered, idle):
        """at the end of every macro step, also an empty one, the invariants of the active states hold *at the time of
        that step*: one that is a time predicate and is false then does not go unnoticed"""
        r, sc = info['r'], info['sc']
        if r['outcome'] == 'error' or res.violations:
            return
        t = info['clock']
        done = set((e[2][1], e[3]) for e in r['eff'] if e[0] == 'cond' and e[1] == 'inv' and e[2][0] == 's')
        for n in info['slot1']['config']:
            for i, c in enumerate(sc.state_for(n).invariants):
                tp = self.time_cond(c)
                ref = (entered if tp and tp[0] == 'after' else idle).get(n) if tp else None
                if tp is None or ref is None:
                    continue
                if ((t - tp[1] >= ref) != tp[2]) is False and (n, i) not in done:
                    res.violations.append('step %d: %s is active at the end of the step at time %d and its invariant %r is false '
                                          '(%s at %d), but it was not evaluated and nothing was raised'
                                          % (info['k'], n, t, c, 'last entered' if tp[0] == 'after' else 'last entered / fired', ref))
                    return

    # ---- time predicates in contracts, replayed along the log of the step ----------------------------
    def check_conds(self, info, res):
        r, gh, sc, trans = info['r'], info['ghost'], info['sc'], info['trans']
        if not gh.initialized:
            return
        t = info['clock']
        entered, idle = dict(gh.entered_at), dict(gh.idle_at)
        firing = None          # transition whose action ran and whose idle time is not yet written
        for e in r['eff']:
            if firing is not None and not (e[0] == 'cond' and e[2] == ['t', firing]):
                idle[trans[firing].source] = t
                firing = None
            if e[0] == 'entry':
                # (recorded right after the entry code, before anything else is evaluated)
                entered[e[1]] = t
                idle[e[1]] = t
            elif e[0] == 'action':
                firing = e[1]
            elif e[0] == 'cond':
                obj = trans[e[2][1]] if e[2][0] == 't' else sc.state_for(e[2][1])
                lst = {'pre': obj.preconditions, 'post': obj.postconditions, 'inv': obj.invariants}[e[1]]
                tp = self.time_cond(lst[e[3]])
                if tp is None:
                    continue
                owner = obj.source if e[2][0] == 't' else obj.name
                ref = (entered if tp[0] == 'after' else idle).get(owner)
                if ref is None:
                    continue
                if e[5] is None and e[1] == 'pre':
                    continue        # (preconditions are not given after / idle)
                if e[5] is None:
                    # the owner was entered: its time predicates have a value
                    res.violations.append('step %d: %s condition %s of %s raised instead of answering at time %d; %s was %s at %d'
                                          % (info['k'], e[1], lst[e[3]], e[2], t, owner,
                                             'last entered' if tp[0] == 'after' else 'last entered / fired', ref))
                    return
                res.features.add('cond-' + tp[0])
                if ((t - tp[1] >= ref) != tp[2]) != e[5]:
                    res.violations.append('step %d: %s condition %s of %s evaluated %s at time %d; %s was %s at %d'
                                          % (info['k'], e[1], lst[e[3]], e[2], e[5], t, owner,
                                             'last entered' if tp[0] == 'after' else 'last entered / fired', ref))
                    return
        if firing is not None:
            idle[trans[firing].source] = t
        self.check_final_invariants(info, res, entered, idle)
