"""C07 — execution is deterministic and independent of declaration order (and of the hash seed)."""
import copy
import json
import os
import subprocess
import sys

from sismic.model import Statechart

from .. import gen, oracles, engine
from ..decode import chart_from_json
from ..encode import ChartEnc
from ..framework import Case
from ..interp_prop import InterpProp


def twin(sc, rnd):
    """same chart, sibling and transition declaration order shuffled, built through the API"""
    sc2 = Statechart(sc.name, description=sc.description, preamble=sc.preamble)

    def add(name, parent):
        sc2.add_state(copy.deepcopy(sc.state_for(name)), parent)
        ch = list(sc.children_for(name))
        rnd.shuffle(ch)
        for c in ch:
            add(c, name)
    add(sc.root, None)
    ts = list(sc.transitions)
    rnd.shuffle(ts)
    for t in ts:
        sc2.add_transition(copy.deepcopy(t))
    return sc2


def deep_history_template(rnd):
    """a compound state with a deep history child over an orthogonal state with several regions, left and
    re-entered through the history state: the restored same-depth states come out of a `set`"""
    from sismic.model import (BasicState, CompoundState, DeepHistoryState, OrthogonalState, Transition)
    letters = 'abcdefghijklmnopqrstuvwxyz'
    used = set()

    def nm():
        while True:
            n = ''.join(rnd.choice(letters) for _ in range(rnd.randint(2, 4)))
            if n not in used:
                used.add(n)
                return n
    sc = Statechart('hist', preamble='x = 0\ny = 0')
    root, idle, par, orth, hist = nm(), nm(), nm(), nm(), nm()
    sc.add_state(CompoundState(root, initial=idle), None)
    sc.add_state(BasicState(idle), root)
    sc.add_state(CompoundState(par, initial=orth), root)
    sc.add_state(OrthogonalState(orth), par)
    sc.add_state(DeepHistoryState(hist, memory=orth), par)
    for _ in range(rnd.randint(2, 4)):
        reg, a, b = nm(), nm(), nm()
        sc.add_state(CompoundState(reg, initial=a, on_entry='x += 1'), orth)
        sc.add_state(BasicState(a, on_entry='y = y * 2 + 1'), reg)
        sc.add_state(BasicState(b, on_entry='y = y * 2'), reg)
        sc.add_transition(Transition(a, b, event='g'))
    sc.add_transition(Transition(idle, hist, event='e'))
    sc.add_transition(Transition(par, idle, event='f'))
    ops = [['exec', 0, 0]]
    for ev in ['e', 'g', 'f', 'e', 'f', 'e']:
        ops.append(['queue', 0, {'ev': ev, 'data': []}])
        ops.append(['exec', 0, 0])
        if rnd.random() < 0.3:
            ops.append(['exec', 0, 0])
    return sc, ops


def tkey(t):
    return (t.source, t.target, t.event, t.guard, t.action, t.priority, tuple(t.preconditions),
            tuple(t.postconditions), tuple(t.invariants))


class C07(InterpProp):
    id = 'C07'
    # a relational property: the relation (twin / copy) is checked on the implementation by the oracle and
    # proved for the model; a uniform change of behaviour is not this property's business
    cmp_eff = ()
    cmp_step = ()
    cmp_slot = ()
    cmp_callbacks = False
    cmp_err = None
    cmp_time = False
    cmp_outcome = False
    quick_cases = 500
    thorough_cases = 8000
    n_ops = 30
    with_contracts = 0.3
    rule = ('for each random well-formed chart a twin with sibling-state and transition declaration order shuffled at '
            'every level (rebuilt through add_state/add_transition) is executed in lock-step on the same history; '
            'oracle: identical macro steps (transitions compared by value), effect logs, configurations, contexts and '
            'error classes; every case with a deep history state and every 4th other case is additionally re-run in a sub-process under another PYTHONHASHSEED and '
            'must reproduce the observation byte for byte; non-trivial = a run with a macro step exiting or entering '
            '≥2 sibling states, or firing ≥2 transitions')

    def knobs(self, rnd, tier):
        if rnd.random() < 0.4:      # deep histories over orthogonal content: set order of the memory
            return gen.Knobs(contracts=0.0, p_orth=0.7, p_history=0.9, nested_targets=0.7, p_guard=0.15,
                             max_states=rnd.choice([12, 18, 24]), trans_per_owner=1.5, max_depth=5, history_focus=0.9)
        return gen.Knobs(contracts=self.with_contracts, p_orth=0.5, nested_targets=0.4, zero_names=rnd.choice([0, 0, 0.4]),
                         max_states=rnd.choice([8, 14, 20]), trans_per_owner=2.0)

    def gen_case(self, rnd, tier):
        kn = self.knobs(rnd, tier)
        if rnd.random() < 0.08:
            sc, ops1 = deep_history_template(rnd)
        else:
            g = gen.ChartGen(rnd, kn)
            sc = g.build()
            ops1 = None
        if ops1 is None and rnd.random() < 0.15:
            # two transitions of one state on the same event which both stay inside that state (preferably a child
            # of an orthogonal state): whatever the interpreter makes of them does not depend on which comes first
            from sismic.model import OrthogonalState, Transition
            from sismic.model.elements import TransitionStateMixin
            owners = [n for n in sc.states if n != sc.root and isinstance(sc.state_for(n), TransitionStateMixin)]
            pref = [n for n in owners if isinstance(sc.state_for(sc.parent_for(n)), OrthogonalState)]
            if owners:
                s = rnd.choice(pref or owners)
                ev = rnd.choice(gen.EVENTS)
                inside = [None] + list(sc.children_for(s))
                sc.add_transition(Transition(s, rnd.choice(inside), event=ev, action='x = x * 2 + 1'))
                sc.add_transition(Transition(s, rnd.choice(inside), event=ev, action='x = x + 3'))
        history = None
        if rnd.random() < 0.12:
            # the first chart has a past (used, restructured through the editing API); its twin is built
            # afresh in the final shape: same structure, different construction history
            base = ChartEnc(sc).json
            gen.warm(sc)
            edits = gen.plan_edits(rnd, sc, True)
            if edits is None:
                sc = chart_from_json(base)
            else:
                history = {'base': base, 'edits': edits}
        ctx0 = []
        if rnd.random() < 0.3:
            # a variable that only the initial context provides (the same mapping is given to both twins)
            ctx0 = [['w', 0]]
            ts = list(sc.transitions)
            for t in rnd.sample(ts, min(len(ts), rnd.randint(1, 4))):
                t.action = ((t.action + '\n') if t.action else '') + 'w = w + 1'
            for t in rnd.sample(ts, min(len(ts), rnd.randint(1, 3))):
                if t.guard is None:
                    t.guard = rnd.choice(['w % 2 == 0', 'w < 3', 'w != 1'])
        sc2 = twin(sc, rnd)
        e1, e2 = ChartEnc(sc), ChartEnc(sc2)
        if ops1 is None:
            ops1 = gen.gen_ops(rnd, kn, self.n_ops)
        ops = [['create', 0, False, ctx0, 0], ['create', 1, False, ctx0, 0]]
        echo = rnd.random() < 0.08
        if echo:
            # several callables bound to the interpreter answer what it sends, each with its own number: the answers
            # are consumed in binding order (implementation only)
            nm = rnd.choice(gen.EVENTS)
            ops1 = [['bindecho', 0, k, nm] for k in range(rnd.choice([3, 5, 8]))] + list(ops1)
        for op in ops1:
            ops.append(op)
            op2 = list(op)
            op2[1] = 1
            ops.append(op2)
        deep = any(st['kind'] == 'deep' for st in e1.json['states'])
        payload = {'kind': 'interp', 'charts': [e1.json, e2.json], 'ops': ops, 'deep': deep,
                   'hashseed': rnd.randint(1, 4000) if deep else rnd.choice([None] * 3 + [rnd.randint(1, 4000)])}
        if history:
            payload['history'] = history
        if echo:
            payload['no_model'] = True
        return Case(payload, {'charts': [sc, sc2]}, model_ok=e1.supported and e2.supported)

    def rebuild(self, payload):
        h = payload.get('history')
        if h:
            sc = chart_from_json(h['base'])
            gen.warm(sc)
            gen.apply_edits(sc, h['edits'], check=True)
            sc2 = chart_from_json(payload['charts'][1])
            payload['charts'] = [ChartEnc(sc).json, ChartEnc(sc2).json]
            return {'charts': [sc, sc2]}
        return super().rebuild(payload)

    def run_impl(self, case):
        obs = super().run_impl(case)
        hs = case.payload.get('hashseed')
        if hs is not None:
            subs = []
            # set iteration order depends on the string hash seed: several seeds for charts with deep history
            for k in range(3 if case.payload.get('deep') else 2):
                env = dict(os.environ, PYTHONHASHSEED=str(hs + 7919 * k))
                p = subprocess.run([sys.executable, '-m', 'harness.impl_sub'], input=json.dumps(case.payload),
                                   capture_output=True, text=True, env=env, cwd=engine.VERIF, timeout=120)
                if p.returncode != 0:
                    raise engine.MachineryError('impl_sub failed: ' + p.stderr[-800:])
                subs.append(json.loads(p.stdout))
            obs['_sub'] = subs[0]
            obs['_subs'] = subs
        return obs

    def normalize(self, obs):
        o = super().normalize(obs)
        o.pop('_sub', None)
        o.pop('_subs', None)
        return o

    def shrink_candidates(self, case):
        # the history is a sequence of pairs (the same operation on either twin): whole pairs are dropped, and the
        # charts stay as they are (they are twins of one another)
        p = case.payload
        ops = p['ops']
        n = (len(ops) - 2) // 2
        for keep in (n // 2, n - 1):
            if 0 < keep < n:
                q = copy.deepcopy(p)
                q['ops'] = ops[:2 + 2 * keep]
                yield q
        for i in range(len(ops) - 2, 1, -2):
            q = copy.deepcopy(p)
            del q['ops'][i:i + 2]
            yield q

    def oracle(self, case, obs, res):
        for c0 in case.aux.get('charts', []):
            if getattr(c0, '_vp_edit_error', None):
                res.violations.append('while the statechart was edited through the API (a valid edit of a valid statechart): %s'
                                      % c0._vp_edit_error)
                return
        for k, (op, ob) in enumerate(zip(case.payload['ops'], obs['obs'])):
            if op[0] == 'create' and isinstance(ob.get('r'), dict) and ob['r'].get('initial_context_modified'):
                res.violations.append('op %d: the mapping given as initial_context to an earlier interpreter was written '
                                      'to by its run (the next interpreter given the same mapping starts elsewhere)' % k)
                return
        scs = case.aux['run_charts']
        tr = [list(sc.transitions) for sc in scs]

        def canon(slot, r):
            r = json.loads(json.dumps(r))

            def tk(i):
                return list(map(str, tkey(tr[slot][i]))) if isinstance(i, int) and 0 <= i < len(tr[slot]) else i
            if isinstance(r, dict):
                if 'step' in r:
                    for m in r['step']['steps']:
                        m['transition'] = tk(m['transition'])
                for e in r.get('eff', []):
                    if e[0] in ('guard', 'action'):
                        e[1] = tk(e[1])
                    if e[0] == 'cond' and e[2][0] == 't':
                        e[2][1] = tk(e[2][1])
                if 'err' in r and 'obj' in r['err'] and r['err']['obj'][0] == 't':
                    r['err']['obj'][1] = tk(r['err']['obj'][1])
                if 'eff' in r:
                    # the order in which guards of one priority class are evaluated follows the
                    # declaration order; guards are pure, so that order is not observable behaviour
                    guards = sorted(json.dumps(e) for e in r['eff'] if e[0] == 'guard')
                    r['eff'] = [e for e in r['eff'] if e[0] != 'guard']
                    if r.get('outcome') != 'error':
                        r['guards'] = guards
            return r
        ops = case.payload['ops']
        for k in range(2, len(ops) - 1, 2):
            a, b = obs['obs'][k], obs['obs'][k + 1]
            ra, rb = canon(0, a['r']), canon(1, b['r'])
            d = engine.diff(ra, rb)
            if d is None:
                d = engine.diff(b['world']['slots'][0], b['world']['slots'][1])
            if d:
                res.violations.append('op %d %s: the twin with shuffled declaration order behaves differently: %s' % (k, ops[k][0], d))
                break
            if isinstance(a['r'], dict) and a['r'].get('outcome') == 'step':
                st = a['r']['step']
                if len(oracles.step_transitions(st)) >= 2:
                    res.features.add('multi-transition')
                    res.nontrivial = True
                for m in st['steps']:
                    if m['transition'] is None and len(m['entered']) >= 2 and m['exited'] and \
                            oracles.is_hist(scs[0].state_for(m['exited'][0])):
                        res.features.add('history-restore-multi')
                    for lst in (m['entered'], m['exited']):
                        pars = [scs[0].parent_for(s) for s in lst]
                        if len(pars) != len(set(pars)):
                            res.features.add('siblings-in-one-micro-step')
                            res.nontrivial = True
            if isinstance(a['r'], dict) and a['r'].get('outcome') == 'error':
                res.features.add('err:' + a['r']['err']['class'])
        if '_sub' in obs:
            res.features.add('hashseed-rerun')
            subs = obs.get('_subs', [obs['_sub']])
            # (the sub-processes run under seeds fixed by the case: comparing them with one another is reproducible,
            #  comparing them with the run in this process — whose seed is whatever it is — is one more chance)
            for other in subs[1:]:
                d = engine.diff(self.full_view(subs[0]), self.full_view(other))
                if d:
                    res.violations.append('re-run under another PYTHONHASHSEED (base %s) differs: %s' % (case.payload['hashseed'], d))
                    break
            else:
                for sub in subs:
                    d = engine.diff(self.full_view({'obs': obs['obs']}), self.full_view(sub))
                    if d:
                        res.violations.append('re-run under another PYTHONHASHSEED (base %s) differs: %s' % (case.payload['hashseed'], d))
                        break
        if not res.features:
            res.features.add('no-feature')
