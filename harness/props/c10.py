"""C10 — property-statechart monitoring: complete, ordered, fail-fast, non-intrusive."""
import copy
import json

from sismic.model import BasicState, CompoundState, FinalState, Statechart, Transition

from .. import gen, oracles, engine
from ..encode import ChartEnc
from ..framework import Case
from ..interp_prop import InterpProp, ev_delay

KINDS = ['step started', 'step ended', 'event consumed', 'event sent', 'state exited', 'state entered',
         'transition processed', 'n0', 'n1', 'n2']


def property_chart(kinds, k, name='prop'):
    """becomes final at the k-th meta-event among `kinds`; stores the time it sees"""
    sc = Statechart(name, preamble='n = 0\nseen = -1\nhits = 0')
    sc.add_state(CompoundState('p', initial='w'), None)
    sc.add_state(BasicState('w'), 'p')
    sc.add_state(FinalState('f'), 'p')
    for m in kinds:
        sc.add_transition(Transition('w', None, event=m, guard='n + 1 < %d' % k, action='n = n + 1\nseen = time'))
        sc.add_transition(Transition('w', 'f', event=m, guard='n + 1 >= %d' % k, action='n = n + 1\nseen = time'))
    return sc


def meta_of(step, t, sent_has_delay=True):
    """the meta-event stream a macro step (or None) promises"""
    out = [{'ev': 'step started', 'data': [['time', t]]}]
    if step is not None:
        ev = oracles.step_event(step)
        if ev is not None:
            out.append({'ev': 'event consumed', 'data': [['event', ev]]})
        for m in step['steps']:
            for s in m['exited']:
                out.append({'ev': 'state exited', 'data': [['state', s]]})
            if m['transition'] is not None:
                out.append(('T', m['transition'], m['event']))
            for s in m['entered']:
                out.append({'ev': 'state entered', 'data': [['state', s]]})
            for e in m['sent']:
                if e['internal']:
                    out.append({'ev': 'event sent', 'data': [['event', e['event']]]})
                    if any(k == 'delay' for k, _ in e['event']['data']):
                        out.append({'ev': 'delayed event sent', 'data': [['event', e['event']]]})
                else:
                    out.append(e['event'])
    out.append({'ev': 'step ended', 'data': []})
    return out


class C10(InterpProp):
    id = 'C10'
    anomaly_tags = ('meta', 'macro', 'time', 'ctx')
    # observables compared with the model (see InterpProp.normalize)
    cmp_eff = ('meta',)
    cmp_step = ()
    cmp_slot = ('config', 'final')
    cmp_callbacks = False
    cmp_err = 'full'
    cmp_time = False
    quick_cases = 1000
    thorough_cases = 15000
    n_ops = 24
    rule = ('random monitored charts (sending, notifying) with two recording listeners attached and a generated '
            'property statechart that becomes final at the k-th meta-event of a random subset of kinds (k random up to '
            'beyond the length of the run), executed in lock-step with an unmonitored twin; oracle: the meta-event '
            'stream of every step equals the one computed from the returned MacroStep (names, order, attributes), each '
            'recorder received exactly that stream once in order, the property chart saw the monitored step time, '
            'PropertyStatechartError is raised exactly in the call delivering the k-th event with nothing logged after '
            'it, and before that the monitored run equals the unmonitored one; non-trivial = the property fired, or '
            '≥30 meta-events were delivered without firing')

    def knobs(self, rnd, tier):
        return gen.Knobs(sends=0.5, max_states=rnd.choice([5, 9, 13]), contracts=rnd.choice([0.0, 0.0, 0.5]), sent_conds=0.4)

    NAMES = ('prop', 'prop', 'every {request} is answered', 'no {} left', 'G(a -> F{0})')

    def gen_case(self, rnd, tier):
        kn = self.knobs(rnd, tier)
        g = gen.ChartGen(rnd, kn)
        sc = g.build()
        kinds = rnd.sample(KINDS, rnd.randint(1, 4))
        k = rnd.choice([1, 2, 3, 5, 8, 13, 21, 40, 80, 1000])
        prop = property_chart(kinds, k, rnd.choice(self.NAMES))
        e1, e2 = ChartEnc(sc), ChartEnc(prop)
        ops1 = gen.gen_ops(rnd, kn, self.n_ops)
        ign = rnd.random() < 0.25        # the monitored interpreter may well ignore contracts
        twice = rnd.random() < 0.15
        # (the same recording callable may be attached twice: it then hears of everything twice)
        # (sometimes all the interpreters of the client, the one of the property statechart included, are given the same
        #  configuration mapping as initial context)
        ctx0 = [['w', 0]] if rnd.random() < 0.15 else []
        # (... and one of the two attachments may be taken back at once: it is then attached once)
        once_more = twice and rnd.random() < 0.4
        ops = [['create', 0, ign, ctx0, 0], ['create', 0, ign, ctx0, 0],
               ['attach', 0, 0]] + ([['attach', 0, 0]] if twice else []) + ([['detach', 0, 0]] if once_more else []) + \
              [['bindprop', 0, 1], ['attach', 0, 1]]
        for op in ops1:
            ops.append(op)
            op2 = list(op)
            op2[1] = 1
            ops.append(op2)
        payload = {'kind': 'interp', 'charts': [e1.json, e2.json], 'ops': ops, 'prop': {'kinds': kinds, 'k': k}}
        if rnd.random() < 0.2:
            # the property statechart is bound as a ready-made interpreter, the form of sismic < 1.4
            payload['prop_instance'] = True
        self._shift = rnd.choice([0.2345678, 2 ** 53 + 1, 10 ** 15 + 7]) if rnd.random() < 0.1 else None
        case = Case(payload, {'charts': [sc, prop]}, model_ok=e1.supported and e2.supported)
        if self._shift is not None:
            # clock values with many decimals, or integer ticks beyond 2**53: the property statechart sees the very value
            gen.shift_times(case, self._shift)
        return case

    def shrink_candidates(self, case):
        p = case.payload
        ops = p['ops']
        n0 = ops.index(['attach', 0, 1]) + 1
        for i in range(len(ops) - 2, n0 - 1, -2):
            q = copy.deepcopy(p)
            del q['ops'][i:i + 2]
            yield q

    def oracle(self, case, obs, res):
        sc = case.aux['run_charts'][0]
        trans = list(sc.transitions)
        ops = case.payload['ops']
        kinds, kk = case.payload['prop']['kinds'], case.payload['prop']['k']
        count = 0          # meta-events of the listened kinds delivered so far
        total = 0
        fired = False
        rec = [[], []]
        clean = True
        twice = ops[3][0] == 'attach' and ops[4][0] != 'detach'
        n0 = ops.index(['attach', 0, 1]) + 1
        dup = (lambda ms: [m for m in ms for _ in (0, 1)]) if twice else (lambda ms: list(ms))
        for i in range(n0, len(ops) - 1, 2):
            a, b = obs['obs'][i], obs['obs'][i + 1]
            if ops[i][0] != 'exec' or fired or not clean:
                continue
            ra, rb = a['r'], b['r']
            t = ops[i][2]
            metas = oracles.meta_effects(ra['eff'])
            cb = a['world']['callbacks']
            if ra['outcome'] == 'error' and ra['err']['class'] != 'PropertyStatechartError':
                # another exception: unless it is raised exactly where the property statechart becomes final
                c2 = count
                for j, m in enumerate(metas):
                    if m['ev'] in kinds:
                        c2 += 1
                        if c2 == kk and j == len(metas) - 1 and ra['eff'] and ra['eff'][-1][0] == 'meta':
                            res.violations.append('op %d: the call delivering the %d-th listened meta-event raised %s, not '
                                                  'PropertyStatechartError' % (i, kk, ra['err']))
                clean = False
                continue
            # within one micro step the events are sent (and announced) in the order of the code that sends them
            if rb['outcome'] == 'step':
                for m in rb['step']['steps']:
                    want = oracles.sent_in_source_order(sc, trans, m)
                    got = [('send' if e['internal'] else 'notify', e['event']['ev']) for e in m['sent']]
                    if want is not None and got != want:
                        res.violations.append('op %d: events sent by one micro step come in the order %s, the code sends them '
                                              'in the order %s' % (i, got, want))
                        return
            # ... and each exit, action and entry is announced before the next piece of code runs
            late = oracles.announced_late(ra['eff'])
            if late:
                res.violations.append('op %d: meta-events do not come when the things happen: %s' % (i, late))
                return
            # position at which the property must fire
            pos = None
            c = count
            for j, m in enumerate(metas):
                if m['ev'] in kinds:
                    c += 1
                    if c == kk:
                        pos = j
                        break
            if ra['outcome'] == 'error':
                fired = True
                res.features.add('property-fired')
                res.nontrivial = True
                if pos is None or pos != len(metas) - 1:
                    res.violations.append('op %d: PropertyStatechartError raised after %d meta-events of this step, the k-th listened event is at %s'
                                          % (i, len(metas), pos))
                if ra['eff'] and ra['eff'][-1][0] != 'meta':
                    res.violations.append('op %d: monitored code ran after the property became final: %s' % (i, ra['eff'][-1]))
                # recorder 0 (attached before the property) saw the event, recorder 1 (after) did not
                rec[0] += dup(metas)
                rec[1] += metas[:-1]
                if cb[0] != rec[0] or cb[1] != rec[1]:
                    res.violations.append('op %d: listeners around the failing property did not receive what they should' % i)
                # the unmonitored twin agrees on everything before
                continue
            if pos is not None:
                res.violations.append('op %d: the property statechart should have become final at meta-event %d of this step' % (i, pos))
            count = c
            total += len(metas)
            exp = meta_of(ra.get('step'), t)
            for j, e in enumerate(exp):
                if isinstance(e, tuple):
                    tr = trans[e[1]]
                    exp[j] = {'ev': 'transition processed',
                              'data': [['source', tr.source], ['target', tr.target], ['event', e[2]]]}
            if metas != exp:
                res.violations.append('op %d: meta-events differ from what the MacroStep implies: %s' % (i, engine.diff(metas, exp)))
            rec[0] += dup(metas)
            rec[1] += metas
            if cb[0] != rec[0] or cb[1] != rec[1]:
                res.violations.append('op %d: a recording listener did not receive every meta-event exactly once (per attachment) in order' % i)
            # property clock
            pctx = dict(a['world']['slots'][2]['ctx'])
            if pctx.get('n', 0) > 0 and pctx.get('seen') != t and any(m['ev'] in kinds for m in metas):
                res.violations.append('op %d: the property statechart saw time %r, monitored step time is %r' % (i, pctx.get('seen'), t))
            if a['world']['slots'][2]['time'] != t and metas:
                res.violations.append('op %d: property interpreter time %r ≠ monitored step time %r' % (i, a['world']['slots'][2]['time'], t))
            # non-interference
            rb2 = dict(rb)
            d = engine.diff({k: v for k, v in ra.items()}, rb2)
            if d is None:
                d = engine.diff(a['world']['slots'][0], b['world']['slots'][1])
            if d:
                res.violations.append('op %d: monitored run differs from the unmonitored one: %s' % (i, d))
        if total >= 30 and not fired:
            res.nontrivial = True
            res.features.add('30+metas-no-fire')
        res.features.add('kinds%d' % len(kinds))
