"""C11 — YAML export/import round-trip is lossless."""
import copy
import json
import os

from sismic.exceptions import StatechartError
from sismic.io import export_to_yaml, import_from_yaml
from sismic.io.datadict import export_to_dict
from sismic.model import (BasicState, CompoundState, DeepHistoryState, FinalState, OrthogonalState,
                          ShallowHistoryState, Statechart, Transition)

from .. import gen, engine, impl
from ..decode import chart_from_json
from ..encode import ChartEnc
from ..framework import Case, Prop
from .c16 import snapshot
from ..encode import kind_of

HOSTILE = [': x', '# c', '- a', '? q', '?x', '| b', '> f', "it's", '"dq"', 'back\\slash', '{a: 1}', '[1, 2]', 'yes', 'no',
           'null', '~', '1e3', '0x1F', '007', '1.5', 'true', 'Null', ' lead', 'trail ', '  both  ', 'two\nlines',
           'tab\there', 'ünï', '日本語', '🙂 emoji', 'a: b: c', '%TAG', '@at', '`tick', '!bang', '&anchor', '*alias',
           'x' * 120, 'semi;colon', 'comma, sep', '', ' ', 'line\r\nwin', 'nbsp\u00a0x', 'ls\u2028x', '=', '<<', 'a\\nb',
           "'", '"', '\\', 'C:\\dir', '-', '--- doc', '... end', 'key: |',
           # plain scalars that YAML 1.1 reads as booleans / numbers and YAML 1.2 as strings
           'on', 'off', 'y', 'n', 'Yes', 'NO', 'On', '1:30', '0o17', '1_000', '.inf', '+1',
           # text that is not in Unicode normal form C (decomposed accents, compatibility signs): it stays as it is
           'arre\u0302te\u0301', 'mesure \u2126', '\u212b ngstr\u00f6m', 'K\u212a', 'a\u0308\u0323']
# (very long single-line texts, with runs of blanks far to the right: no line is ever folded)
LONG = ['x' * 4100 + '  y  ' + 'z' * 50, ('ab  ' * 1600) + 'c', 'w' * 9000 + '   end']
NEL = 'nel\x85x'


def hostile(rnd, allow_empty=False, no_outer_space=False):
    while True:
        s = rnd.choice(HOSTILE)
        if getattr(rnd, '_nel', False) and rnd.random() < 0.15:
            s = NEL
        if rnd.random() < 0.004:
            s = rnd.choice(LONG)
        if rnd.random() < 0.3:
            s = s + rnd.choice(HOSTILE)
        if rnd.random() < 0.1:
            s = ''.join(chr(rnd.choice([rnd.randint(0x20, 0x7e), rnd.randint(0xa0, 0x2fff), rnd.randint(0x1f300, 0x1f64f)]))
                        for _ in range(rnd.randint(1, 8)))
        if not s.strip() and not allow_empty:
            continue
        if no_outer_space and s != s.strip():
            s = s.strip() or 'x'
        return s


def norm_s(s, strip=True):
    """what the property allows to differ: code is compared modulo surrounding whitespace; an empty
    (whitespace-only) optional text and an absent one are the same"""
    if s is None:
        return None
    t = s.strip() if strip else s
    return t if t != '' else None


def view(sc, strip):
    """field-by-field view of a statechart, modulo declaration order"""
    sts = {}
    for n in sc.states:
        st = sc.state_for(n)
        sts[n] = {'kind': kind_of(st), 'parent': sc.parent_for(n), 'children': sorted(sc.children_for(n)),
                  'initial': getattr(st, 'initial', None), 'memory': getattr(st, 'memory', None),
                  'on_entry': norm_s(getattr(st, 'on_entry', None), strip), 'on_exit': norm_s(getattr(st, 'on_exit', None), strip),
                  'pre': [norm_s(c, strip) for c in st.preconditions], 'post': [norm_s(c, strip) for c in st.postconditions],
                  'inv': [norm_s(c, strip) for c in st.invariants]}
    ts = sorted(json.dumps([t.source, t.target, t.event, norm_s(t.guard, strip), norm_s(t.action, strip), t.priority,
                            [norm_s(c, strip) for c in t.preconditions], [norm_s(c, strip) for c in t.postconditions],
                            [norm_s(c, strip) for c in t.invariants]]) for t in sc.transitions)
    return {'name': sc.name, 'description': norm_s(sc.description, False), 'preamble': norm_s(sc.preamble, False),
            'root': sc.root, 'states': sts, 'transitions': ts}


def subclassed(sc):
    """every state becomes an instance of an application-defined subclass of its class (what a client who attaches
    data or behaviour of its own to states does); nothing else changes"""
    import sismic.model as M
    table = subclassed.__dict__.setdefault('table', {})
    for n in sc.states:
        st = sc.state_for(n)
        k = type(st)
        if k.__module__.startswith('sismic.'):
            if k not in table:
                table[k] = type('App' + k.__name__, (k,), {})
            st.__class__ = table[k]
    return sc


class C11(Prop):
    id = 'C11'
    quick_cases = 1500
    thorough_cases = 20000
    rule = ('valid statecharts built through the API with hostile strings in every string field (unicode incl. non-BMP, '
            'YAML-significant punctuation, leading/trailing blanks, multi-line, yes/no/null/~/1e3/0x1, empty) and random '
            'generated charts with executable code; real export_to_yaml / import_from_yaml; oracle: the re-import '
            'succeeds and agrees field by field (name, description, preamble, kinds, hierarchy, entry/exit code, '
            'initial, memory, contracts, transitions with all their fields, priorities; code modulo strip), every state '
            'and transition compares == to its original when its code has no surrounding whitespace, and (executable '
            'charts) original and re-import run in lock-step identically; the model is compared on the dict level '
            '(export_to_dict) and on the result of import∘export; non-trivial = a chart with ≥3 states and ≥2 '
            'transitions carrying hostile strings or code')
    trusted = ['YAML text ↔ data (ruamel.yaml dump/load) is not modelled, it is exercised by the real round trip']

    def gen_case(self, rnd, tier):
        executable = rnd.random() < 0.4
        if executable:
            kn = gen.Knobs(contracts=0.4, max_states=rnd.choice([5, 9, 14]), p_history=0.4)
            sc = gen.ChartGen(rnd, kn).build()
            sc.description = rnd.choice([None, 'a chart', 'multi\nline'])
            if rnd.random() < 0.06:
                # code written as an indented block (every line with the same indentation): whatever the evaluator
                # makes of it, it makes the same of the re-imported one
                ts = [t for t in sc.transitions if t.action and '\n' not in t.action]
                for t in rnd.sample(ts, min(len(ts), 2)):
                    t.action = '    %s\n    y = y + 1' % t.action
            ops = gen.gen_ops(rnd, kn, 20)
        else:
            rnd._nel = rnd.random() < 0.03      # the known third-party loss (K5) is visited, but rarely
            rnd._empty_event = rnd.random() < 0.03      # … and so is the event named '' (K6)
            sc = self.hostile_chart(rnd)
            ops = []
        history = None
        if executable and rnd.random() < 0.15:
            # a statechart with a past: used (every structural question asked, run), restructured through the
            # editing API — it is exported as it stands
            base = ChartEnc(sc).json
            gen.warm(sc)
            edits = gen.plan_edits(rnd, sc, True)
            if edits is None:
                sc = chart_from_json(base)
                gen.warm(sc)
                edits = []
            if rnd.random() < 0.5:
                # … its root state included
                e = ['rename', sc.root, rnd.choice(['top', 'a' + sc.root, sc.root + '_'])]
                if e[2] not in sc.states:
                    gen.apply_edits(sc, [e])
                    edits.append(e)
            if edits:
                history = {'base': base, 'edits': edits}
            else:
                sc = chart_from_json(base)
        enc = ChartEnc(sc)
        payload = {'kind': 'multi', 'chart0': enc.json, 'executable': executable, 'ops1': ops}
        if history:
            payload['history'] = history
        if rnd.random() < 0.08:
            payload['subclassed'] = True
            subclassed(sc)
        if rnd.random() < 0.3:
            # a document of another YAML version was imported earlier in the same process
            payload['preload11'] = True
        case = Case(payload, {'chart0': sc})
        self._finish(case)
        return case

    def hostile_chart(self, rnd):
        def code():
            return rnd.choice([None, None, hostile(rnd, allow_empty=True)])

        def name():
            return hostile(rnd)
        sc = Statechart(name(), description=rnd.choice([None, hostile(rnd, allow_empty=True)]),
                        preamble=rnd.choice([None, hostile(rnd, allow_empty=True)]))
        used = set()

        def fresh():
            for _ in range(50):
                n = name()
                if n not in used:
                    used.add(n)
                    return n
            n = 'n%d' % len(used)
            used.add(n)
            return n
        budget = [rnd.randint(2, 10)]

        def contracts(o):
            if rnd.random() < 0.4:
                for lst in (o.preconditions, o.postconditions, o.invariants):
                    for _ in range(rnd.randint(0, 2)):
                        lst.append(hostile(rnd))

        def mk(parent, depth):
            budget[0] -= 1
            n = fresh()
            kinds = ['basic', 'basic', 'final'] if (budget[0] <= 0 or depth > 3) else ['basic', 'compound', 'compound', 'orthogonal', 'final']
            if parent is None:
                kinds = ['compound', 'orthogonal', 'basic']
            k = rnd.choice(kinds)
            kw = dict(on_entry=code(), on_exit=code())
            st = {'basic': BasicState, 'final': FinalState, 'compound': CompoundState, 'orthogonal': OrthogonalState}[k](n, **kw)
            contracts(st)
            sc.add_state(st, parent)
            if k in ('compound', 'orthogonal') and parent is not None and rnd.random() < 0.12:
                return n        # a composite state without children (valid: nothing says it needs any)
            if k in ('compound', 'orthogonal'):
                ch = [mk(n, depth + 1) for _ in range(rnd.randint(1, 3))]
                if k == 'compound':
                    if rnd.random() < 0.8:
                        st.initial = rnd.choice(ch)
                    if rnd.random() < 0.4:
                        h = fresh()
                        hs = rnd.choice([ShallowHistoryState, DeepHistoryState])(h, memory=rnd.choice([None] + ch), **dict(on_entry=code(), on_exit=code()))
                        contracts(hs)
                        sc.add_state(hs, n)
            return n
        mk(None, 0)
        owners = [n for n in sc.states if isinstance(sc.state_for(n), (BasicState, CompoundState, OrthogonalState))]
        for _ in range(rnd.randint(0, 2 * len(owners))):
            t = Transition(rnd.choice(owners), rnd.choice([None] + sc.states),
                           event=('' if getattr(rnd, '_empty_event', False) and rnd.random() < 0.3 else
                                  rnd.choice([None, hostile(rnd, no_outer_space=rnd.random() < 0.9)])),
                           guard=code(), action=code(),
                           priority=rnd.choice([0, 0, 1, -1, 2, -7, 100]))
            contracts(t)
            sc.add_transition(t)
        sc.validate()
        return sc

    def rebuild(self, payload):
        if payload.get('history'):
            sc = chart_from_json(payload['history']['base'])
            gen.warm(sc)
            gen.apply_edits(sc, payload['history']['edits'], check=True)
        else:
            sc = chart_from_json(payload['chart0'])
        if payload.get('subclassed'):
            subclassed(sc)
        # chart_from_json keeps name/description/preamble
        payload['chart0'] = ChartEnc(sc).json
        c = Case(payload, {'chart0': sc})
        self._finish(c)
        return c.aux

    def _finish(self, case):
        p = case.payload
        sc = case.aux['chart0']
        enc = ChartEnc(sc)
        sub = [{'kind': 'io_export', 'chart': enc.json}, {'kind': 'io_roundtrip', 'chart': enc.json}]
        p['cases'] = sub
        case.model_ok = True

    def run_impl(self, case):
        sc = copy.deepcopy(case.aux['chart0'])
        out = {'multi': []}
        try:
            d = export_to_dict(sc)
        except Exception as e:      # noqa
            # a valid statechart cannot be exported: reported by the oracle (the round trip does not succeed)
            d = {'export raised': '%s: %s' % (type(e).__name__, str(e)[:160])}
        out['multi'].append({'data': json.loads(json.dumps(d))})
        if case.payload.get('preload11'):
            try:
                import_from_yaml('%YAML 1.1\n---\nstatechart:\n  name: earlier\n  root state:\n    name: r\n')
            except Exception:       # noqa
                pass
        try:
            text = export_to_yaml(sc)
            sc2 = import_from_yaml(text)
            out['multi'].append({'outcome': 'ok', 'chart': snapshot(sc2), 'name': sc2.name,
                                 'description': sc2.description, 'preamble': sc2.preamble})
            case.aux['sc2'] = sc2
        except StatechartError as e:
            out['multi'].append({'outcome': 'StatechartError'})
            case.aux['err'] = repr(e)[:200]
        except Exception as e:   # noqa
            out['multi'].append({'outcome': 'OTHER'})
            case.aux['err'] = '%s: %s' % (type(e).__name__, str(e)[:160])
        # behaviour: original and re-import in lock-step
        if case.payload['executable'] and 'sc2' in case.aux:
            ops = [['create', 0, False, [], 0], ['create', 1, False, [], 0]]
            for op in case.payload['ops1']:
                ops.append(op)
                op2 = list(op)
                op2[1] = 1
                ops.append(op2)
            try:
                o, _ = impl.run_case({'ops': ops}, [copy.deepcopy(sc), copy.deepcopy(case.aux['sc2'])])
                case.aux['lock'] = (ops, o)
            except Exception as e:      # preamble of hostile charts etc.
                case.aux['lock_err'] = repr(e)[:200]
        return out

    def normalize(self, obs):
        # the model sees the dict level; the YAML text layer may lose what the model cannot know
        # about (documented third-party losses are handled by the oracle / known findings)
        o = json.loads(json.dumps(obs))
        return o

    def oracle(self, case, obs, res):
        sc = case.aux['chart0']
        if getattr(sc, '_vp_edit_error', None):
            res.violations.append('while the statechart was edited through the API (a valid edit of a valid statechart): %s'
                                  % sc._vp_edit_error)
            return
        r = obs['multi'][1]
        if r['outcome'] != 'ok':
            res.violations.append('import_from_yaml(export_to_yaml(sc)) failed: %s %s' % (r['outcome'], case.aux.get('err')))
            return
        sc2 = case.aux['sc2']
        a, b = view(sc, True), view(sc2, True)
        d = engine.diff(a, b)
        if d:
            res.violations.append('re-imported statechart differs: %s' % d)
        # == for objects whose code has no surrounding whitespace (and no empty optional strings)
        def clean(o):
            vals = [getattr(o, 'on_entry', None), getattr(o, 'on_exit', None), getattr(o, 'guard', None),
                    getattr(o, 'action', None), getattr(o, 'event', None)] + list(o.preconditions) + list(o.postconditions) + list(o.invariants)
            return all(v is None or (v == v.strip() and v != '') for v in vals)
        if not d:
            for n in sc.states:
                o1, o2 = sc.state_for(n), sc2.state_for(n)
                if clean(o1) and not (o1 == o2):
                    res.violations.append('state %r does not compare == to its re-import' % n)
                    break
            t2 = list(sc2.transitions)
            for t in sc.transitions:
                if clean(t) and not any(t == u for u in t2):
                    res.violations.append('transition %r has no == counterpart after re-import' % (t,))
                    break
        if 'lock' in case.aux:
            ops, o = case.aux['lock']
            from .c07 import tkey
            tr = [list(sc.transitions), list(sc2.transitions)]

            def canon(slot, rr):
                rr = json.loads(json.dumps(rr))
                def tk(i):
                    # (code is compared modulo surrounding whitespace, which the importer strips)
                    return [x.strip() for x in map(str, tkey(tr[slot][i]))] if isinstance(i, int) and 0 <= i < len(tr[slot]) else i
                if isinstance(rr, dict):
                    if isinstance(rr.get('err'), dict) and (rr['err'].get('class') == 'CodeEvaluationError' or
                                                           str(rr['err'].get('class')).startswith('OTHER:')):
                        # (what Python says about code that does not compile names a line, which moves with the
                        #  leading whitespace the importer strips)
                        rr['err'].pop('msg', None)
                    if 'step' in rr:
                        for m in rr['step']['steps']:
                            m['transition'] = tk(m['transition'])
                    eff = []
                    for e in rr.get('eff', []):
                        if e[0] == 'guard':
                            continue
                        if e[0] == 'action':
                            e[1] = tk(e[1])
                        if e[0] == 'cond' and e[2][0] == 't':
                            e[2][1] = tk(e[2][1])
                        eff.append(e)
                    if 'eff' in rr:
                        rr['eff'] = eff
                    if 'err' in rr and 'obj' in rr['err'] and rr['err']['obj'][0] == 't':
                        rr['err']['obj'][1] = tk(rr['err']['obj'][1])
                return rr
            for k in range(2, len(ops) - 1, 2):
                x, y = o['obs'][k], o['obs'][k + 1]
                dd = engine.diff(canon(0, x['r']), canon(1, y['r']))
                if dd is None:
                    dd = engine.diff(y['world']['slots'][0], y['world']['slots'][1])
                if dd:
                    res.violations.append('op %d: the re-imported statechart behaves differently: %s' % (k, dd))
                    break
            res.features.add('behaviour-compared')
        res.features.add('executable' if case.payload['executable'] else 'hostile')
        if len(sc.states) >= 3 and len(sc.transitions) >= 2:
            res.nontrivial = True

    def known_signature(self, finding, case, res):
        sc = case.aux['chart0']
        strings = []
        for n in sc.states:
            st = sc.state_for(n)
            strings += [n, getattr(st, 'on_entry', None), getattr(st, 'on_exit', None)] + list(st.preconditions) + list(st.postconditions) + list(st.invariants)
        events = []
        for t in sc.transitions:
            strings += [t.guard, t.action] + list(t.preconditions) + list(t.postconditions) + list(t.invariants)
            events.append(t.event)
        strings += [sc.name, sc.description, sc.preamble]
        sig = finding.get('signature')
        if sig == 'nel':
            return any(s and '\x85' in s for s in strings + events)
        if sig == 'event-empty':
            return any(e == '' for e in events) and all('event' in v or 'transition' in v for v in res.violations)
        if sig == 'event-whitespace':
            return any(e is not None and (e != e.strip()) for e in events) and \
                all('event' in v or 'transition' in v for v in res.violations)
        return False

    def shrink_candidates(self, case):
        return []
