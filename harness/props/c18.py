"""C18 — a pickled or deep-copied interpreter continues exactly like the original."""
import copy

from .. import gen, oracles, engine
from ..encode import ChartEnc
from ..framework import Case
from ..interp_prop import InterpProp


class C18(InterpProp):
    id = 'C18'
    # a relational property: the relation (twin / copy) is checked on the implementation by the oracle and
    # proved for the model; a uniform change of behaviour is not this property's business
    cmp_eff = ()
    cmp_step = ()
    cmp_slot = ()
    cmp_callbacks = False
    cmp_err = None
    cmp_time = False
    cmp_outcome = False
    quick_cases = 1500
    thorough_cases = 15000
    n_ops = 24
    with_contracts = 0.7
    rule = ('random charts with __old__ contracts, history states and delayed sends; interpreter 0 is replaced by its '
            'pickled / deep-copied copy (or copied and the original kept, to see that copying does not disturb it) at '
            'randomly chosen macro-step boundaries — thorough: at every boundary — while interpreter 1 runs the same '
            'history untouched; oracle: both produce identical observations (macro steps, effect logs incl. contract '
            'verdicts, configurations, contexts, errors) at every later op; non-trivial = a run with ≥1 snapshot after '
            'which a contract using __old__ was evaluated, a history state restored from memory or a delayed event consumed')

    def knobs(self, rnd, tier):
        return gen.Knobs(contracts=self.with_contracts, p_history=0.6, sends=0.4, nested_targets=0.5,
                         max_states=rnd.choice([6, 10, 14]), history_focus=0.6, clock_moves=rnd.choice([0, 0.3]))

    BOX = ("\n(event.box.append(1) if getattr(event, 'box', None) is not None else None)"
           "\ny = y + (len(event.box) if getattr(event, 'box', None) is not None else 0)")

    def fork_case(self, rnd):
        """the original and its copy part ways: the copy (compared with an untouched twin) leaves a compound state that has
        a history state, the original leaves it later from another child, the copy comes back through the history
        state — what it finds there is what *it* left"""
        from sismic.model import (BasicState, CompoundState, DeepHistoryState, ShallowHistoryState, Statechart, Transition)
        n = rnd.randint(3, 5)
        sc = Statechart('fork', preamble='x = 0\ny = 0')
        sc.add_state(CompoundState('root', initial='P'), None)
        sc.add_state(CompoundState('P', initial='t0'), 'root')
        sc.add_state(rnd.choice([ShallowHistoryState, DeepHistoryState])('h', memory='t0'), 'P')
        for i in range(n):
            sc.add_state(BasicState('t%d' % i, on_entry='x += 1\ny = %d' % i), 'P')
        for i in range(n):
            sc.add_transition(Transition('t%d' % i, 't%d' % ((i + 1) % n), event='e'))
        sc.add_state(BasicState('O', on_entry='x += 10'), 'root')
        sc.add_transition(Transition('P', 'O', event='f'))
        sc.add_transition(Transition('O', 'h', event='g'))
        ops = [['create', 0, False, [], 0], ['create', 0, False, [], 0]]
        groups = []
        t = [0]

        def both(subjects, ev):
            for kind in ('queue', 'exec'):
                g = []
                for sl in subjects + [1]:
                    ops.append(['queue', sl, {'ev': ev, 'data': []}] if kind == 'queue' else ['exec', sl, t[0]])
                    g.append(len(ops) - 1)
                groups.append(g)
        g = []
        for sl in (0, 1):
            ops.append(['exec', sl, 0])
            g.append(len(ops) - 1)
        groups.append(g)
        for _ in range(rnd.randint(0, n - 1)):
            both([0], 'e')
        ops.append(['snapshot', 0, rnd.choice(['deepcopy-both', 'deepcopy-both', 'pickle-both'])])
        ops.append(['snapshot', 1, 'none'])
        groups.append([len(ops) - 2, len(ops) - 1])
        for _ in range(rnd.randint(1, n - 1)):
            both([2], 'e')            # the copy moves on inside P ...
        both([2], 'f')                # ... and leaves it
        for ev in rnd.choice([['f'], ['e', 'f'], ['f', 'g', 'e', 'f']]):
            ops.append(['queue', 0, {'ev': ev, 'data': []}])     # the original leaves it from where it was
            ops.append(['exec', 0, t[0]])
        both([2], 'g')                # the copy comes back through the history state
        for ev in [rnd.choice('efg') for _ in range(rnd.randint(0, 3))]:
            both([2], ev)
        enc = ChartEnc(sc)
        payload = {'kind': 'interp', 'charts': [enc.json], 'ops': ops, 'groups': groups, 'via_yaml': False}
        return Case(payload, {'charts': [sc]}, model_ok=False)

    def pair_case(self, rnd, tier):
        """an interpreter bound to another one (`bind`): the snapshot continues like the original, and what it sends
        no longer reaches the interpreter the original was bound to (taking a snapshot disturbs nothing)"""
        from .c05 import sink_chart
        kn = gen.Knobs(sends=0.6, max_states=rnd.choice([5, 8, 11]), p_history=0.0, contracts=0.0)
        sc = gen.ChartGen(rnd, kn).build()
        sink = sink_chart()
        ops1 = gen.gen_ops(rnd, kn, 24)
        ops = [['create', 0, False, [], 0], ['create', 1, False, [], 0], ['bind', 0, 1],
               ['create', 0, False, [], 0], ['create', 1, False, [], 0], ['bind', 2, 3]]
        execs = [i for i, op in enumerate(ops1) if op[0] == 'exec']
        at = rnd.choice(execs[1:] or execs) if execs else None
        for i, op in enumerate(ops1):
            if i == at:
                ops.append(['snapshot', 0, rnd.choice(['deepcopy', 'deepcopy', 'pickle'])])
            for sl in (0, 2):
                op2 = list(op)
                op2[1] = sl
                ops.append(op2)
        tend = max([op[2] for op in ops1 if op[0] == 'exec'] + [0]) + 5
        ops += [['execute', 1, tend, 250], ['execute', 3, tend, 250]]
        payload = {'kind': 'interp', 'charts': [ChartEnc(sc).json, ChartEnc(sink).json], 'ops': ops, 'pair': True,
                   'no_model': True}
        return Case(payload, {'charts': [sc, sink]}, model_ok=False)

    def pair_oracle(self, case, obs, res):
        ops = case.payload['ops']
        snap = next((k for k, op in enumerate(ops) if op[0] == 'snapshot'), None)
        sent = {0: [0, 0], 2: [0, 0]}        # internal events sent before / after the snapshot, per sender
        for k, (op, ob) in enumerate(zip(ops, obs['obs'])):
            r = ob['r']
            if op[0] == 'snapshot' and isinstance(r, dict) and r.get('error'):
                res.violations.append('op %d: the snapshot (%s) of an interpreter bound to another one could not be taken: %s'
                                      % (k, op[2], r['error']))
                return
            if op[0] != 'exec' or not isinstance(r, dict):
                continue
            if r.get('outcome') == 'error':
                return      # (a run that ended with an exception of the statechart's code is not looked at further)
            if r.get('outcome') == 'step':
                n = len([e for m in r['step']['steps'] for e in m['sent'] if e['internal']])
                sent[op[1]][0 if (snap is None or k < snap) else 1] += n
            if op[1] == 2 and snap is not None and k > snap:
                a = obs['obs'][k - 1]['r']
                d = engine.diff(a, r)
                if d:
                    res.violations.append('op %d exec: the copied interpreter differs from the untouched one: %s' % (k, d))
                    return
        got = {}
        for slot, ob in ((1, obs['obs'][-2]), (3, obs['obs'][-1])):
            r = ob['r']
            if not isinstance(r, dict) or r.get('err') or len(r.get('steps', [])) >= 250:
                return
            got[slot] = len([m for st in r['steps'] for m in st['steps'] if m['event'] is not None])
        if snap is not None and got[1] != sent[0][0]:
            res.violations.append('the interpreter the original was bound to consumed %d events; the original had sent %d before the '
                                  'snapshot was taken (and %d were sent by the copy afterwards): what the copy sends is the copy\'s business'
                                  % (got[1], sent[0][0], sent[0][1]))
        if got[3] != sum(sent[2]):
            res.violations.append('the interpreter bound to the untouched twin consumed %d events, the twin sent %d' % (got[3], sum(sent[2])))
        res.features.add('bound-pair')
        if snap is not None and sent[0][1]:
            res.nontrivial = True

    def gen_case(self, rnd, tier):
        if rnd.random() < 0.08:
            return self.pair_case(rnd, tier)
        if rnd.random() < 0.03:
            return self.fork_case(rnd)
        kn = self.knobs(rnd, tier)
        g = gen.ChartGen(rnd, kn)
        sc = g.build()
        ops1 = gen.gen_ops(rnd, kn, self.n_ops)
        box = rnd.random() < 0.25
        if box:
            # events carrying a mutable parameter that action code changes in place; delayed, so that they are
            # still pending when the snapshot is taken (outside the modelled Python subset: implementation only)
            for t in sc.transitions:
                if t.event is not None and rnd.random() < 0.6:
                    t.action = (t.action or 'pass') + self.BOX
            for op in ops1:
                if op[0] == 'queue' and rnd.random() < 0.7:
                    op[2]['data'] = [kv for kv in op[2]['data'] if kv[0] != 'delay'] + \
                        [['box', {'list': [0]}], ['delay', rnd.randint(1, 3)]]
        mut = rnd.random() < 0.15
        if mut:
            # context values that are mutable, some nested, changed in place and compared with __old__
            gen.add_mutables(rnd, sc, cell=False)
        history = None
        if not box and not mut and rnd.random() < 0.15:
            # a statechart with a past (used, restructured through the editing API): the snapshot is a snapshot of
            # what it is now, whatever the original object remembers of what it was
            from ..decode import chart_from_json
            base = ChartEnc(sc).json
            gen.warm(sc)
            edits = gen.plan_edits(rnd, sc, kn.wf)
            if edits is None:
                sc = chart_from_json(base)
            else:
                history = {'base': base, 'edits': edits}
        enc = ChartEnc(sc)
        ops = [['create', 0, False, [], 0], ['create', 0, False, [], 0]]
        watch = rnd.random() < 0.2
        if watch:
            # a bound property statechart whose verdict depends on time (it fails when a state stays active too
            # long): it is part of the interpreter and is copied with it (implementation only)
            st = rnd.choice([n for n in sc.states if n != sc.root] or [sc.root])
            d = rnd.randint(1, 3)
            ops += [['bindwatch', 0, st, d], ['bindwatch', 1, st, d]]
        groups = []
        subjects = [0]          # slots holding the interpreter under test and the copies that go on beside it
        side_by_side = box or mut or rnd.random() < 0.2
        copy_first = rnd.random() < 0.5
        fork = side_by_side and rnd.random() < 0.4
        forked, tf, tlast = None, 0, 0
        p_snap = 1.0 if tier == 'thorough' and rnd.random() < 0.3 else rnd.choice([0.1, 0.25, 0.5])
        for op in ops1:
            if (op[0] == 'exec' and rnd.random() < p_snap) or (op[0] == 'queue' and rnd.random() < p_snap * 0.3):
                how = rnd.choice(['pickle', 'deepcopy', 'pickle-keep', 'deepcopy-keep', 'deepcopy-both', 'pickle-both'])
                if how.endswith('-both') and (len(subjects) >= 3 or not side_by_side):
                    how = how.replace('-both', '')
                ops.append(['snapshot', subjects[-1], how])
                ops.append(['snapshot', 1, 'none'])
                groups.append([len(ops) - 2, len(ops) - 1])
                if how.endswith('-both'):
                    # the copy gets the next slot; it runs before the original, or after it
                    if fork and forked is None and len(subjects) == 1:
                        # ... or the original goes its own way from here on (other events, nobody looks at it): the copy
                        # shares nothing with it
                        forked = subjects[0]
                        subjects = [2]
                    elif copy_first:
                        subjects.insert(0, 1 + len(subjects) + (forked is not None))
                    else:
                        subjects.append(1 + len(subjects) + (forked is not None))
            if op[0] in ('exec', 'setclock') and isinstance(op[2], (int, float)):
                tlast = max(tlast, op[2])
            if forked is not None and rnd.random() < 0.6:
                tf = max(tf + rnd.choice([0, 1]), tlast)
                ops.append(['queue', forked, {'ev': rnd.choice(gen.EVENTS), 'data': [['v', rnd.randint(0, 4)], ['b', True]]}])
                ops.append(['exec', forked, tf])
            grp = []
            for sl in subjects + [1]:
                op2 = list(op)
                op2[1] = sl
                ops.append(op2)
                grp.append(len(ops) - 1)
            groups.append(grp)
        payload = {'kind': 'interp', 'charts': [enc.json], 'ops': ops, 'groups': groups}
        if history:
            payload['history'] = history
        if rnd.random() < 0.15:
            # the interpreters' clocks are playing while the snapshot is taken (scripted real time)
            payload['running_clock'] = True
        return Case(payload, {'charts': [sc]}, model_ok=enc.supported and len(subjects) == 1 and forked is None and not box and not watch and not mut)

    def shrink_candidates(self, case):
        if case.payload.get('pair'):
            return
        p = case.payload
        groups = p.get('groups')
        if not groups:
            return
        # drop one group of ops (never a snapshot that created a slot: later slot numbers depend on it)
        for gi in range(len(groups) - 1, -1, -1):
            g = groups[gi]
            if p['ops'][g[0]][0] == 'snapshot' and p['ops'][g[0]][2].endswith('-both'):
                continue
            q = copy.deepcopy(p)
            drop = set(g)
            keep = [i for i in range(len(q['ops'])) if i not in drop]
            remap = {old: new for new, old in enumerate(keep)}
            q['ops'] = [q['ops'][i] for i in keep]
            q['groups'] = [[remap[i] for i in gg] for j, gg in enumerate(groups) if j != gi]
            yield q

    def oracle(self, case, obs, res):
        if case.payload.get('pair'):
            return self.pair_oracle(case, obs, res)
        ops = case.payload['ops']
        groups = case.payload.get('groups') or [[k, k + 1] for k in range(2, len(ops) - 1, 2)]
        snapped = False
        for g in groups:
            k = g[0]
            ref = obs['obs'][g[-1]]
            a = obs['obs'][k]
            if ops[k][0] == 'snapshot':
                snapped = True
                res.features.add('snap:' + ops[k][2])
                continue
            bad = None
            for j in g[:-1]:
                d = engine.diff(obs['obs'][j]['r'], ref['r'])
                if d is None:
                    d = engine.diff(ref['world']['slots'][ops[j][1]], ref['world']['slots'][1])
                if d:
                    bad = (j, d)
                    break
            if bad:
                res.violations.append('op %d %s (interpreter %d): the %s interpreter differs from the untouched one: %s'
                                      % (bad[0], ops[k][0], ops[bad[0]][1], 'copied' if snapped else 'not yet copied', bad[1]))
                break
            if len(g) > 2:
                res.features.add('original-and-copy-side-by-side')
            r = a['r']
            if snapped and isinstance(r, dict) and 'eff' in r:
                sc = case.aux['run_charts'][0]
                for e in r['eff']:
                    if e[0] == 'cond' and e[1] != 'pre':
                        obj = list(sc.transitions)[e[2][1]] if e[2][0] == 't' else sc.state_for(e[2][1])
                        lst = {'post': obj.postconditions, 'inv': obj.invariants}[e[1]]
                        if '__old__' in lst[e[3]]:
                            res.features.add('old-after-snapshot')
                            res.nontrivial = True
                if r.get('outcome') == 'error' and r['err']['class'] == 'PropertyStatechartError':
                    res.features.add('time-property-failed-after-snapshot')
                    res.nontrivial = True
                if r.get('outcome') == 'step':
                    for m in r['step']['steps']:
                        if m['transition'] is None and any(oracles.is_hist(sc.state_for(s)) for s in m['exited']):
                            res.features.add('history-after-snapshot')
                            res.nontrivial = True
                        if m['event'] and any(kk == 'delay' for kk, _ in m['event']['data']):
                            res.features.add('delayed-after-snapshot')
                            res.nontrivial = True
        if not res.features:
            res.features.add('no-snapshot')
