"""C18 — a pickled or deep-copied interpreter continues exactly like the original."""
import copy

from .. import gen, oracles, engine
from ..encode import ChartEnc
from ..framework import Case
from ..interp_prop import InterpProp


class C18(InterpProp):
    id = 'C18'
    # a relational property: the relation (twin / copy) is checked on the implementation by the oracle and
    # proved for the model; a uniform change of behaviour is not this property's business
    cmp_eff = ()
    cmp_step = ()
    cmp_slot = ()
    cmp_callbacks = False
    cmp_err = None
    cmp_time = False
    cmp_outcome = False
    quick_cases = 500
    thorough_cases = 15000
    n_ops = 24
    with_contracts = 0.7
    rule = ('random charts with __old__ contracts, history states and delayed sends; interpreter 0 is replaced by its '
            'pickled / deep-copied copy (or copied and the original kept, to see that copying does not disturb it) at '
            'randomly chosen macro-step boundaries — thorough: at every boundary — while interpreter 1 runs the same '
            'history untouched; oracle: both produce identical observations (macro steps, effect logs incl. contract '
            'verdicts, configurations, contexts, errors) at every later op; non-trivial = a run with ≥1 snapshot after '
            'which a contract using __old__ was evaluated, a history state restored from memory or a delayed event consumed')

    def knobs(self, rnd, tier):
        return gen.Knobs(contracts=self.with_contracts, p_history=0.6, sends=0.4, nested_targets=0.5,
                         max_states=rnd.choice([6, 10, 14]), history_focus=0.6)

    def gen_case(self, rnd, tier):
        kn = self.knobs(rnd, tier)
        g = gen.ChartGen(rnd, kn)
        sc = g.build()
        enc = ChartEnc(sc)
        ops1 = gen.gen_ops(rnd, kn, self.n_ops)
        ops = [['create', 0, False, [], 0], ['create', 0, False, [], 0]]
        p_snap = 1.0 if tier == 'thorough' and rnd.random() < 0.3 else rnd.choice([0.1, 0.25, 0.5])
        for op in ops1:
            if op[0] == 'exec' and rnd.random() < p_snap:
                ops.append(['snapshot', 0, rnd.choice(['pickle', 'deepcopy', 'pickle-keep', 'deepcopy-keep'])])
                ops.append(['snapshot', 1, 'none'])
            ops.append(op)
            op2 = list(op)
            op2[1] = 1
            ops.append(op2)
        payload = {'kind': 'interp', 'charts': [enc.json], 'ops': ops}
        return Case(payload, {'charts': [sc]}, model_ok=enc.supported)

    def shrink_candidates(self, case):
        p = case.payload
        ops = p['ops']
        for i in range(len(ops) - 2, 1, -2):
            q = copy.deepcopy(p)
            del q['ops'][i:i + 2]
            yield q

    def oracle(self, case, obs, res):
        ops = case.payload['ops']
        snapped = False
        for k in range(2, len(ops) - 1, 2):
            a, b = obs['obs'][k], obs['obs'][k + 1]
            if ops[k][0] == 'snapshot':
                snapped = True
                res.features.add('snap:' + ops[k][2])
            d = engine.diff(a['r'], b['r'])
            if d is None:
                d = engine.diff(b['world']['slots'][0], b['world']['slots'][1])
            if d:
                res.violations.append('op %d %s: the %s interpreter differs from the untouched one: %s'
                                      % (k, ops[k][0], 'copied' if snapped else 'not yet copied', d))
                break
            r = a['r']
            if snapped and isinstance(r, dict) and 'eff' in r:
                sc = case.aux['run_charts'][0]
                for e in r['eff']:
                    if e[0] == 'cond' and e[1] != 'pre':
                        obj = list(sc.transitions)[e[2][1]] if e[2][0] == 't' else sc.state_for(e[2][1])
                        lst = {'post': obj.postconditions, 'inv': obj.invariants}[e[1]]
                        if '__old__' in lst[e[3]]:
                            res.features.add('old-after-snapshot')
                            res.nontrivial = True
                if r.get('outcome') == 'step':
                    for m in r['step']['steps']:
                        if m['transition'] is None and any(oracles.is_hist(sc.state_for(s)) for s in m['exited']):
                            res.features.add('history-after-snapshot')
                            res.nontrivial = True
                        if m['event'] and any(kk == 'delay' for kk, _ in m['event']['data']):
                            res.features.add('delayed-after-snapshot')
                            res.nontrivial = True
        if not res.features:
            res.features.add('no-snapshot')
