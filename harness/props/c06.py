"""C06 — history states restore exactly what was active."""
from .. import gen, oracles
from ..interp_prop import InterpProp


class C06(InterpProp):
    id = 'C06'
    decoy = 0.12
    edited = 0.25
    # observables compared with the model (see InterpProp.normalize)
    cmp_eff = ()
    cmp_step = ('transition', 'entered', 'exited')
    cmp_slot = ('config',)
    cmp_callbacks = False
    cmp_err = 'class'
    cmp_time = False
    quick_cases = 2500
    thorough_cases = 30000
    n_ops = 50
    rule = ('random well-formed charts rich in shallow and deep history states at several depths (inside orthogonal '
            'regions, nested, initial: pointing at a history) with many transitions into them × histories that exit and '
            're-enter their parents; oracle: the restore micro step (exited = [H]) enters exactly the children (shallow) '
            '/ descendants (deep) of parent(H) that were active when the parent was last exited, sorted by (depth, name), '
            'or the declared default if it never was; non-trivial = a run with a restore from memory (not the default)')

    def knobs(self, rnd, tier):
        return gen.Knobs(p_history=0.8, nested_targets=0.6, p_orth=0.4, max_states=rnd.choice([10, 16, 22]),
                         trans_per_owner=1.5, p_guard=0.2, p_eventless=0.1, max_depth=5, history_focus=0.9)

    def check_exec(self, info, res):
        r, gh, sc = info['r'], info['ghost'], info['sc']
        if gh.clean and gh.initialized and not gh.final and r['outcome'] == 'error' and \
                r['err']['class'] in ('NonDeterminismError', 'ConflictingTransitionsError'):
            # entering a history state is entering its parent's region: a transition that targets one does not
            # conflict with what fires in a sibling region, and restoring is not refused
            trans = info['trans']
            gt = oracles.guard_table(r.get('eff', []))
            pending = gh.next(info['clock'])
            pend_name = pending['ev']['ev'] if pending else None
            exps = [sorted(oracles.fires_spec(sc, trans, set(info['cfg0']), pend_name,
                                              lambda i, x, d=d: gt.get((i, x), d) is True if (i, x) in gt else d))
                    for d in (False, True)]
            if exps[0] == exps[1] and oracles.classify(sc, [trans[i] for i in exps[0]]) == 'ok' and \
                    any(trans[i].target is not None and oracles.is_hist(sc.state_for(trans[i].target)) for i in exps[0]):
                res.violations.append('step %d: %s raised instead of restoring: the documented selection %s (one of them enters a '
                                      'history state) can fire together' % (info['k'], r['err']['class'], exps[0]))
        if not gh.clean or r['outcome'] != 'step':
            return
        k = info['k']
        snap = set(info['cfg0'])
        last_exit = dict(gh.last_exit)
        restored_any = False
        for m in r['step']['steps']:
            cur = set(snap)
            hist = [s for s in m['exited'] if oracles.is_hist(sc.state_for(s))]
            if hist and m['transition'] is None:
                h = hist[0]
                st = sc.state_for(h)
                p = sc.parent_for(h)
                if m['exited'] != [h]:
                    res.violations.append('step %d: restore step exits %s' % (k, m['exited']))
                if p in last_exit:
                    mem = last_exit[p][0] if isinstance(st, oracles.ShallowHistoryState) else last_exit[p][1]
                    res.features.add('restore-shallow' if isinstance(st, oracles.ShallowHistoryState) else 'restore-deep')
                    res.nontrivial = True
                    if len(mem) > 1:
                        res.features.add('restore-multi')
                else:
                    mem = {st.memory}
                    res.features.add('restore-default')
                exp = sorted(mem, key=lambda x: (oracles.tree(sc).depth_for(x), x))
                if m['entered'] != exp:
                    res.violations.append('step %d: history %s restored %s, expected %s' % (k, h, m['entered'], exp))
            for s in m['exited']:
                if isinstance(sc.state_for(s), oracles.CompoundState):
                    last_exit[s] = (cur & set(sc.children_for(s)), cur & set(oracles.tree(sc).descendants_for(s)))
                snap.discard(s)
            for s in m['entered']:
                snap.add(s)
            if hist and m['transition'] is None:
                restored_any = True
        if restored_any and not res.violations:
            # "nested default entry continues below a restored state": when the macro step is over, nothing is left
            # to be entered by default
            lg = oracles.legal(sc, snap)
            if lg is not True:
                res.violations.append('step %d: after the restoration of a history state the macro step ends in an '
                                      'unfinished configuration: %s' % (k, lg))
