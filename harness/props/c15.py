"""C15 — bound statecharts: sent events reach every bound target once, in order."""
import copy
import json

from .. import gen, oracles, engine
from ..encode import ChartEnc
from ..framework import Case
from ..interp_prop import InterpProp


class C15(InterpProp):
    id = 'C15'
    anomaly_tags = ('macro', 'meta')
    # observables compared with the model (see InterpProp.normalize)
    cmp_eff = ('meta',)
    cmp_meta = ('event sent', 'delayed event sent')
    cmp_step = ('event', 'sent')
    cmp_slot = ()
    cmp_callbacks = True
    cmp_err = 'class'
    cmp_time = False
    quick_cases = 1500
    thorough_cases = 15000
    n_ops = 40
    rule = ('worlds of 2–4 interpreters over random sending/notifying charts with a random binding topology (chains, '
            'cycles, self-binding, recording callables), binds and detaches at random points, sends with parameters and '
            'delays; oracle: after every execute_once of interpreter i each callable bound to i has received exactly '
            'the internal events listed in the returned MacroStep (name and parameters, delay included), in order, '
            'each once, nothing else (no meta-events, no consumed events), nothing after detach; what bound '
            'interpreters later consume is compared with the model; non-trivial = a run in which a bound target '
            'received ≥2 events')

    def knobs(self, rnd, tier):
        return gen.Knobs(sends=0.7, max_states=rnd.choice([4, 7, 10]), p_guard=0.3)

    def gen_case(self, rnd, tier):
        kn = self.knobs(rnd, tier)
        n = rnd.randint(2, 4)
        charts, encs = [], []
        spoof = rnd.random() < 0.04
        if not spoof and rnd.random() < 0.1:
            n = 1
            # (no history states here: see C05.knobs)
            kn.p_history = 0.0
        for _ in range(n):
            sc = gen.ChartGen(rnd, kn).build()
            if spoof:
                # K1: a user meta-event that calls itself 'event sent' (known finding, see known_findings.json)
                evented = [t for t in sc.transitions if t.event]
                if evented:
                    t = rnd.choice(evented)
                    t.action = ((t.action + '\n') if t.action else '') + "notify('event sent', event=event)"
            if rnd.random() < 0.3:
                # parameters that compare equal and are not the same (1 and True, 0 and False): what is delivered is what
                # was sent
                for o in [sc.state_for(s) for s in sc.states] + list(sc.transitions):
                    for attr in ('on_entry', 'on_exit', 'action'):
                        code = getattr(o, attr, None)
                        if code and 'send(' in code and rnd.random() < 0.5:
                            setattr(o, attr, code.replace('b=True', 'b=1').replace('b=False', 'b=0').replace('v=x,', 'v=(x > 0),'))
                # ... and, in one piece of code, two events that compare equal and are not the same
                ts = [t for t in sc.transitions if t.event is not None]
                if ts:
                    t = rnd.choice(ts)
                    nm = rnd.choice(gen.EVENTS)
                    a, b = rnd.choice([('v=1, b=True', 'v=True, b=1'), ('v=0, b=False', 'v=False, b=0'), ('v=1, b=0', 'v=True, b=False')])
                    t.action = ((t.action + '\n') if t.action else '') + "send('%s', %s)\nsend('%s', %s)" % (nm, a, nm, b)
            charts.append(sc)
            encs.append(ChartEnc(sc))
        ops = [['create', i, False, [], 0] for i in range(n)]
        listeners = []       # (id, owner, kind, target)
        ncb = 0
        t = 0

        def add_binding():
            nonlocal ncb
            i = rnd.randrange(n)
            if rnd.random() < 0.45 or n == 1:
                # (a single interpreter is not bound to itself: what it consumes is then what was queued for it
                #  plus what it sent, see `accounting`)
                if ncb and rnd.random() < 0.35:
                    # a callable that is bound already (to this or to another interpreter): one more binding of it
                    again = rnd.randrange(ncb)
                    ops.append(['bindcb', i, again])
                    listeners.append([len(listeners), i, 'cb', again, True])
                    return
                ops.append(['bindcb', i, ncb])
                listeners.append([len(listeners), i, 'cb', ncb, True])
                ncb += 1
            else:
                j = rnd.randrange(n)
                ops.append(['bind', i, j])
                listeners.append([len(listeners), i, 'bind', j, True])
        detacher = rnd.random() < 0.1
        if detacher:
            # a bound callable that detaches the listener bound right after it, from inside its first
            # notification (the model has no such listener: implementation only)
            i = rnd.randrange(n)
            ops.append(['binddet', i, ncb, len(listeners) + 1])
            listeners.append([len(listeners), i, 'cb', ncb, True])
            ncb += 1
            if rnd.random() < 0.6 or n == 1:
                ops.append(['bindcb', i, ncb])
                listeners.append([len(listeners), i, 'cb', ncb, False])
                ncb += 1
            else:
                j = rnd.randrange(n)
                ops.append(['bind', i, j])
                listeners.append([len(listeners), i, 'bind', j, False])
        raiser = n == 1
        if raiser:
            # a single interpreter whose second bound callable raises once (implementation only): whatever was
            # announced as sent before that is queued for the sender all the same, and consumed in the end
            ops.append(['bindcb', 0, ncb])
            listeners.append([len(listeners), 0, 'cb', ncb, True])
            ncb += 1
            ops.append(['bindraise', 0, ncb, rnd.randint(1, 3)])
            listeners.append([len(listeners), 0, 'cb', ncb, True])
            ncb += 1
        mutator = rnd.random() < 0.1
        if mutator:
            # a bound callable that writes into the parameters of the event it was given (implementation only)
            i = rnd.randrange(n)
            ops.append(['bindmut', i, ncb])
            listeners.append([len(listeners), i, 'cb', ncb, True])
            ncb += 1
        for _ in range(rnd.randint(1, 4)):
            add_binding()
        for _ in range(self.n_ops):
            c = rnd.random()
            i = rnd.randrange(n)
            if c < 0.3:
                data = [['v', rnd.randint(0, 4)], ['b', rnd.random() < 0.5]]
                ops.append(['queue', i, {'ev': rnd.choice(gen.EVENTS), 'data': data}])
            elif c < 0.36:
                add_binding()
            elif c < 0.42:
                live = [l for l in listeners if l[4]]
                if live:
                    l = rnd.choice(live)
                    l[4] = False
                    ops.append(['detach', l[1], l[0]])
            else:
                if rnd.random() < 0.3:
                    t += rnd.choice([1, 2])
                ops.append(['exec', i, t])
        if raiser:
            ops.append(['execute', 0, 10 ** 6, 60])
        real = not raiser and rnd.random() < 0.1
        if real:
            # the history ends with `execute(max_steps=…)` itself: what the steps it returns list as sent is what was delivered
            for _ in range(rnd.randint(2, 6)):
                ops.append(['queue', 0, {'ev': rnd.choice(gen.EVENTS), 'data': [['v', rnd.randint(0, 4)], ['b', rnd.random() < 0.5]]}])
            ops.append(['execute_real', 0, t, rnd.choice([1, 2, 3, 5])])
        payload = {'kind': 'interp', 'charts': [e.json for e in encs], 'ops': ops, 'record_deliveries': True}
        if raiser:
            payload['raiser'] = True
        if rnd.random() < 0.25:
            # the callables are bound methods of objects nothing else refers to, or callable objects with attributes
            # of their own
            payload['method_targets'] = True
        return Case(payload, {'charts': charts}, model_ok=all(e.supported for e in encs) and not detacher and not mutator and not raiser and not real)

    def shrink_candidates(self, case):
        p = case.payload
        ops = p['ops']
        n = len(p['charts'])
        for i in range(len(ops) - 1, n - 1, -1):
            if ops[i][0] in ('bind', 'bindcb', 'detach', 'binddet', 'bindmut', 'bindraise', 'execute'):
                continue
            q = copy.deepcopy(p)
            del q['ops'][i]
            yield q

    def oracle(self, case, obs, res):
        ops = case.payload['ops']
        bound = {}        # listener id -> (owner, kind, target, live)
        nl = 0
        recv = {}         # callback k -> expected list
        broken = set()    # interpreters that raised (their queues are no longer predictable)
        detaches = {}     # listener id of a detaching callable -> listener it detaches on its first event
        for k, (op, ob) in enumerate(zip(ops, obs['obs'])):
            if op[0] in ('bind', 'bindcb', 'binddet', 'bindmut', 'bindraise'):
                bound[nl] = [op[1], 'bind' if op[0] == 'bind' else 'cb', op[2], True]
                if op[0] != 'bind':
                    recv.setdefault(op[2], [])
                if op[0] == 'binddet':
                    detaches[nl] = op[3]
                nl += 1
            elif op[0] == 'detach':
                bound[op[2]][3] = False
            elif op[0] == 'execute_real':
                r = ob['r']
                if isinstance(r, dict) and not r.get('err'):
                    sent = [e['event'] for st in r['steps'] for m in st['steps'] for e in m['sent'] if e['internal']]
                    announced = [m['data'][0][1] for m in oracles.meta_effects(r['eff']) if m['ev'] == 'event sent']
                    if announced != sent:
                        res.violations.append('op %d: execute(max_steps=%d) returned %d steps listing %s as sent; delivered to the '
                                              'listeners: %s' % (k, op[3], len(r['steps']), sent[:6], announced[:6]))
                    res.features.add('execute()')
            elif op[0] == 'exec':
                r = ob['r']
                i = op[1]
                if r['outcome'] == 'step':
                    # nobody writes into what the statechart sent: the parameters are those the code gave
                    for m in r['step']['steps']:
                        for e in m['sent']:
                            if e['internal'] and any(kv[0] == 'hops' for kv in e['event']['data']):
                                res.violations.append('op %d: the MacroStep lists %s as sent: a bound callable wrote into the '
                                                      'parameters of the copy it was given, the statechart never sent that' % (k, e['event']))
                    ev = oracles.step_event(r['step'])
                    if ev is not None and any(kv[0] == 'hops' for kv in ev['data']):
                        res.violations.append('op %d: consumed %s: nobody sent or queued an event with that parameter' % (k, ev))
                if r['outcome'] == 'error':
                    broken.add(i)
                    res.features.add('err:' + r['err']['class'])
                if i in broken:
                    # events sent before the exception have been forwarded: resynchronise on what was received
                    for lid, (o, kind, tgt, live) in bound.items():
                        if kind == 'cb':
                            recv[tgt] = list(ob['world']['callbacks'][tgt])
                    continue
                sent = []
                if r['outcome'] == 'step':
                    sent = [e['event'] for m in r['step']['steps'] for e in m['sent'] if e['internal']]
                    announced = [m['data'][0][1] for m in oracles.meta_effects(r['eff']) if m['ev'] == 'event sent']
                    if announced != sent:
                        res.violations.append('op %d: internal events of the MacroStep %s differ from those announced %s' % (k, sent, announced))
                order = []
                for e in sent:
                    # each event goes to the listeners in binding order; a listener detached meanwhile gets nothing
                    for lid in sorted(bound):
                        o, kind, tgt, live = bound[lid]
                        if o == i and live and kind == 'cb':
                            recv[tgt].append(e)
                            order.append(tgt)
                            if len(recv[tgt]) >= 2:
                                res.nontrivial = True
                                res.features.add('callable-received>=2')
                            if lid in detaches:
                                if detaches[lid] in bound:
                                    bound[detaches[lid]][3] = False
                                    res.features.add('detached-during-notification')
                                del detaches[lid]
                        if o == i and live and kind == 'bind':
                            res.features.add('forwarded-to-interpreter' + ('-self' if tgt == i else ''))
                            res.nontrivial = True
                got_order = ob['world'].get('deliveries')
                if got_order is not None and got_order != order and r['outcome'] != 'error':
                    it = iter(got_order)
                    if len(got_order) > len(order) and all(x in it for x in order):
                        res.violations.append('op %d: more calls of the bound callables %s than events sent to their bindings %s'
                                              % (k, got_order, order))
                    else:
                        res.violations.append('op %d: the bound callables were called in the order %s; binding order gives %s'
                                              % (k, got_order, order))
                if len(set(order)) < len(order) and len(sent) == 1:
                    res.features.add('callable-bound-twice')
                for cbk, exp in recv.items():
                    got = ob['world']['callbacks'][cbk]
                    if got != exp:
                        res.violations.append('op %d: callable %d received %s, expected %s' % (k, cbk, got[-3:], exp[-3:]))
                        recv[cbk] = list(got)
        if case.payload.get('raiser'):
            self.accounting(case, obs, res)
        if any("notify('event sent'" in (t.action or '') for sc in case.aux['charts'] for t in sc.transitions):
            res.features.add('spoofed-event-sent')
        if any(not b[3] for b in bound.values()):
            res.features.add('detached')
        if not res.features:
            res.features.add('no-feature')

    def accounting(self, case, obs, res):
        """one interpreter, drained at the end: what it consumed is what was queued for it plus what it announced as
        sent — also across the exception a bound callable raised"""
        ops = case.payload['ops']
        last = obs['obs'][-1]['r']
        if not isinstance(last, dict) or last.get('err') is not None or res.violations or len(last.get('steps', [])) >= 60:
            return      # (not drained: the statechart keeps sending itself events)
        if obs['obs'][-1]['world']['slots'][0]['final']:
            return      # (a statechart that ended leaves what is still queued where it is)
        key = lambda e: json.dumps(e, sort_keys=True)
        from ..interp_prop import ev_delay
        expected, consumed = [], []     # (what is due by the end) / (what was consumed)
        tnow = 0
        tend = ops[-1][2]
        for op, ob in zip(ops, obs['obs']):
            r = ob['r']
            if op[0] == 'queue':
                if tnow + ev_delay(op[2]) <= tend:
                    expected.append(key(op[2]))
            elif op[0] in ('exec', 'execute') and isinstance(r, dict):
                tnow = op[2]
                for m in oracles.meta_effects(r.get('eff', [])):
                    if m['ev'] == 'event sent':
                        e = dict(map(tuple, m['data']))['event']
                        if tnow + ev_delay(e) <= tend:
                            expected.append(key(e))
                    elif m['ev'] == 'event consumed':
                        consumed.append(key(dict(map(tuple, m['data']))['event']))
                if isinstance(r.get('err'), dict) or r.get('outcome') == 'error':
                    res.features.add('a-bound-callable-raised')
        if sorted(consumed) != sorted(expected):
            missing = list(expected)
            for c in consumed:
                if c in missing:
                    missing.remove(c)
            res.violations.append('drained at the end (time %d), the interpreter consumed %d events; %d were queued for it or announced by it '
                                  'as sent and due by then: never consumed %s' % (tend, len(consumed), len(expected), missing[:3]))

    def known_signature(self, finding, case, res):
        if finding.get('signature') == 'notify-event-sent':
            spoof = any("notify('event sent'" in (t.action or '') for sc in case.aux['charts'] for t in sc.transitions)
            return spoof and all(v.startswith('op ') and (': callable ' in v or 'differ from those announced' in v or ': more calls of the bound callables' in v or 'as sent; delivered to the' in v) for v in res.violations)
        return False
