"""C17 — renaming and copying states preserves behaviour."""
import copy
import json

from sismic.model import BasicState, CompoundState, Statechart

from .. import gen, oracles, engine, impl
from ..decode import chart_from_json
from ..encode import ChartEnc
from ..framework import Case
from ..interp_prop import InterpProp
from .c16 import snapshot, apply_op


def map_json(x, rho):
    """apply a renaming to every state name occurring in an observation"""
    if isinstance(x, dict):
        return {k: map_json(v, rho) for k, v in x.items()}
    if isinstance(x, list):
        return [map_json(v, rho) for v in x]
    if isinstance(x, str):
        return rho.get(x, x)
    return x


def order_kept(names, renames):
    """the renames, applied one after the other, map the names injectively and keep their order"""
    cur = {n: n for n in names}
    for old, new in renames:
        for k, v in cur.items():
            if v == old:
                cur[k] = new
    imgs = [cur[n] for n in sorted(names)]
    return imgs == sorted(imgs) and len(set(imgs)) == len(imgs)


class C17(InterpProp):
    id = 'C17'
    quick_cases = 1500
    thorough_cases = 20000
    n_ops = 30
    rule = ('(a) random well-formed charts (code not mentioning state names) and a random order-preserving renaming of '
            'a random subset of their states (root, sources of internal transitions, initial/memory targets and history '
            'states included) applied with rename_state: the structural result is compared with the model of '
            'rename_state and must be the substitution of the names; original and renamed chart are executed in '
            'lock-step and must produce the same run up to the renaming; (b) host/guest pairs for '
            'copy_from_statechart with a namespacing renaming function: the guest executed alone and inside its host '
            'must produce the same run up to the renaming (entries/exits of the guest states, transitions by value, '
            'contexts, sent events); non-trivial = a run with ≥5 macro steps firing transitions after the edit')

    def knobs(self, rnd, tier):
        return gen.Knobs(p_internal=0.3, p_history=0.5, max_states=rnd.choice([6, 10, 16]), time_preds=0.1,
                         no_state_names=True, history_focus=0.4, twins=0.25, atwins=rnd.choice([0, 0, 0.15]),
                         contracts=rnd.choice([0.0, 0.0, 0.4]), cflags=0, odd_names=rnd.choice([0, 0, 0.4]),
                         p_orth=rnd.choice([0.3, 0.6]))

    # ---- generation -------------------------------------------------------------------------------
    def gen_case(self, rnd, tier):
        kn = self.knobs(rnd, tier)
        g = gen.ChartGen(rnd, kn)
        sc = g.build()
        # (contracts on the transitions only: the root state of a guest is merged with a state of its host, whose
        #  contract is the host's business)
        root = sc.state_for(sc.root)
        del root.preconditions[:], root.postconditions[:], root.invariants[:]
        ops1 = gen.gen_ops(rnd, kn, self.n_ops)
        from sismic.model import FinalState
        root_final = any(isinstance(sc.state_for(c), FinalState) for c in sc.children_for(sc.root))
        # (a final child of the guest's root ends the guest's run but is an ordinary leaf inside a host:
        #  such guests are only used for renaming)
        if rnd.random() < 0.7 or root_final:
            names = list(sc.states)
            warm = rnd.choice([False, True, True, 'light', 'light'])
            if rnd.random() < (0.7 if warm == 'light' else 0.3) and len(names) >= 3:
                # an order-preserving shift along a block of consecutive names (in name order): the last
                # gets a fresh, slightly larger name, every other takes the name of its successor —
                # freed names are reused at once
                srt = sorted(names)
                i = rnd.randrange(0, len(srt) - 1)
                j = rnd.randrange(i + 1, min(len(srt), i + 4))
                renames = [[srt[j], srt[j] + '!']] + [[srt[t], srt[t + 1]] for t in range(j - 1, i - 1, -1)]
                if not order_kept(names, renames):
                    renames = None
            else:
                renames = None
            if renames is None:
                # (the relabelling keeps the order of the names — the interpreter breaks ties by name: a rename that
                #  would jump over another name, 'bq' -> 'bq!' beside 'bq !', is left out)
                chosen = rnd.sample(names, rnd.randint(1, max(1, len(names) // 2)))
                renames = []
                for n in chosen:
                    rn = [n, n + rnd.choice(['!', '!!', '!0'])]
                    if order_kept(names, renames + [rn]):
                        renames.append(rn)
            # used before it is renamed: not at all, thoroughly (every structural question asked), or lightly (run
            # for a few steps only: what the statechart remembers then covers some of its states and not others)
            payload = {'mode': 'rename', 'renames': renames, 'warm': warm}
            if renames and rnd.random() < 0.3:
                # a rename the statechart refuses (the name is taken) comes first and is caught by the client
                old = rnd.choice(renames)[0]
                taken = [n for n in names if n != old]
                if taken:
                    payload['refused'] = [[old, rnd.choice(taken)]]
            charts = [sc]
        else:
            payload = {'mode': 'copy', 'prefix': rnd.choice(['g_', 'zz_', 'a0'])}
            charts = [sc]
        payload.update({'kind': 'multi', 'chart0': ChartEnc(sc).json, 'ops1': ops1})
        case = Case(payload, {'chart0': sc})
        self._finish(case)
        return case

    def rebuild(self, payload):
        sc = chart_from_json(payload['chart0'])
        payload['chart0'] = ChartEnc(sc).json
        aux = {'chart0': sc}
        c = Case(payload, aux)
        self._finish(c)
        return c.aux

    def _finish(self, case):
        """derive the edited chart with the real code and assemble the protocol sub-cases"""
        p = case.payload
        sc = case.aux['chart0']
        sc2 = copy.deepcopy(sc)
        ok = True
        if p['mode'] == 'rename':
            if p.get('warm'):
                gen.warm(sc2, light=(p['warm'] == 'light'))        # the statechart was used before it is renamed
            cur = {n: n for n in sc.states}      # original name -> current name
            edit_ops = []
            from sismic.exceptions import StatechartError
            for old, new in p.get('refused', []):
                edit_ops.append(['rename_state', old, new])
                try:
                    sc2.rename_state(old, new)
                    ok = False          # (a taken name was accepted)
                except StatechartError:
                    pass
                except Exception:
                    ok = False
            for old, new in p['renames']:
                edit_ops.append(['rename_state', old, new])
                try:
                    sc2.rename_state(old, new)
                    for o, c in list(cur.items()):
                        if c == old:
                            cur[o] = new
                except Exception:
                    ok = False
            rho = {o: c for o, c in cur.items() if o != c}
            edit_case = {'kind': 'edit', 'chart': ChartEnc(sc).json, 'ops': edit_ops}
            twin = sc2
        else:
            host = Statechart('host', preamble=sc.preamble)
            host.add_state(CompoundState('H', initial='slot'), None)
            host.add_state(BasicState('slot'), 'H')
            prefix = p['prefix']
            try:
                host.copy_from_statechart(sc, source=sc.root, replace='slot', renaming_func=lambda s: prefix + s)
            except Exception as e:
                ok = False
                p['copy_error'] = type(e).__name__
            rho = {n: prefix + n for n in sc.states}
            rho[sc.root] = 'slot'
            edit_case = {'kind': 'edit', 'chart': ChartEnc(sc).json, 'ops': []}
            twin = host
        e1, e2 = ChartEnc(sc), ChartEnc(twin)
        ops = [['create', 0, False, [], 0], ['create', 1, False, [], 0]]
        for op in p['ops1']:
            ops.append(op)
            op2 = list(op)
            op2[1] = 1
            ops.append(op2)
        interp_case = {'kind': 'interp', 'charts': [e1.json, e2.json], 'ops': ops}
        p['cases'] = [edit_case, interp_case]
        p['rho'] = rho
        p['edit_ok'] = ok
        if ok and not p.get('copy_error'):
            # what was renamed / copied into answers every structural question as its parents and children imply
            bad = gen.inconsistent(twin)
            if bad:
                p['twin_inconsistent'] = bad
        case.aux.update({'charts': [sc, twin], 'twin': twin})
        case.model_ok = e1.supported and e2.supported

    # ---- running ----------------------------------------------------------------------------------
    def run_impl(self, case):
        p = case.payload
        sc = copy.deepcopy(case.aux['chart0'])
        eobs = []
        for op in p['cases'][0]['ops']:
            err = None
            try:
                apply_op(sc, op)
            except Exception as e:     # noqa
                err = type(e).__name__
            eobs.append({'err': err, 'chart': snapshot(sc)})
        if p.get('warm'):
            # the renamed chart is run as the very object that was used and then renamed
            charts = [copy.deepcopy(case.aux['charts'][0]), case.aux['charts'][1]]
        elif __import__('zlib').crc32(json.dumps(p['ops1']).encode()) % 2 == 0:
            # the very objects: the statechart as the client built it, and what rename_state / copy_from_statechart
            # made of it (running a statechart does not change it)
            charts = list(case.aux['charts'])
        else:
            charts = [copy.deepcopy(c) for c in case.aux['charts']]
        case.aux['run_charts'] = charts
        iobs, _ = impl.run_case(p['cases'][1], charts)
        return {'multi': [{'obs': eobs}, iobs]}

    def normalize(self, obs):
        # compared with the model: the structure after rename_state / copy_from_statechart (that is what the
        # theorems are about).  The behavioural half of the property is a relation between two runs of the
        # *implementation* (original vs renamed/copied twin), checked by the oracle; how the interpreter
        # itself behaves is other properties' business.
        o = json.loads(json.dumps(obs))
        o['multi'][1] = {'n_obs': len(o['multi'][1].get('obs', []))}
        return o

    def shrink_candidates(self, case):
        p = case.payload
        ops = p['ops1']
        for i in range(len(ops) - 1, -1, -1):
            q = {k: v for k, v in p.items() if k not in ('cases', 'rho', 'edit_ok', 'twin_inconsistent')}
            q = copy.deepcopy(q)
            del q['ops1'][i]
            yield q
        if p['mode'] == 'rename' and len(p['renames']) > 1:
            for i in range(len(p['renames'])):
                q = {k: v for k, v in p.items() if k not in ('cases', 'rho', 'edit_ok', 'twin_inconsistent')}
                q = copy.deepcopy(q)
                del q['renames'][i]
                if order_kept([st['name'] for st in p['chart0']['states']], q['renames']):
                    yield q

    # ---- oracle -----------------------------------------------------------------------------------
    def oracle(self, case, obs, res):
        p = case.payload
        rho = p['rho']
        sc, twin = case.aux['run_charts']
        if p.get('twin_inconsistent'):
            res.violations.append('after the edit the statechart contradicts itself: ' + p['twin_inconsistent'])
        if not p['edit_ok']:
            res.violations.append('the edit itself failed: %s' % p.get('copy_error', 'rename_state raised'))
            return
        t0, t1 = list(sc.transitions), list(twin.transitions)

        def tval(t, m):
            g = lambda x: m.get(x, x) if x is not None else None
            return [g(t.source), g(t.target), t.event, t.guard, t.action, t.priority,
                    list(t.preconditions), list(t.postconditions), list(t.invariants)]
        # structure: the twin is the substitution (rename) / contains the substitution (copy)
        if p['mode'] == 'rename':
            exp = sorted(map(json.dumps, (tval(t, rho) for t in t0)))
            got = sorted(map(json.dumps, (tval(t, {}) for t in t1)))
            if exp != got:
                res.violations.append('transitions after rename_state are not the originals with the name substituted')
            for n in sc.states:
                a, b = sc.state_for(n), twin.state_for(rho.get(n, n))
                ma = lambda x: rho.get(x, x) if x is not None else None
                if type(a) is not type(b) or ma(getattr(a, 'initial', None)) != getattr(b, 'initial', None) \
                        or ma(getattr(a, 'memory', None)) != getattr(b, 'memory', None) \
                        or ma(sc.parent_for(n)) != twin.parent_for(rho.get(n, n)):
                    res.violations.append('state %s is not carried over faithfully by rename_state' % n)
        else:
            exp = sorted(map(json.dumps, (tval(t, rho) for t in t0)))
            got = sorted(map(json.dumps, (tval(t, {}) for t in t1)))
            if exp != got:
                res.violations.append('copy_from_statechart: transitions in the host are not the guest transitions renamed (%d vs %d)' % (len(got), len(exp)))
            for n in sc.states:
                if rho[n] not in twin.states:
                    res.violations.append('copy_from_statechart: state %s missing in the host' % n)

        def canon(slot, r, m):
            r = json.loads(json.dumps(r))
            trs = t0 if slot == 0 else t1

            def tk(i):
                return tval(trs[i], m) if isinstance(i, int) and 0 <= i < len(trs) else i
            if isinstance(r, dict):
                if 'step' in r:
                    for mm in r['step']['steps']:
                        mm['transition'] = tk(mm['transition'])
                        mm['entered'] = [m.get(x, x) for x in mm['entered'] if x != 'H' or slot == 0]
                        mm['exited'] = [m.get(x, x) for x in mm['exited']]
                    if slot == 1 and p['mode'] == 'copy':
                        r['step']['steps'] = [mm for mm in r['step']['steps']
                                              if mm['entered'] or mm['exited'] or mm['transition'] is not None or mm['event']]
                eff = []
                for e in r.get('eff', []):
                    if e[0] in ('guard', 'action'):
                        e[1] = tk(e[1])
                    if e[0] == 'cond':
                        e[2] = ['t', tk(e[2][1])] if e[2][0] == 't' else ['s', m.get(e[2][1], e[2][1])]
                    if e[0] in ('entry', 'exit'):
                        if slot == 1 and p['mode'] == 'copy' and e[1] == 'H':
                            continue
                        e[1] = m.get(e[1], e[1])
                    if e[0] == 'meta':
                        if slot == 1 and p['mode'] == 'copy' and e[1]['data'] == [['state', 'H']]:
                            continue
                        e[1] = map_json(e[1], m) if e[1]['ev'] in ('state entered', 'state exited', 'transition processed') else e[1]
                    eff.append(e)
                if 'eff' in r:
                    guards = sorted(json.dumps(e) for e in eff if e[0] == 'guard')
                    r['eff'] = [e for e in eff if e[0] != 'guard']
                    if r.get('outcome') != 'error':
                        r['guards'] = guards
                if 'err' in r and 'obj' in r['err']:
                    o = r['err']['obj']
                    r['err']['obj'] = ['t', tk(o[1])] if o[0] == 't' else ['s', m.get(o[1], o[1])]
            return r
        iobs = obs['multi'][1]['obs']
        ops = p['cases'][1]['ops']
        fired = 0
        for k in range(2, len(ops) - 1, 2):
            a, b = iobs[k], iobs[k + 1]
            ra, rb = canon(0, a['r'], rho), canon(1, b['r'], {})
            if p['mode'] == 'copy' and isinstance(ra, dict) and ra.get('outcome') == 'step':
                # the guest's very first step enters its root; the host enters H then the copied root
                pass
            d = engine.diff(ra, rb)
            if d is None:
                s0, s1 = b['world']['slots'][0], b['world']['slots'][1]
                c0 = [rho.get(x, x) for x in s0['config']]
                c1 = [x for x in s1['config'] if not (p['mode'] == 'copy' and x == 'H')]
                if sorted(c0) != sorted(c1):
                    d = 'configurations %s vs %s' % (c0, c1)
                elif s0['ctx'] != s1['ctx']:
                    d = 'contexts differ'
            if d:
                res.violations.append('op %d %s: the %s chart does not behave like the original up to the renaming: %s'
                                      % (k, ops[k][0], 'renamed' if p['mode'] == 'rename' else 'host', d))
                break
            if isinstance(a['r'], dict) and a['r'].get('outcome') == 'step' and oracles.step_transitions(a['r']['step']):
                fired += 1
            if isinstance(a['r'], dict) and a['r'].get('outcome') == 'error' and \
                    a['r']['err'].get('class') not in ('NonDeterminismError', 'ConflictingTransitionsError'):
                # a step interrupted by an exception of the statechart's own code or contracts leaves the guest where
                # it was interrupted — possibly outside its root, which a host then enters again: not compared further
                break
        res.features.add(p['mode'])
        if fired >= 5:
            res.nontrivial = True
            res.features.add(p['mode'] + '-5+steps')
