"""C05 — event queues: one event per step, internal first, FIFO, delays respected."""
import copy
from sismic.model import BasicState, CompoundState, Statechart

from .. import gen, oracles
from ..encode import ChartEnc
from ..framework import Case
from ..interp_prop import InterpProp, ev_delay


def sink_chart():
    """a statechart that reacts to nothing: every event it is given is consumed by an empty step"""
    sc = Statechart('sink')
    sc.add_state(CompoundState('k', initial='k0'), None)
    sc.add_state(BasicState('k0'), 'k')
    return sc


class C05(InterpProp):
    id = 'C05'
    # observables compared with the model (see InterpProp.normalize)
    cmp_eff = ('meta',)
    cmp_meta = ('event consumed', 'event sent', 'delayed event sent')
    cmp_step = ('event', 'sent')
    cmp_slot = ('time',)
    cmp_callbacks = False
    cmp_err = 'class'
    quick_cases = 2000
    thorough_cases = 30000
    n_ops = 60
    rule = ('random charts with sending actions (with and without delay), always-enabled eventless transitions and '
            'events nobody reacts to × histories interleaving queue (delays 0..3, equal due times frequent), clock '
            'moves to just below / exactly / above due times, execute_once; oracle: ticket discipline on the '
            'implementation trace — the consumed event is exactly next(t) (internal first, then (due, seq) order), one '
            'event per macro step, never early, never skipped when due, nothing consumed twice or invented; '
            'non-trivial = a run in which ≥2 tickets were pending at once with equal due time or of both classes')

    def knobs(self, rnd, tier):
        kn = gen.Knobs(sends=0.5, p_eventless=0.15, max_states=rnd.choice([6, 10, 14]), p_guard=0.35, clock_moves=0.4,
                       neg_delays=True, failing=rnd.choice([0.0, 0.0, 0.1]))
        if kn.failing:
            # (an exception can leave a history pseudo-state in the configuration, where a later exit records it as its
            #  own memory and stabilisation never ends: what follows an exception is only looked at without them)
            kn.p_history = 0.0
        return kn

    @staticmethod
    def two_timers(rnd):
        """a delayed event the statechart sends itself and a delayed external one, pending together for a while (the
        internal one due first or last), with steps before, between and after their due times"""
        from sismic.model import BasicState, CompoundState, Statechart, Transition
        d1 = rnd.randint(1, 5)
        d2 = max(0, d1 + rnd.choice([-2, -1, 1, 1, 2, 3, 4]))
        sc = Statechart('timers', preamble='x = 0\ny = 0')
        sc.add_state(CompoundState('root', initial='a'), None)
        for n in 'abcd':
            sc.add_state(BasicState(n), 'root')
        sc.add_transition(Transition('a', 'b', event='go', action="send('tick', delay=%d, v=y, b=True)" % d1))
        for n in 'bcd':
            sc.add_transition(Transition(n, rnd.choice('bcd'), event='tick', action='x += 1'))
            sc.add_transition(Transition(n, rnd.choice('bcd'), event='late', action='y += 1'))
        t0 = rnd.choice([0, 0, 3])
        ops = [['exec', 0, t0], ['queue', 0, {'ev': 'go', 'data': []}]]
        late = ['queue', 0, {'ev': 'late', 'data': [['delay', d2]]}]
        if rnd.random() < 0.5:
            ops += [late, ['exec', 0, t0]]
        else:
            ops += [['exec', 0, t0], late]
        t = t0
        for _ in range(rnd.randint(0, 2)):
            ops.append(['exec', 0, t])          # nothing is due yet
        while t <= t0 + max(d1, d2) + 1:
            t += rnd.choice([1, 1, 1, 2])
            ops.append(['exec', 0, t])
            if rnd.random() < 0.3:
                ops.append(['exec', 0, t])
        return sc, ops

    @staticmethod
    def flood(rnd):
        """many events pending at once (hundreds, due later), then events due at once or earlier: where a new event
        goes does not depend on how long the queue is"""
        sc, _ = C05.two_timers(rnd)
        n = rnd.choice([130, 200, 300])
        ops = [['exec', 0, 0]]
        for i in range(n):
            ops.append(['queue', 0, {'ev': 'late', 'data': [['v', i % 5], ['delay', rnd.choice([10, 10, 12])]]}])
        ops.append(['queue', 0, {'ev': 'go', 'data': []}])
        ops.append(['queue', 0, {'ev': 'late', 'data': [['v', 9], ['delay', 3]]}])
        for t in (0, 0, 3, 5, 10, 10, 10, 12, 12):
            ops.append(['exec', 0, t])
        return sc, ops

    def gen_case(self, rnd, tier):
        c0 = rnd.random()
        if c0 < 0.01:
            sc, ops1 = self.flood(rnd)
            enc = ChartEnc(sc)
            payload = {'kind': 'interp', 'charts': [enc.json], 'via_yaml': False,
                       'ops': [['create', 0, self.ignore_contract, [], 0]] + ops1}
            return Case(payload, {'charts': [sc]}, model_ok=enc.supported)
        if rnd.random() < 0.06:
            sc, ops1 = self.two_timers(rnd)
            enc = ChartEnc(sc)
            payload = {'kind': 'interp', 'charts': [enc.json], 'ops': [['create', 0, self.ignore_contract, [], 0]] + ops1}
            return Case(payload, {'charts': [sc]}, model_ok=enc.supported)
        case = super().gen_case(rnd, tier)
        if rnd.random() < 0.06:
            # clock values that binary floats hold with many decimals: an event is due at time + delay, as computed
            return gen.shift_times(case, rnd.choice([1 / 7, 0.30000000000000004, 1e-10]))
        if 'history' not in case.payload and rnd.random() < 0.25:
            # a second interpreter bound to the first: what the first sends reaches it once
            sink = sink_chart()
            p = case.payload
            p['charts'].append(ChartEnc(sink).json)
            p['ops'] = [p['ops'][0], ['create', 1, False, [], 0], ['bind', 0, 1]] + p['ops'][1:] + \
                [['execute', 1, 10 ** 6, 250]]     # (bounded: below the fuel of the model's `execute`)
            p['sink'] = True
            case.aux['charts'].append(sink)
        return case

    def rebuild(self, payload):
        aux = super().rebuild(payload) if not payload.get('sink') else None
        if aux is None:
            from ..decode import chart_from_json
            charts = [chart_from_json(j) for j in payload['charts']]
            payload['charts'] = [ChartEnc(sc).json for sc in charts]
            aux = {'charts': charts}
        return aux

    def post_oracle(self, case, obs, res):
        super().post_oracle(case, obs, res)
        p = case.payload
        if not p.get('sink') or res.violations:
            return
        # every internal event the first interpreter sent is consumed exactly once by the bound one
        sent, clean = [], True
        for op, ob in zip(p['ops'], obs['obs']):
            r = ob['r']
            if op[0] == 'exec' and op[1] == 0 and isinstance(r, dict):
                if r['outcome'] == 'error':
                    clean = False
                if r['outcome'] == 'step':
                    sent += [e['event'] for m in r['step']['steps'] for e in m['sent'] if e['internal']]
        last = obs['obs'][-1]['r']
        if not clean or not isinstance(last, dict) or last.get('err') or len(last.get('steps', [])) >= 250:
            return      # (not drained)
        got = [m['event'] for st in last['steps'] for m in st['steps'] if m['event'] is not None]
        key = lambda e: (e['ev'], str(e['data']))
        if sorted(map(key, got)) != sorted(map(key, sent)):
            res.violations.append('the bound interpreter consumed %d events %s, the sender sent %d internal events %s: an event was '
                                  'lost or duplicated on the way' % (len(got), [e['ev'] for e in got][:12], len(sent),
                                                                       [e['ev'] for e in sent][:12]))
        if sent:
            res.features.add('forwarded-to-bound-interpreter')

    def make_ops(self, rnd, knobs, sc):
        import re
        ops = []
        t = 0
        dues = []
        # the delayed events the statechart's own code sends: an external event may look exactly like one of them
        code = '\n'.join(filter(None, [getattr(sc.state_for(n), a, None) for n in sc.states for a in ('on_entry', 'on_exit')] +
                                [tr.action for tr in sc.transitions]))
        delayed = re.findall(r"send\('(\w+)', delay=(-?\d+), v=y, b=(True|False)\)", code)
        for _ in range(self.n_ops):
            c = rnd.random()
            if c < 0.45:
                data = [['v', rnd.randint(0, 4)], ['b', rnd.random() < 0.5]]
                if rnd.random() < 0.55:
                    d = rnd.randint(-1, 3)
                    data.append(['delay', d])
                    dues.append(t + d)
                name = rnd.choice(gen.EVENTS) if rnd.random() < 0.85 else 'zz'
                if delayed and rnd.random() < 0.2:
                    nm, d, b = rnd.choice(delayed)
                    name = nm
                    data = [['delay', int(d)], ['v', rnd.choice([0, 0, 0, 1, 2])], ['b', b == 'True']]
                    dues.append(t + int(d))
                elif rnd.random() < 0.06:
                    # an undelayed event that carries a delayed one as its parameter `event`
                    data = [kv for kv in data if kv[0] != 'delay'] + \
                        [['event', {'ev': 'inner', 'data': [['delay', rnd.randint(1, 3)]]}]]
                if rnd.random() < knobs.clock_moves:
                    # the clock moves between two steps: the due time counts from the *interpreter's* time
                    t += rnd.choice([1, 2, 3])
                    ops.append(['setclock', 0, t] + (['new'] if rnd.random() < 0.15 else []))
                if rnd.random() < 0.12 and not any(kv[0] == 'event' for kv in data):
                    # several events in one call of queue(), given by name and as Event instances, in that order
                    more = [{'ev': rnd.choice(gen.EVENTS), 'data': [['v', rnd.randint(0, 4)], ['b', rnd.random() < 0.5]] +
                             ([['delay', rnd.randint(0, 3)]] if rnd.random() < 0.3 else [])} for _ in range(rnd.randint(1, 2))]
                    if rnd.random() < 0.4:
                        # ... one of them twice: given as an instance it is the very same Event object, queued twice
                        more.insert(rnd.randrange(len(more) + 1), copy.deepcopy(rnd.choice([{'ev': name, 'data': data}] + more)))
                    op = gen.queue_many(rnd, 0, [{'ev': name, 'data': data}] + more)
                    for e in op[2]:
                        dues.append(t + ev_delay(e))
                    ops.append(op)
                    continue
                ops.append(['queue', 0, {'ev': name, 'data': data}])
            elif c < 0.5 and knobs.flags:
                ops.append(['setvar', 0, 'v%d' % rnd.randrange(knobs.flags), rnd.random() < 0.5])
            else:
                future = sorted(d for d in dues if d > t)
                if future and rnd.random() < 0.5:
                    t = rnd.choice([future[0] - 1, future[0], future[0], future[0] + 1])
                    t = max(t, ops and 0 or 0, self._last_t(ops))
                elif rnd.random() < 0.3:
                    t += rnd.choice([0, 1, 2])
                ops.append(['exec', 0, t])
        return ops

    @staticmethod
    def _last_t(ops):
        for op in reversed(ops):
            if op[0] == 'exec':
                return op[2]
        return 0

    def check_exec(self, info, res):
        r, gh = info['r'], info['ghost']
        if not gh.qclean:
            return
        if not gh.clean:
            res.features.add('after-an-exception')
        k, t = info['k'], info['clock']
        out = r['outcome']
        if out == 'error':
            res.features.add('err:' + r['err']['class'])
            return
        pend = [x for x in gh.tickets if x['due'] <= t]
        if len(set(x['internal'] for x in pend)) == 2 or len(set(x['due'] for x in gh.tickets)) < len(gh.tickets):
            res.nontrivial = True
            res.features.add('contention')
        nxt = gh.next(t)
        if out == 'none':
            if nxt is not None and gh.initialized:
                res.violations.append('step %d: event %s is due (due %d ≤ time %d) but execute_once returned None'
                                      % (k, nxt['ev']['ev'], nxt['due'], t))
            return
        step = r['step']
        # what is sent carries the delay the code gave it (`send(..., delay=d)`: d of any sign, 0 included)
        for m in step['steps']:
            want = oracles.sent_in_source_order(info['sc'], info['trans'], m, with_delay=True)
            if want is None:
                continue
            want = [(n, d) for kind, n, d in want if kind == 'send']
            got = [(e['event']['ev'], dict(map(tuple, e['event']['data'])).get('delay')) for e in m['sent'] if e['internal']]
            if got != want:
                res.violations.append('step %d: the code sends %s (name, delay), the events sent are %s' % (k, want, got))
                return
        evs = [m['event'] for m in step['steps'] if m['event'] is not None]
        if any(e != evs[0] for e in evs):
            res.violations.append('step %d: more than one event in a macro step' % k)
        tids = oracles.step_transitions(step)
        eventless = any(info['trans'][i].event is None for i in tids)
        if evs:
            if nxt is None:
                res.violations.append('step %d: consumed %s although no event is due at time %d (pending: %s)'
                                      % (k, evs[0]['ev'], t, [(x['ev']['ev'], x['due']) for x in gh.tickets]))
            elif nxt['ev'] != evs[0]:
                res.violations.append('step %d: consumed %s, the next due event is %s (internal=%s due=%d seq=%d)'
                                      % (k, evs[0], nxt['ev'], nxt['internal'], nxt['due'], nxt['seq']))
            res.features.add('consumed-internal' if (nxt and nxt['internal']) else 'consumed-external')
            if nxt and ev_delay(nxt['ev']) and nxt['due'] == t:
                res.features.add('consumed-exactly-when-due')
            if not tids:
                res.features.add('empty-step')
        else:
            if gh.initialized and not eventless:
                res.violations.append('step %d: a macro step that neither consumes an event nor fires eventless transitions' % k)
            if nxt is not None and gh.initialized and not eventless:
                res.violations.append('step %d: due event not consumed' % k)
            if eventless:
                res.features.add('eventless-step')
        if any(x['due'] > t for x in gh.tickets):
            res.features.add('future-pending')
