"""C03 — steps run to completion in documented order and the trace tells the truth."""
from .. import gen, oracles
from ..interp_prop import InterpProp


class C03(InterpProp):
    id = 'C03'
    decoy = 0.12
    anomaly_tags = ('macro', 'config')
    # observables compared with the model (see InterpProp.normalize)
    cmp_eff = ('exit', 'action', 'entry')
    cmp_step = None
    cmp_slot = ('config', 'ctx')
    cmp_callbacks = False
    cmp_err = 'class'
    cmp_time = False
    quick_cases = 2500
    thorough_cases = 40000
    n_ops = 36
    rule = ('random well-formed charts with entry/exit/action code on most objects (deep orthogonal nesting) × '
            'histories; oracle: the evaluator-call log (exit/action/entry, in order) equals the replay of the '
            'returned MacroStep, the configuration equals the trace applied to the previous one, exits are '
            'innermost-first and entries outermost-first with ties by name, transitions by (-depth, name), sent '
            'events of the MacroStep are what the code sent; non-trivial = a run with a macro step of ≥3 micro '
            'steps or ≥2 transitions')

    def knobs(self, rnd, tier):
        kn = gen.Knobs(p_orth=0.5, nested_targets=0.4, max_depth=5, max_states=rnd.choice([10, 18, 24]),
                       sends=0.35, trans_per_owner=2.0)
        if getattr(self, '_real', False):
            # (statecharts that come to an end: final states under the root)
            kn.p_final = 0.5
            kn.max_states = rnd.choice([5, 8, 12])
        return kn

    def gen_case(self, rnd, tier):
        self._real = rnd.random() < 0.1       # (see below: the history ends with `execute(max_steps=…)`)
        case = super().gen_case(rnd, tier)
        if rnd.random() < 0.08:
            # the documented outer-first variation (the selection hook overridden with its own flag): which
            # transitions fire differs, how they are processed does not (implementation only)
            case.payload['outer_first'] = True
            case.payload['no_model'] = True
            case.model_ok = False
        elif self._real and not any(op[0] == 'create' for op in case.payload['ops'][1:]):
            # the history ends with `execute(max_steps=…)` itself: the steps it returns are the steps it ran
            ops = case.payload['ops']
            cut = rnd.randint(1, max(1, len(ops) // 3))
            t = max([op[2] for op in ops[:cut] if op[0] == 'exec'] + [0])
            extra = [['queue', 0, {'ev': rnd.choice(gen.EVENTS), 'data': [['v', 1], ['b', True]]}] for _ in range(rnd.randint(2, 8))]
            case.payload['ops'] = ops[:cut] + extra + [['execute_real', 0, t, rnd.choice([1, 2, 3, 5, 10])]]
            case.payload['no_model'] = True
            case.model_ok = False
        return case

    def check_other(self, op, ob, prev_world, gh, res):
        if op[0] != 'execute_real' or not isinstance(ob.get('r'), dict) or ob['r'].get('err'):
            return
        r = ob['r']
        ran = oracles.exec_effects(r['eff'])
        told = [e for st in r['steps'] for e in oracles.replay_effects(st)]
        if ran != told:
            res.violations.append('execute(max_steps=%s): the code that ran %s is not what the returned steps say %s (%d steps returned)'
                                  % (op[3], ran[:10], told[:10], len(r['steps'])))
        started = len([m for m in oracles.meta_effects(r['eff']) if m['ev'] == 'step started'])
        if op[3] > 0 and len(r['steps']) > op[3]:
            res.violations.append('execute(max_steps=%d) returned %d steps' % (op[3], len(r['steps'])))
        res.features.add('execute()')

    @staticmethod
    def stabilised_out_of_turn(sc, active, m):
        """the leaves of the configuration that need something (a final child of the root, a history state, an
        orthogonal or compound state without active child) are served deepest first, then in the order of their names"""
        from sismic.model import (CompoundState, DeepHistoryState, FinalState, OrthogonalState, ShallowHistoryState)
        tr = oracles.tree(sc)
        leaves = [n for n in active if not any(d in active for d in tr.descendants_for(n))]

        def needy(n):
            st = sc.state_for(n)
            return (isinstance(st, FinalState) and sc.parent_for(n) == sc.root) or \
                isinstance(st, (ShallowHistoryState, DeepHistoryState)) or \
                (isinstance(st, OrthogonalState) and sc.children_for(n)) or \
                (isinstance(st, CompoundState) and st.initial)
        order = sorted([n for n in leaves if needy(n)], key=lambda n: (-tr.depth_for(n), n))
        if not order:
            return None
        if m['exited']:
            served = m['exited'][0]
        elif m['entered']:
            served = sc.parent_for(m['entered'][0])
        else:
            return None
        if served in order and served != order[0]:
            return 'stabilisation served %s before %s (deepest first, then by name: %s)' % (served, order[0], order)
        return None

    def check_exec(self, info, res):
        r, gh, sc, trans = info['r'], info['ghost'], info['sc'], info['trans']
        if not gh.clean or gh.final:
            return
        if r['outcome'] != 'step':
            if r['outcome'] == 'error':
                res.features.add('err:' + r['err']['class'])
            elif oracles.exec_effects(r['eff']):
                res.violations.append('step %d: code ran although no macro step was returned' % info['k'])
            return
        step = r['step']
        k = info['k']
        if oracles.exec_effects(r['eff']) != oracles.replay_effects(step):
            res.violations.append('step %d: executed code %s differs from what the MacroStep says %s'
                                  % (k, oracles.exec_effects(r['eff'])[:8], oracles.replay_effects(step)[:8]))
        active = set(info['cfg0'])
        tr = oracles.tree(sc)
        dcache, desc_of, anc_of = {}, {}, {}

        def depth(n):
            if n not in dcache:
                dcache[n] = tr.depth_for(n)
            return dcache[n]
        for m in step['steps']:
            ex, en = m['exited'], m['entered']
            for i, a in enumerate(ex):
                if a not in active:
                    res.violations.append('step %d: exit of inactive state %s' % (k, a))
                if a not in desc_of and ex[i + 1:]:
                    desc_of[a] = set(tr.descendants_for(a))
                for b in ex[i + 1:]:
                    if b in desc_of[a]:
                        res.violations.append('step %d: %s exited before its descendant %s' % (k, a, b))
                    if depth(a) == depth(b) and not a < b and m['transition'] is not None:
                        res.violations.append('step %d: same-depth exits not in name order: %s' % (k, ex))
                    if depth(a) < depth(b) and m['transition'] is not None:
                        res.violations.append('step %d: exits not innermost-first: %s' % (k, ex))
            for i, a in enumerate(en):
                if a not in anc_of and en[i + 1:]:
                    anc_of[a] = set(tr.ancestors_for(a))
                for b in en[i + 1:]:
                    if b in anc_of[a]:
                        res.violations.append('step %d: %s entered before its ancestor %s' % (k, a, b))
                    if sc.parent_for(a) == sc.parent_for(b) and not a < b:
                        res.violations.append('step %d: sibling entries not in name order: %s' % (k, en))
            if m['transition'] is None and not res.violations:
                late = self.stabilised_out_of_turn(sc, active, m)
                if late:
                    res.violations.append('step %d: %s' % (k, late))
            for s in ex:
                active.discard(s)
            for s in en:
                if s in active:
                    res.violations.append('step %d: entry of already active state %s' % (k, s))
                active.add(s)
        if sorted(active) != sorted(info['slot1']['config']):
            res.violations.append('step %d: configuration %s is not the trace applied to the previous one %s'
                                  % (k, info['slot1']['config'], sorted(active)))
        # run to completion: what the step leaves behind needs no further stabilisation
        if info['slot1'].get('legal') is False and info['slot1']['config']:
            res.violations.append('step %d: the macro step ended in %s, which is not stable (a compound state without '
                                  'active child, or an orthogonal state with a region missing)'
                                  % (k, info['slot1']['config']))
        tids = oracles.step_transitions(step)
        keys = [(-depth(trans[i].source), trans[i].source) for i in tids]
        if keys != sorted(keys):
            res.violations.append('step %d: transitions not processed by (-depth, name): %s' % (k, keys))
        # each transition micro step is followed by stabilisation steps only
        if step['steps'] and step['steps'][0]['transition'] is None and tids:
            res.violations.append('step %d: a stabilisation step precedes the first transition' % k)
        # within one micro step the events are sent (and announced) in the order of the code that sends them
        for m in step['steps']:
            want = oracles.sent_in_source_order(sc, trans, m)
            got = [('send' if e['internal'] else 'notify', e['event']['ev']) for e in m['sent']]
            if want is not None and got != want:
                res.violations.append('step %d: the events of one micro step are listed in the order %s, the code sends them in '
                                      'the order %s' % (k, got, want))
                break
        # sent events: what the 'event sent' meta-events and the notify events announced
        sent = [e for m in step['steps'] for e in m['sent']]
        metas = oracles.meta_effects(r['eff'])
        announced = [m['data'][0][1] for m in metas if m['ev'] == 'event sent']
        if announced != [e['event'] for e in sent if e['internal']]:
            res.violations.append('step %d: sent events of the MacroStep differ from the events actually sent' % k)
        if len(step['steps']) >= 3 or len(tids) >= 2:
            res.nontrivial = True
        res.features.add('micro%d' % min(len(step['steps']), 8))
        res.features.add('trans%d' % min(len(tids), 3))
        if sent:
            res.features.add('sent')
