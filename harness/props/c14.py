"""C14 — clocks are monotonic and faithful."""
import copy
from fractions import Fraction

from ..framework import Case, Prop
from .. import engine


def enc(q):
    if isinstance(q, Fraction):
        return [q.numerator, q.denominator]
    return q


def dec(j):
    if isinstance(j, list):
        return Fraction(j[0], j[1])
    return j


def norm(j):
    """canonical [num, den]"""
    if j is None or isinstance(j, bool):
        return j
    q = Fraction(dec(j))
    return [q.numerator, q.denominator]


class Source:
    """scripted replacement of `time.time()` inside sismic.clock.clock"""

    def __init__(self, r0):
        self.pending = []
        self.last = r0
        self.calls = 0

    def __call__(self):
        self.calls += 1
        if self.pending:
            self.last = self.pending.pop(0)
        return self.last


class C14(Prop):
    id = 'C14'
    quick_cases = 4000
    thorough_cases = 100000
    rule = ('random scripts of ~40 start/stop/speed/assign/read operations on the real SimulatedClock whose time source '
            '(sismic.clock.clock.time) is replaced by a scripted one returning exact ints / Fractions (non-decreasing '
            'readings, equal readings frequent, speeds 0, fractions and large values); every value read and every '
            'accept/reject decision is compared exactly with the model; oracle on the implementation: values never '
            'decrease, a rejected assignment changes nothing, an accepted one reads back exactly, no movement while '
            'stopped, Δtime = speed·Δreal between consecutive reads while started, SynchronizedClock = interpreter.time; '
            'non-trivial = a script with a rejected assignment, a speed change while started and a stop/start cycle')
    trusted = ['float rounding and the real time.time() are not modelled: the clock is driven with exact numbers']

    def gen_case(self, rnd, tier):
        frac = rnd.random() < 0.5

        def num(lo, hi):
            if frac and rnd.random() < 0.6:
                return Fraction(rnd.randint(lo * 4, hi * 4), rnd.choice([1, 2, 3, 4, 7]))
            return rnd.randint(lo, hi)
        r = num(0, 50)
        ops = []
        r0 = r
        big = rnd.random() < 0.1
        if big:
            # a clock that shows seconds since the epoch, and speeds of a fast-forward simulation: a second is a second
            # at any magnitude
            ops.append(['time', enc(r), enc(r), rnd.choice([1700000000, 315360000, 10 ** 12])])

        def adv():
            nonlocal r
            if rnd.random() < 0.6:
                r = r + num(0, 6)
            return r
        for _ in range(rnd.randint(10, 45)):
            c = rnd.random()
            if c < 0.15:
                ops.append(['start', enc(adv())])
            elif c < 0.27:
                ops.append(['stop', enc(adv())])
            elif c < 0.42:
                r1 = adv()
                r2 = adv() if rnd.random() < 0.5 else r1
                if rnd.random() < 0.5:
                    ops.append(['read', enc(r1)])
                ops.append(['speed', enc(r1), enc(r2), enc(rnd.choice([0, 0, 1, 1, 2, 3, num(0, 5), Fraction(1, 2)] + ([1000, 200000, 3600] if big else [])))])
                if rnd.random() < 0.6:
                    ops.append(['read', enc(r2)])
            elif c < 0.62:
                r1 = adv()
                ops.append(['read', enc(r1)])
                r2 = adv() if rnd.random() < 0.3 else r1
                t = rnd.choice(['below', 'equal', 'above', 'any'])
                ops.append(['time', enc(r1), enc(r2), t])     # resolved against the implementation below
                ops.append(['read', enc(r2)])
            else:
                ops.append(['read', enc(adv())])
                if rnd.random() < 0.4:
                    ops.append(['read', enc(adv())])
        payload = {'kind': 'clock', 'r0': enc(r0), 'ops': ops, 'seed': rnd.getrandbits(32)}
        self._resolve(payload)
        return Case(payload, None)

    def _resolve(self, payload):
        """turn symbolic assignment targets into numbers relative to what the real clock shows"""
        import random
        rnd = random.Random(payload['seed'])
        ops = payload['ops']
        if not any(op[0] == 'time' and isinstance(op[3], str) for op in ops):
            return
        clock, src = self._mk(dec(payload['r0']))
        with Patched(src):
            for op in ops:
                if op[0] == 'time' and isinstance(op[3], str):
                    src.pending = [dec(op[1])]
                    cur = clock.time
                    d = Fraction(rnd.randint(1, 12), rnd.choice([1, 2, 3]))
                    t = {'below': cur - d, 'equal': cur, 'above': cur + d,
                         'any': cur + rnd.choice([-1, 1]) * d}[op[3]]
                    op[3] = enc(t if isinstance(t, Fraction) and t.denominator != 1 else int(t))
                self._do(clock, src, op)

    @staticmethod
    def _mk(r0):
        from sismic.clock import SimulatedClock
        src = Source(r0)
        with Patched(src):
            clock = SimulatedClock()
        return clock, src

    @staticmethod
    def _do(clock, src, op):
        k = op[0]
        src.calls = 0
        if k == 'start':
            src.pending = [dec(op[1])]
            clock.start()
            return None
        if k == 'stop':
            src.pending = [dec(op[1])]
            clock.stop()
            return None
        if k == 'speed':
            src.pending = [dec(op[1]), dec(op[2])]
            clock.speed = dec(op[3])
            return None
        if k == 'time':
            src.pending = [dec(op[1]), dec(op[2])]
            try:
                clock.time = dec(op[3])
                return True
            except ValueError:
                return False
        if k == 'read':
            src.pending = [dec(op[1])]
            return enc(Fraction(clock.time))
        raise engine.MachineryError('bad op')

    def rebuild(self, payload):
        return None

    def run_impl(self, case):
        p = case.payload
        clock, src = self._mk(dec(p['r0']))
        outs = []
        with Patched(src):
            for op in p['ops']:
                outs.append(self._do(clock, src, op))
        return {'outs': outs}

    def normalize(self, obs):
        return {'outs': [norm(o) for o in obs['outs']]}

    def oracle(self, case, obs, res):
        ops, outs = case.payload['ops'], obs['outs']
        play, speed = False, Fraction(1)
        last = None          # (value, reading, index) of the previous read
        feats = set()
        for i, (op, o) in enumerate(zip(ops, outs)):
            k = op[0]
            if k == 'read':
                v, r = Fraction(dec(o)), Fraction(dec(op[1]))
                if last is not None:
                    lv, lr, li = last
                    if v < lv:
                        res.violations.append('op %d: clock went backwards: %s after %s' % (i, v, lv))
                    if li == i - 1:
                        if not play and v != lv:
                            res.violations.append('op %d: clock moved while stopped: %s -> %s' % (i, lv, v))
                        if play and v - lv != speed * (r - lr):
                            res.violations.append('op %d: Δtime %s ≠ speed %s × Δreal %s' % (i, v - lv, speed, r - lr))
                        feats.add('rate' if play else 'still')
                    if li == i - 2 and ops[i - 1][0] in ('speed', 'start', 'stop') and lr == r and \
                            all(Fraction(dec(x)) == r for x in ops[i - 1][1:(3 if ops[i - 1][0] == 'speed' else 2)]):
                        # nothing but the setting happened at this instant: the clock does not jump
                        feats.add('continuity-' + ops[i - 1][0])
                        if v != lv:
                            res.violations.append('op %d: %s at one instant moved the clock: %s -> %s'
                                                  % (i, ops[i - 1][0] if ops[i - 1][0] != 'speed' else 'speed = %s' % dec(ops[i - 1][3]), lv, v))
                    if li == i - 2 and ops[i - 1][0] == 'time' and Fraction(dec(ops[i - 1][2])) == r:
                        t = Fraction(dec(ops[i - 1][3]))
                        same = Fraction(dec(ops[i - 1][1])) == lr     # assignment made at the reading of the previous read
                        if outs[i - 1] is True and v != t:
                            res.violations.append('op %d: accepted assignment of %s reads back %s' % (i, t, v))
                        if outs[i - 1] is False:
                            if same and r == lr and v != lv:
                                res.violations.append('op %d: rejected assignment changed the clock: %s -> %s' % (i, lv, v))
                            if same and not t < lv:
                                res.violations.append('op %d: assignment of %s ≥ current %s rejected' % (i, t, lv))
                            feats.add('rejected')
                        if outs[i - 1] is True and same and t < lv:
                            res.violations.append('op %d: assignment of %s below current %s accepted' % (i, t, lv))
                last = (v, r, i)
            elif k == 'start':
                if not play:
                    feats.add('restart' if 'stopped-once' in feats else 'start')
                play = True
            elif k == 'stop':
                if play:
                    feats.add('stopped-once')
                play = False
            elif k == 'speed':
                if play:
                    feats.add('speed-while-started')
                speed = Fraction(dec(op[3]))
        res.features |= feats
        if {'rejected', 'speed-while-started', 'restart'} <= feats:
            res.nontrivial = True
        # SynchronizedClock (implementation only)
        try:
            from sismic.clock import SynchronizedClock

            class I:
                time = 0
            it = I()
            sc = SynchronizedClock(it)
            for v in (0, 3, Fraction(7, 2), 10):
                it.time = v
                if sc.time != v:
                    res.violations.append('SynchronizedClock shows %r, interpreter.time is %r' % (sc.time, v))
        except Exception as e:       # pragma: no cover
            res.violations.append('SynchronizedClock unusable: %r' % (e,))
        self.follow_interpreter(case, res)

    FOLLOWED = None

    def follow_interpreter(self, case, res):
        """a SynchronizedClock following a real interpreter: whatever is done to that interpreter and its clock
        between two steps (events queued with and without delay, the clock moved), it shows the time of the
        last step (implementation only; the script is drawn from the seed of the case)"""
        import random
        from sismic.clock import SimulatedClock, SynchronizedClock
        from sismic.interpreter import Interpreter
        from sismic.model import Event
        if C14.FOLLOWED is None:
            from sismic.io import import_from_yaml
            C14.FOLLOWED = import_from_yaml("""
statechart:
  name: followed
  root state:
    name: root
    initial: a
    states:
      - name: a
        transitions:
          - {target: b, event: go, action: "send('tick', delay=2)"}
      - name: b
        transitions:
          - {target: a, event: tick}
          - {target: a, event: go}
""")
        rnd = random.Random(case.payload['seed'] ^ 0x5bd1)
        clock = SimulatedClock()
        it = Interpreter(copy.deepcopy(C14.FOLLOWED), clock=clock)
        sync = SynchronizedClock(it)
        last = 0
        t = 0
        during = []

        def watcher(event):
            # while a step is under way — from 'step started' on — the step under way is the last step
            if sync.time != t:
                during.append('while %r was announced the SynchronizedClock showed %r; the step was called at %r'
                              % (event.name, sync.time, t))
        it.attach(watcher)
        # interpreters bound to it (a property statechart given as such, or as a ready-made interpreter, the form
        # of sismic < 1.4) get a clock which follows *it*
        import warnings
        bound = []
        for form in rnd.sample(['statechart', 'interpreter'], rnd.randint(0, 2)):
            quiet = copy.deepcopy(C14.FOLLOWED)
            if form == 'statechart':
                made = []

                def klass(statechart, clock=None):
                    made.append(Interpreter(statechart, clock=clock))
                    return made[-1]
                it.bind_property_statechart(quiet, interpreter_klass=klass)
                bound.append((form, made[-1]))
            else:
                ready = Interpreter(quiet)
                with warnings.catch_warnings():
                    warnings.simplefilter('ignore')
                    it.bind_property_statechart(ready)
                bound.append((form, ready))
        for k in range(rnd.randint(4, 14)):
            c = rnd.random()
            if c < 0.06:
                # the followed interpreter is given another clock, which shows an earlier time: its next step happens
                # at that time, and that is what a SynchronizedClock shows from then on
                t = rnd.randint(0, t)
                clock = SimulatedClock()
                clock.time = t
                it.clock = clock
                what = 'interpreter given a new clock showing %d' % t
            elif c < 0.12:
                # the deprecated way of moving the clock, `interpreter.time = v`: the very same assignment — accepted
                # and exact when v is not below the clock's value, refused (ValueError, nothing changes) otherwise
                v = t + rnd.choice([-3, -1, 0, 1, 2, 5])
                before = clock.time
                with warnings.catch_warnings():
                    warnings.simplefilter('ignore')
                    try:
                        it.time = v
                        refused = False
                    except ValueError:
                        refused = True
                if refused != (v < before) or clock.time != (before if refused else v):
                    res.violations.append('op %d of the followed interpreter: interpreter.time = %r with the clock at %r was %s and '
                                          'the clock shows %r' % (k, v, before, 'refused' if refused else 'accepted', clock.time))
                    return
                t = clock.time
                what = 'interpreter.time = %d' % v
            elif c < 0.3:
                t += rnd.randint(1, 5)
                clock.time = t
                what = 'clock moved to %d' % t
            elif c < 0.65:
                d = rnd.choice([0, 0, 1, 3])
                e = Event(rnd.choice(['go', 'tick', 'other']), **({'delay': d} if d or rnd.random() < 0.3 else {}))
                it.queue(e)
                what = 'queue(%r)' % (e,)
            else:
                it.execute_once()
                # (a call that executes nothing still samples the clock: it is a step boundary too)
                last = t
                what = 'execute_once()'
            if during:
                res.violations.append('op %d of the followed interpreter: %s' % (k, during[0]))
                return
            if sync.time != last or SynchronizedClock(it).time != last:
                res.violations.append('after %s (op %d of the followed interpreter) the SynchronizedClock shows %r / a fresh one %r; '
                                      'the last step was at %r' % (what, k, sync.time, SynchronizedClock(it).time, last))
                return
            for form, b in bound:
                if b.clock.time != last:
                    res.violations.append('after %s (op %d of the followed interpreter) the clock of the interpreter bound to it '
                                          '(property given as %s) shows %r; the last step of the followed one was at %r'
                                          % (what, k, form, b.clock.time, last))
                    return
        res.features.add('followed-interpreter')

    def shrink_candidates(self, case):
        p = case.payload
        for i in range(len(p['ops']) - 1, -1, -1):
            q = copy.deepcopy(p)
            del q['ops'][i]
            yield q


class Patched:
    def __init__(self, src):
        self.src = src

    def __enter__(self):
        import sismic.clock.clock as cm
        self.cm = cm
        self.old = cm.time
        cm.time = self.src

    def __exit__(self, *a):
        self.cm.time = self.old
