"""C08 — contracts are checked at the documented points; failures raise the right error."""
import copy
import re
import json

from .. import gen, oracles, engine, impl
from ..encode import ChartEnc
from ..framework import Case
from ..interp_prop import InterpProp


def expected_points(sc, trans, step, cfg_after):
    """the exec + cond log a macro step (or None) promises when every condition holds"""
    out = []

    def conds(kind, oid, lst, ev):
        return [['cond', kind, oid, i, ev, True] for i in range(len(lst))]
    mev = None
    if step is not None:
        mev = oracles.step_event(step)
        for m in step['steps']:
            ev = m['event']
            for s in m['exited']:
                out.append(['exit', s])
                out += conds('post', ['s', s], sc.state_for(s).postconditions, ev)
            if m['transition'] is not None:
                t = trans[m['transition']]
                oid = ['t', m['transition']]
                out += conds('pre', oid, t.preconditions, ev)
                out += conds('inv', oid, t.invariants, ev)
                out.append(['action', m['transition'], ev])
                out += conds('post', oid, t.postconditions, ev)
                out += conds('inv', oid, t.invariants, ev)
            for s in m['entered']:
                out += conds('pre', ['s', s], sc.state_for(s).preconditions, ev)
                out.append(['entry', s])
    for s in cfg_after:
        out += conds('inv', ['s', s], sc.state_for(s).invariants, mev)
    return out


class C08(InterpProp):
    id = 'C08'
    decoy = 0.15
    # observables compared with the model (see InterpProp.normalize)
    cmp_eff = ('cond', 'exit', 'action', 'entry')
    cmp_step = ()
    cmp_slot = ()
    cmp_callbacks = False
    cmp_err = 'full'
    cmp_time = False
    quick_cases = 2000
    thorough_cases = 30000
    n_ops = 24
    rule = ('random charts in which every contract condition is conjoined with its own context flag (`cN and …`); a '
            'baseline history is run with all flags true, then ONE condition is made to fail before ONE chosen '
            'execute_once (flag set to False just before it); oracle: (1) in the baseline the interleaving of executed '
            'code and condition evaluations equals the documented points computed from the returned MacroStep (state '
            'post after exit code, transition pre+inv / action / post+inv, state pre before entry code, invariants of '
            'all active states at the end, also for empty steps; declaration order; each once); (2) in the failing run '
            'the log equals the baseline log up to the first evaluation of the chosen condition, which is false, the '
            'error has the class of the condition kind, carries that owner and that condition text, and nothing is '
            'logged afterwards; (3) every evaluation of a condition mentioning __old__ is shown the values the variables had '
            'when the interpreter asked for the preconditions of that same state / transition (its entry / its start); non-trivial = the injected condition was actually reached')

    def knobs(self, rnd, tier):
        return gen.Knobs(contracts=0.8, cflags=0, max_states=rnd.choice([5, 9, 13]), sends=0.15, nil=0.3)

    ALWAYS = ('x >= 0', 'x + 1 > x')
    NIL = ('__old__.nil == None', 'nil == None and __old__.nil == None', '__old__.nil == nil')

    def post_build(self, rnd, g, sc):
        n = 0
        objs = [sc.state_for(s) for s in sc.states] + list(sc.transitions)
        if rnd.random() < 0.2:
            gen.add_mutables(rnd, sc)
        for o in objs:
            for lst in (o.preconditions, o.postconditions, o.invariants):
                for i in range(len(lst)):
                    lst[i] = 'k%d and (%s)' % (n, lst[i])
                    n += 1
        if rnd.random() < 0.25:
            # a condition whose text is also a piece of executable code that runs before it is evaluated (an
            # expression statement: it does nothing)
            texts = [c for o in objs for lst in (o.preconditions, o.postconditions, o.invariants) for c in lst
                     if c.split(' and (', 1)[-1].rstrip(')') in self.ALWAYS]
            free = [o for o in objs if hasattr(o, "on_entry") and o.on_entry is None]
            rnd.shuffle(free)
            for c, o in zip(texts[:2], free):
                o.on_entry = c
        if rnd.random() < 0.25:
            # the same condition, word for word, under two kinds of one contract (a precondition that is also a
            # postcondition or an invariant): it is two conditions
            cands = [o for o in objs if o.preconditions]
            for o in rnd.sample(cands, min(2, len(cands))):
                rnd.choice([o.postconditions, o.invariants]).append(o.preconditions[0])
        self._n = n      # the flags k0..k(n-1) are given to the interpreter as its initial context (all True)

    def special_case(self, rnd):
        """two statecharts of another kind than the random ones, with the verdicts they call for:
        `bare` — no preamble: a state is entered while no variable exists, its `__old__` is that empty context;
        `line` — a long line of states, each with a contract, under a root whose invariant reads its own `__old__`:
        what was shown when the root was entered is still shown hundreds of entries later"""
        from sismic.model import BasicState, CompoundState, Statechart, Transition
        from ..encode import ChartEnc
        from ..framework import Case
        if rnd.random() < 0.5:
            sc = Statechart('bare')
            sc.add_state(CompoundState('r', initial='counter'), None)
            st = BasicState('counter', on_entry='count = %d' % rnd.randint(1, 5))
            st.invariants.append("count >= __old__.get('count', 0)")
            st.postconditions.append("'count' not in __old__")
            sc.add_state(st, 'r')
            sc.add_state(BasicState('done'), 'r')
            sc.add_transition(Transition('counter', None, event='dec', action='count = count - %d' % rnd.randint(20, 40)))
            sc.add_transition(Transition('counter', None, event='inc', action='count = count + 1'))
            sc.add_transition(Transition('counter', 'done', event='stop'))
            evs = [rnd.choice(['inc', 'inc', 'dec', 'stop']) for _ in range(rnd.randint(2, 6))]
            ops, expect, count, alive = [['create', 0, False, [], 0], ['exec', 0, 0]], {}, 1, True
            for e in evs:
                ops.append(['queue', 0, {'ev': e, 'data': []}])
                ops.append(['exec', 0, 0])
                if not alive:
                    continue
                if e == 'dec':
                    expect[len(ops) - 1] = 'InvariantError'      # the count falls below 0, what it was (not) at the entry
                    alive = False
                elif e == 'stop':
                    alive = False           # ('count' was not there when the state was entered: its postcondition holds)
            payload = {'kind': 'interp', 'charts': [ChartEnc(sc).json], 'ops': ops, 'expect': {str(k): v for k, v in expect.items()},
                       'no_model': True, 'via_yaml': False}
            return Case(payload, {'charts': [sc]}, model_ok=False)
        n = rnd.choice([150, 200, 260])
        sc = Statechart('line', preamble='produced = 0\nx = 0\ny = 0')
        root = CompoundState('line', initial='s0')
        root.invariants.append('produced >= __old__.produced')
        sc.add_state(root, None)
        for i in range(n):
            st = BasicState('s%d' % i)
            st.preconditions.append('produced >= 0')
            st.postconditions.append('produced >= __old__.produced')
            sc.add_state(st, 'line')
        for i in range(n - 1):
            sc.add_transition(Transition('s%d' % i, 's%d' % (i + 1), event='next', action='produced += 1'))
        ops = [['create', 0, False, [], 0], ['exec', 0, 0]]
        for _ in range(rnd.randint(135, n - 5)):
            ops.append(['queue', 0, {'ev': 'next', 'data': []}])
            ops.append(['exec', 0, 0])
        enc = ChartEnc(sc)
        payload = {'kind': 'interp', 'charts': [enc.json], 'ops': ops, 'expect': {}, 'via_yaml': False}
        return Case(payload, {'charts': [sc]}, model_ok=enc.supported)

    def expect_oracle(self, case, obs, res):
        exp = case.payload['expect']
        for k, (op, ob) in enumerate(zip(case.payload['ops'], obs['obs'])):
            if op[0] != 'exec':
                continue
            r = ob['r']
            got = r['err']['class'] if r.get('outcome') == 'error' else None
            want = exp.get(str(k))
            if got != want:
                res.violations.append('op %d: %s; the contracts of this statechart call for %s here' % (
                    k, ('%s raised' % got) if got else 'nothing raised', want or 'no error'))
                return
            if got:
                break
        res.features.add('special:' + case.aux['charts'][0].name)
        res.nontrivial = True

    def gen_case(self, rnd, tier):
        if rnd.random() < 0.012:
            return self.special_case(rnd)
        case = super().gen_case(rnd, tier)
        case.payload['record_old'] = True     # the implementation-side `__old__` channel (oracle 3)
        n = self._n
        ops = case.payload['ops']
        for op in ops:
            if op[0] == 'create':       # (the decoy interpreter, if any, gets the same flags)
                op[3] = [['k%d' % i, True] for i in range(n)]
        execs = [i for i, op in enumerate(ops) if op[0] == 'exec' and op[1] == 0]
        if n and execs:
            # choose the injection from the baseline run on the implementation: a condition that is
            # evaluated during the chosen step (falls back to a random one)
            k = rnd.choice(execs)
            try:
                base, _ = impl.run_case(case.payload, [copy.deepcopy(c) for c in case.aux['charts']])
                evald = [e for e in base['obs'][k]['r'].get('eff', []) if e[0] == 'cond']
            except Exception:
                evald = []
            sc = case.aux['charts'][0]
            flag = None
            if evald and rnd.random() < 0.9:
                e = rnd.choice(evald)
                obj = list(sc.transitions)[e[2][1]] if e[2][0] == 't' else sc.state_for(e[2][1])
                lst = {'pre': obj.preconditions, 'post': obj.postconditions, 'inv': obj.invariants}[e[1]]
                flag = lst[e[3]].split(' ')[0]
            else:
                flag = 'k%d' % rnd.randrange(n)
            case.payload['inject'] = {'at': k, 'flag': flag}
            case.payload['ops'] = ops[:k] + [['setvar', 0, flag, False]] + [ops[k]]
            case.payload['base_ops'] = ops[:k + 1]
        return case

    def run_impl(self, case):
        obs = super().run_impl(case)
        if 'base_ops' in case.payload:
            p2 = dict(case.payload, ops=case.payload['base_ops'])
            from ..interp_prop import through_yaml
            same_way = through_yaml if case.aux.get('oracle_charts') else (lambda c: c)
            base, _ = impl.run_case(p2, [same_way(copy.deepcopy(c)) for c in case.aux['charts']])
            obs['_base'] = base
        return obs

    def normalize(self, obs):
        o = super().normalize(obs)
        o.pop('_base', None)
        return o

    def shrink_candidates(self, case):
        return []

    def oracle(self, case, obs, res):
        if 'expect' in case.payload:
            return self.expect_oracle(case, obs, res)
        sc = (case.aux.get('oracle_charts') or case.aux['run_charts'])[0]
        trans = list(sc.transitions)
        base = obs.get('_base', obs)
        ops = case.payload.get('base_ops', case.payload['ops'])
        # (1) documented points on the baseline (while no error occurred)
        for k, (op, ob) in enumerate(zip(ops, base['obs'])):
            if op[0] != 'exec' or op[1] != 0:
                continue
            r = ob['r']
            if r['outcome'] == 'error':
                res.features.add('baseline-err:' + r['err']['class'])
                # every flag is true in the baseline: a condition `kN and (C)` with C true whatever the variables
                # are does not fail
                cond = r['err'].get('cond') or ''
                m = re.fullmatch(r'k\d+ and \((.*)\)', cond)
                if m and m.group(1) in self.ALWAYS:
                    res.violations.append('step %d: %s for condition %r of %s, which holds (its flag is true)'
                                          % (k, r['err']['class'], cond, r['err'].get('obj')))
                # `nil` is defined and holds None from the preamble on: what is said about it and about its
                # `__old__` holds, and evaluating it raises nothing
                text = cond + ' ' + str(r['err'].get('msg') or '')
                last = [e for e in r['eff'] if e[0] == 'cond'][-1:]
                if last and last[0][5] is None:
                    e = last[0]
                    o = trans[e[2][1]] if e[2][0] == 't' else sc.state_for(e[2][1])
                    lst = {'pre': o.preconditions, 'post': o.postconditions, 'inv': o.invariants}[e[1]]
                    if e[3] < len(lst):
                        text += ' ' + lst[e[3]]
                for c in self.NIL:
                    if c in text:
                        res.violations.append('step %d: %s for a condition built on %r, which holds (nil is None all along): %s'
                                              % (k, r['err']['class'], c, text[:200]))
                        break
                break
            exp = expected_points(sc, trans, r.get('step'), ob['world']['slots'][0]['config'])
            got = [e for e in r['eff'] if e[0] in ('exit', 'action', 'entry', 'cond')]
            if got != exp:
                d = engine.diff(got, exp)
                res.violations.append('step %d: contract evaluations / code not at the documented points: %s' % (k, d))
                break
            if any(e[0] == 'cond' for e in got):
                res.features.add('conds-evaluated')
        # (3) `__old__`: what a postcondition / invariant is shown equals the variables at the moment the
        #     interpreter asked for the preconditions of that very state / transition (the entry, the start)
        snaps = {}
        for k, (op, ob) in enumerate(zip(ops, base['obs'])):
            if op[0] != 'exec' or op[1] != 0:
                continue
            bad = False
            for e in ob['r'].get('oldchk', []):
                if e[0] == 'snap':
                    snaps[json.dumps(e[1])] = e[2]
                else:
                    res.features.add('old-read-' + e[2][0])
                    want = snaps.get(json.dumps(e[2]))
                    if e[4] is None or want is None:
                        res.violations.append('step %d: %s condition %d of %s mentions __old__ and was evaluated with %s: '
                                              '__old__ shows the variables as they were when the %s'
                                              % (k, e[1], e[3], e[2],
                                                 'no __old__ at all' if e[4] is None else 'an __old__ nobody asked to take',
                                                 'transition started' if e[2][0] == 't' else 'state was entered'))
                        bad = True
                        break
                    if e[4] != want:
                        res.violations.append('step %d: %s condition %d of %s was shown __old__ = %s, the variables were %s when it %s'
                                              % (k, e[1], e[3], e[2], e[4], want,
                                                 'started' if e[2][0] == 't' else 'was entered'))
                        bad = True
                        break
            if bad or ob['r']['outcome'] == 'error':
                break
        inj = case.payload.get('inject')
        if not inj or '_base' not in obs:
            return
        # (2) the single-failure run
        k = inj['at']
        rb = base['obs'][k]['r']
        rf = obs['obs'][k + 1]['r']
        if rb['outcome'] == 'error':
            return
        logb = [e for e in rb['eff'] if e[0] in ('exit', 'action', 'entry', 'cond')]
        logf = [e for e in rf['eff'] if e[0] in ('exit', 'action', 'entry', 'cond')]

        def flag_of(e):
            obj = trans[e[2][1]] if e[2][0] == 't' else sc.state_for(e[2][1])
            lst = {'pre': obj.preconditions, 'post': obj.postconditions, 'inv': obj.invariants}[e[1]]
            return lst[e[3]].split(' ')[0], lst[e[3]]
        first = None
        for i, e in enumerate(logb):
            if e[0] == 'cond' and flag_of(e)[0] == inj['flag']:
                first = i
                break
        if first is None:
            res.features.add('injection-not-reached')
            if rf['outcome'] == 'error' and rf['err']['class'].endswith('conditionError'):
                res.violations.append('step %d: %s raised although the falsified condition is not evaluated in this step' % (k, rf['err']['class']))
            return
        res.nontrivial = True
        e = logb[first]
        res.features.add('inject-%s-%s' % (e[1], e[2][0]))
        want = logb[:first] + [e[:5] + [False]]
        if logf != want:
            res.violations.append('step %d: with %s false the log is %s, documented: %s'
                                  % (k, inj['flag'], logf[max(0, first - 2):first + 3], want[max(0, first - 2):]))
        cls = {'pre': 'PreconditionError', 'post': 'PostconditionError', 'inv': 'InvariantError'}[e[1]]
        if rf['outcome'] != 'error' or rf['err']['class'] != cls:
            res.violations.append('step %d: condition %s of %s is false but outcome is %s'
                                  % (k, e[1], e[2], rf.get('err', rf['outcome'])))
        elif rf['err'].get('obj') != e[2] or rf['err'].get('cond') != flag_of(e)[1]:
            res.violations.append('step %d: error carries %s / %r instead of %s / %r'
                                  % (k, rf['err'].get('obj'), rf['err'].get('cond'), e[2], flag_of(e)[1]))
        # nothing after the failing evaluation
        if rf['eff'] and not (rf['eff'][-1][0] == 'cond' and rf['eff'][-1][5] is False):
            res.violations.append('step %d: something was logged after the failing condition: %s' % (k, rf['eff'][-1]))
