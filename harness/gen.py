"""Random statecharts, code fragments (inside the modelled Python subset) and input histories.
Every random choice derives from the `random.Random` passed in (one seed ⇒ one replayable case)."""
from sismic.model import (BasicState, CompoundState, DeepHistoryState, FinalState, OrthogonalState,
                          ShallowHistoryState, Statechart, Transition)

EVENTS = ('e', 'f', 'g')


class Knobs:
    def __init__(self, **kw):
        self.max_states = 14
        self.max_depth = 4
        self.p_history = 0.35
        self.p_final = 0.15
        self.p_orth = 0.3
        self.trans_per_owner = 1.5
        self.p_guard = 0.5
        self.p_eventless = 0.2
        self.p_internal = 0.15
        self.code = True             # entry/exit/action code
        self.contracts = 0.0         # probability that an object carries contract conditions
        self.sends = 0.25            # probability that an action sends an event
        self.time_preds = 0.15       # after/idle in guards
        self.wf = True               # respect W8/W9
        self.nested_targets = 0.3    # bias towards targets nested in orthogonal regions / history
        self.flags = 4               # number of boolean context flags v0..vk used by guards
        self.cflags = 3              # c0..ck used by contract conditions
        self.send_names = EVENTS     # names used by send(): disjoint from triggers ⇒ no self-sustaining loops
        self.no_state_names = False  # code never mentions state names (C17)
        self.avoid_nondet = True     # transitions of one state on one event get distinct priorities
        self.shared_code = 0.06      # an action whose source text is also a plausible guard / condition text
        self.empty_event = 0.0       # probability that a trigger / a queued event is the event named by the empty string
        self.failing = 0.0           # probability that a code fragment contains a statement that raises now and then
        self.prio_pool = [0, 0, 0, 1, -1, 2]     # priorities of transitions …
        self.prio_alt = [-3, -2, -1, 0, 1, 2, 3, 4, 5, 6, 7]   # … and what a colliding one is redrawn from
        self.chain = 0               # the first `chain` levels are compound states with a single composite child
        self.twins = 0.06            # a transition gets a twin that differs in its guard only (complementary guards)
        self.history_focus = 0.0     # probability, per history state, of adding leave / come-back transitions
        self.__dict__.update(kw)


class ChartGen:
    def __init__(self, rnd, knobs=None):
        self.r = rnd
        self.k = knobs or Knobs()
        self.names = []
        self.kinds = {}
        self.n = 0
        self.used_prio = {}
        self.prio_counter = 0
        self.bad_construction = []

    def fresh_prio(self, src):
        self.prio_counter += 1
        return 10 + self.prio_counter

    def fresh(self, parent=None):
        pool = [a + b for a in 'zyxcba' for b in 'qpo321']
        while True:
            nm = self.r.choice(pool) + ('' if self.n < 30 else str(self.n))
            if getattr(self.k, 'zero_names', 0) and parent is not None and self.r.random() < self.k.zero_names:
                # a name that differs from a sibling's by the leading zeros of a number only ('x1' / 'x01': two names)
                sib = [c for c in self.sc.children_for(parent) if any(ch.isdigit() for ch in c)]
                if sib:
                    c = self.r.choice(sib)
                    i = min(j for j, ch in enumerate(c) if ch.isdigit())
                    nm = c[:i] + '0' + c[i:]
            if getattr(self.k, 'subnames', 0) and self.names and self.r.random() < self.k.subnames:
                # a name that contains another state's name
                nm = self.r.choice(self.names) + self.r.choice('xyz')
            if getattr(self.k, 'odd_names', 0) and self.names and self.r.random() < self.k.odd_names:
                # a name that continues another one with a blank and a sign (names are compared as they are)
                nm = self.r.choice(self.names) + self.r.choice([' (copy)', ' !', ' 2', ' #1', '-b', '.1', ' +'])
            self.n += 1
            if nm not in self.names:
                self.names.append(nm)
                return nm

    # ---- code fragments -------------------------------------------------------------------
    def action_code(self, with_event):
        r, k = self.r, self.k
        if not k.code or r.random() < 0.25:
            return None
        if k.shared_code and r.random() < k.shared_code:
            # the same source string as some guard or contract condition (the evaluator caches
            # compiled code per source string, separately for `exec` and `eval`)
            opts = ['x % 2 == 0', 'x > y', 'x < 5', 'x >= 0', 'x + 1 > x']
            if k.flags:
                opts += ['v%d' % i for i in range(k.flags)] + ['not v%d' % i for i in range(k.flags)]
            if k.cflags and k.contracts:
                opts += ['c%d' % i for i in range(k.cflags)]
            return r.choice(opts)
        stmts = []
        if k.failing and r.random() < k.failing:
            # raises ZeroDivisionError whenever x is a multiple of three
            stmts.append('y = 10 // (x % 3)')
        for _ in range(r.randint(1, 2)):
            c = r.random()
            if c < 0.3:
                stmts.append('x += %d' % r.randint(1, 3))
            elif c < 0.4:
                stmts.append('y = x * %d - y' % r.randint(1, 3))
            elif c < 0.5 and k.flags:
                stmts.append('v%d = %s' % (r.randrange(k.flags), r.choice(['True', 'False', 'False'])))
            elif c < 0.5 + k.sends:
                kind = r.random()
                if kind < 0.6:
                    stmts.append("send('%s', v=x, b=%s)" % (r.choice(k.send_names), r.choice(['True', 'False', 'x > 2'])))
                elif kind < 0.8:
                    stmts.append("send('%s', delay=%d, v=y, b=%s)" % (r.choice(k.send_names),
                                                                   r.randint(-1 if getattr(k, 'neg_delays', False) else 0, 3),
                                                                   r.choice(['True', 'False'])))
                else:
                    stmts.append("notify('n%d', v=y)" % r.randint(0, 2))
            elif c < 0.85:
                stmts.append('seen = time')
            elif with_event:
                stmts.append('last = event.v if event else -1')
            else:
                stmts.append('y += 1')
        return '\n'.join(stmts)

    def guard_code(self, evented):
        r, k = self.r, self.k
        c = r.random()
        if c < k.time_preds:
            if r.random() < 0.3:
                # … or its negation, which passing time alone makes false
                return r.choice(['not after(%d)', 'not idle(%d)']) % r.randint(2, 8)
            return r.choice(['after(%d)', 'idle(%d)']) % r.randint(0, 3)
        if evented and c < 0.5:
            return r.choice(['event.v > 1', 'event.v % 2 == 0', 'event.b', 'not event.b',
                             'event.v <= x'])
        if k.flags and c < 0.8:
            return r.choice(['v%d', 'not v%d', 'v%d']) % r.randrange(k.flags)
        opts = ['x % 2 == 0', 'x > y', 'x < 5', 'y % 3 != 1']
        if k.shared_code and r.random() < 3 * k.shared_code:
            # a text that is also the text of some contract condition and of some action
            opts = ['x >= 0', 'x + 1 > x']
        if not k.no_state_names:
            opts.append("active('%s')" % r.choice(self.names))
        return r.choice(opts)

    def cond_code(self, post, allow_time=True):
        r, k = self.r, self.k
        if allow_time and getattr(k, 'time_conds', 0) and r.random() < k.time_conds:
            # a bare time predicate (C13): about the state itself / the source of the transition
            return r.choice(['after(%d)', 'idle(%d)']) % r.randint(0, 3)
        if getattr(k, 'sent_conds', 0) and r.random() < k.sent_conds:
            # false exactly when an earlier micro step of the macro step under way sent that event
            return "not sent('%s')" % r.choice(k.send_names)
        c = r.random()
        if k.cflags and c < 0.35:
            return 'c%d' % r.randrange(k.cflags)
        if post and getattr(self, 'nil', False) and c < 0.15:
            return r.choice(['__old__.nil == None', 'nil == None and __old__.nil == None', '__old__.nil == nil'])
        if post and c < 0.6:
            return r.choice(['x >= __old__.x', 'y >= __old__.y or x >= 0', '__old__.x <= x + 1',
                             'x - __old__.x < %d' % r.randint(3, 9), 'x - __old__.x < %d' % r.randint(3, 9),
                             '__old__.seen <= seen', 'x != __old__.x + %d' % r.randint(2, 6)])
        if c < 0.75:
            return r.choice(["not sent('zz')", "sent('e') or x >= 0", "not received('zz')",
                             "received('e') or True"])
        if post and c < 0.85:
            return r.choice(['after(0)', 'idle(0)'])
        opts = ['x >= 0', 'x + 1 > x']
        if not k.no_state_names:
            opts.append("active('%s') or True" % r.choice(self.names))
        return r.choice(opts)

    def contracts(self, obj):
        r, k = self.r, self.k
        if r.random() >= k.contracts:
            return
        is_state = not isinstance(obj, Transition)
        for _ in range(r.randint(0, 2)):
            # (no time predicate before a state is entered: it has no entry time yet)
            obj.preconditions.append(self.cond_code(False, allow_time=not is_state))
        for _ in range(r.randint(0, 2)):
            obj.postconditions.append(self.cond_code(True))
        for _ in range(r.randint(0, 2)):
            obj.invariants.append(self.cond_code(True))

    # ---- structure ------------------------------------------------------------------------
    def build(self):
        r, k = self.r, self.k
        pre = ['x = 0', 'y = 0', 'seen = -1', 'last = -1']
        pre += ['v%d = %s' % (i, r.choice(['False', 'False', 'True'])) for i in range(k.flags)]
        pre += ['c%d = True' % i for i in range(k.cflags)]
        self.nil = bool(getattr(k, 'nil', 0)) and r.random() < k.nil
        if self.nil:
            pre.append('nil = None')        # a variable that is defined and holds None
        sc = Statechart('g', preamble='\n'.join(pre))
        self.sc = sc
        budget = [r.randint(3, k.max_states)]

        def mk(parent, allowed, depth):
            budget[0] -= 1
            name = self.fresh(parent)
            if depth < k.chain:
                kind = 'compound'
            elif budget[0] > 1 and depth < max(k.max_depth, k.chain + 2 if k.chain else 0):
                kind = r.choice(allowed)
            else:
                kind = r.choice([a for a in allowed if a in ('basic', 'final')] or ['basic'])
            self.kinds[name] = kind
            kw = dict(on_entry=self.action_code(False), on_exit=self.action_code(False))
            if kind == 'basic':
                st = BasicState(name, **kw)
            elif kind == 'final':
                st = FinalState(name, **kw)
            elif kind == 'compound':
                st = CompoundState(name, **kw)
            else:
                st = OrthogonalState(name, **kw)
            sc.add_state(st, parent)
            if kind == 'compound':
                allowed_ch = ['basic', 'basic', 'compound'] + (['orthogonal'] if r.random() < k.p_orth * 2 else []) \
                    + (['final'] if r.random() < k.p_final * 2 else [])
                if depth + 1 < k.chain:
                    ch = [mk(name, ['compound'], depth + 1)]
                    if r.random() < 0.3:
                        ch.append(mk(name, ['basic'], k.max_depth + k.chain))
                else:
                    ch = [mk(name, allowed_ch, depth + 1) for _ in range(r.randint(1, 3))]
                st.initial = r.choice(ch)
                if r.random() < k.p_history:
                    # one history state, sometimes two (a shallow and a deep one side by side)
                    kinds = [r.choice(['shallow', 'deep'])]
                    if r.random() < 0.3:
                        kinds.append('deep' if kinds[0] == 'shallow' else 'shallow')
                        if r.random() < 0.5:
                            kinds.reverse()
                    for hk in kinds:
                        h = self.fresh()
                        self.kinds[h] = hk
                        cls = ShallowHistoryState if hk == 'shallow' else DeepHistoryState
                        hs = cls(h, memory=r.choice(ch), on_entry=self.action_code(False),
                                 on_exit=self.action_code(False))
                        sc.add_state(hs, name)
                        if r.random() < 0.2:
                            st.initial = h
            elif kind == 'orthogonal':
                for _ in range(r.randint(2, 3)):
                    mk(name, ['basic', 'compound', 'compound', 'orthogonal'], depth + 1)
            return name

        root_kinds = ['compound', 'compound', 'orthogonal'] if r.random() < 0.9 else ['basic']
        mk(None, root_kinds, 0)
        for n in list(self.kinds):
            self.contracts(sc.state_for(n))
        owners = [n for n, kd in self.kinds.items() if kd in ('basic', 'compound', 'orthogonal')]
        allst = list(self.kinds)
        nested = [n for n in allst if any(self.kinds[a] == 'orthogonal' for a in sc.ancestors_for(n))]
        hist = [n for n in allst if self.kinds[n] in ('shallow', 'deep')]
        nt = r.randint(2, max(2, int(k.trans_per_owner * len(owners)) + 1))
        for _ in range(nt):
            src = r.choice(owners)
            if r.random() < k.p_internal:
                tgt = None
            elif (nested or hist) and r.random() < k.nested_targets:
                tgt = r.choice(nested + hist + hist)
            else:
                tgt = r.choice(allst)
            if tgt is not None and k.wf and not self.ok_target(src, tgt):
                continue
            ev = None if r.random() < k.p_eventless else r.choice(EVENTS)
            if ev is not None and k.empty_event and r.random() < k.empty_event:
                ev = ''
            guard = self.guard_code(ev is not None) if (r.random() < k.p_guard or ev is None) else None
            pr = r.choice(k.prio_pool)
            if k.avoid_nondet:
                used = self.used_prio.setdefault((src, ev), set())
                while pr in used:
                    pr = r.choice(k.prio_alt)
                used.add(pr)
            act = self.action_code(True)
            t = Transition(src, tgt, event=ev, guard=guard, action=act, priority=pr)
            if (t.source, t.target, t.event, t.guard, t.action, t.priority) != (src, tgt, ev, guard, act, pr):
                # the object does not say what it was given
                self.bad_construction.append([src, tgt, ev, guard, act, pr])
            self.contracts(t)
            sc.add_transition(t)
            if getattr(k, 'dups', 0) and r.random() < k.dups:
                # the same transition declared twice (a copy-and-paste in the description): two transitions
                t3 = Transition(src, tgt, event=ev, guard=guard, action=act, priority=pr)
                t3.preconditions, t3.postconditions, t3.invariants = (
                    list(t.preconditions), list(t.postconditions), list(t.invariants))
                before = len(sc.transitions)
                sc.add_transition(t3)
                if len(sc.transitions) != before + 1:
                    self.bad_construction.append(['dup', src, tgt, ev, guard, act, pr])
            if getattr(k, 'atwins', 0) and r.random() < k.atwins:
                # same source, target, event, guard, priority and contracts: only the actions tell them apart
                t4 = Transition(src, tgt, event=ev, guard=guard, action='x = x + 7', priority=pr)
                t4.preconditions, t4.postconditions, t4.invariants = (
                    list(t.preconditions), list(t.postconditions), list(t.invariants))
                sc.add_transition(t4)
            if k.twins and r.random() < k.twins and (k.flags or ev is not None):
                # same source, target, event, action, priority and contracts: only the guards tell them apart
                g = 'event.b' if (ev is not None and (not k.flags or r.random() < 0.3)) else 'v%d' % r.randrange(k.flags)
                pair = [g, 'not ' + g]
                r.shuffle(pair)
                t.guard = pair[0]
                t2 = Transition(src, tgt, event=ev, guard=pair[1], action=t.action, priority=pr)
                t2.preconditions, t2.postconditions, t2.invariants = (
                    list(t.preconditions), list(t.postconditions), list(t.invariants))
                sc.add_transition(t2)
        # history scenarios: a way out of the parent and a way back through the history state
        for h in hist:
            if r.random() >= k.history_focus:
                continue
            par = sc.parent_for(h)
            inside = set([par] + sc.descendants_for(par))
            outside = [n for n in owners if n not in inside and self.ok_target(n, h)]
            leavers = [n for n in owners if n in inside]
            targets_out = [n for n in allst if n not in inside and self.kinds[n] not in ('shallow', 'deep')]
            if not outside or not targets_out:
                continue
            for _ in range(r.randint(1, 2)):
                src = r.choice(outside)
                sc.add_transition(Transition(src, h, event=r.choice(EVENTS), action=self.action_code(True),
                                             priority=self.fresh_prio(src)))
            for _ in range(r.randint(1, 2)):
                src = r.choice(leavers)
                tgt = r.choice(targets_out)
                if self.ok_target(src, tgt):
                    sc.add_transition(Transition(src, tgt, event=r.choice(EVENTS), action=self.action_code(True),
                                                 priority=self.fresh_prio(src)))
            # ... and a way to the history state from inside its parent, which is not left on the way
            inner = [n for n in leavers if n != par]
            if inner and r.random() < 0.5:
                src = r.choice(inner)
                if self.ok_target(src, h):
                    sc.add_transition(Transition(src, h, event=r.choice(EVENTS), action=self.action_code(True),
                                                 priority=self.fresh_prio(src)))
        sc.validate()
        return sc

    def ok_target(self, s, t):
        sc = self.sc
        lca = sc.least_common_ancestor(s, t)
        if lca is not None and isinstance(sc.state_for(lca), OrthogonalState):
            def child(x):
                cur = x
                for a in sc.ancestors_for(x):
                    if a == lca:
                        break
                    cur = a
                return cur
            if child(s) != child(t):
                return False
        if self.kinds[t] in ('shallow', 'deep'):
            p = sc.parent_for(t)
            if s == p or p in sc.ancestors_for(s):
                return False
        return True


# ---- statecharts with a past: used, then restructured through the editing API, then used again ----
MUTABLES = ('class Cell:\n    _vp_cell = True\n    def __init__(self):\n        self.n = 0'
            '\nbag = []\ncell = Cell()\nstock = {\'items\': []}')
MUTABLES_PLAIN = 'bag = []\nstock = {\'items\': []}'


def add_mutables(rnd, sc, cell=True):
    """Variables bound to mutable objects that the code changes in place (a list; a dict holding a list; with
    `cell`, an instance of a plain class defined by the statechart's own code, which is hashable — and cannot be
    pickled), created by the entry code of the root state, and conditions — true by construction — that compare
    them with what `__old__` shows.  Implementation only: the model has no such values."""
    root = sc.state_for(sc.root)
    root.on_entry = (MUTABLES if cell else MUTABLES_PLAIN) + ('\n' + root.on_entry if root.on_entry else '')
    posts = ['len(bag) == len(__old__.bag) + 1'] + (['cell.n == __old__.cell.n + 1'] if cell else [])
    invs = ['len(__old__.bag) <= len(bag)', "len(stock['items']) == len(__old__.stock['items'])"] + \
        (['__old__.cell.n <= cell.n'] if cell else [])
    for t in sc.transitions:
        if rnd.random() < 0.6:
            t.action = (t.action or 'pass') + '\nbag.append(x)\nstock[\'items\'].append(x)' + ('\ncell.n += 1' if cell else '')
            t.postconditions.append(rnd.choice(posts))
    for o in [sc.state_for(n) for n in sc.states] + list(sc.transitions):
        if o is not root and rnd.random() < 0.4:
            # (`__old__.stock` is a shallow copy: its list is the live one, whatever was appended since)
            o.invariants.append(rnd.choice(invs))


def construction_faults(specs):
    """which of the transitions [source, target, event, guard, action, priority] do not hold what they are given"""
    out = []
    for spec in specs:
        if spec and spec[0] == 'dup':
            # a statechart given the same transition twice holds two transitions
            _, src, tgt, ev, guard, act, pr = spec
            sc = Statechart('dup')
            sc.add_state(CompoundState('r', initial='a'), None)
            sc.add_state(BasicState('a'), 'r')
            sc.add_state(BasicState('b'), 'r')
            for _ in (0, 1):
                sc.add_transition(Transition('a', None if tgt is None else 'b', event=ev, guard=guard, action=act, priority=pr))
            if len(sc.transitions) != 2:
                out.append('add_transition given Transition(…, event=%r, guard=%r, action=%r, priority=%r) twice (two objects) '
                           'registered %d transition(s)' % (ev, guard, act, pr, len(sc.transitions)))
            continue
        src, tgt, ev, guard, act, pr = spec
        t = Transition(src, tgt, event=ev, guard=guard, action=act, priority=pr)
        got = [t.source, t.target, t.event, t.guard, t.action, t.priority]
        if got != [src, tgt, ev, guard, act, pr]:
            out.append('Transition(%r, %r, event=%r, guard=%r, action=%r, priority=%r) holds %r' % (src, tgt, ev, guard, act, pr, got))
    return out


def warm(sc, light=False):
    """Use a `Statechart` the way a client does before it edits it: ask every structural question
    and run it (`light`: run it only — what is remembered then is about the states the run came across).
    Deterministic; whatever the statechart remembers from this must not matter later."""
    from sismic.interpreter import Interpreter
    from sismic.model import Event
    names = list(sc.states)
    for n in ([] if light else names):
        for q in (sc.depth_for, sc.ancestors_for, sc.descendants_for, sc.children_for, sc.parent_for,
                  sc.transitions_from, sc.transitions_to, sc.state_for):
            try:
                q(n)
            except Exception:       # noqa
                pass
        for m in names[:6]:
            try:
                sc.least_common_ancestor(n, m)
            except Exception:       # noqa
                pass
    for q in (() if light else (sc.events_for, lambda: sc.transitions, lambda: sc.root, lambda: sc.leaf_for(names))):
        try:
            q()
        except Exception:           # noqa
            pass
    try:
        it = Interpreter(sc)
        for e in EVENTS:
            it.queue(Event(e, v=0, b=False))
        it.execute(max_steps=12)
    except Exception:               # noqa
        pass


def apply_edits(sc, edits, check=False):
    from sismic.exceptions import StatechartError
    for e in edits:
        try:
            if e[0] == 'move':
                sc.move_state(e[1], e[2])
            elif e[0] == 'rename':
                sc.rename_state(e[1], e[2])
            elif e[0] == 'remove':
                sc.remove_state(e[1])
            elif e[0] == 'addstate':
                sc.add_state(BasicState(e[1]), e[2])
            elif e[0] == 'addtrans':
                sc.add_transition(Transition(e[1], e[2], event=e[3], priority=e[4]))
            elif e[0] == 'initial':
                sc.state_for(e[1]).initial = e[2]
            elif e[0] == 'memory':
                sc.state_for(e[1]).memory = e[2]
            elif e[0] == 'rotate':
                # (the transition is named by its place in the list of transitions at that moment)
                t = sc.transitions[e[1]]
                kw = {}
                if e[2] is not None:
                    kw['new_source'] = e[2]
                if e[3] != '<keep>':
                    kw['new_target'] = e[3]
                sc.rotate_transition(t, **kw)
        except StatechartError:
            pass
        except Exception as x:      # noqa
            # an editing operation raises StatechartError or nothing: anything else is remembered on the statechart
            # (and reported by the oracle of whatever property runs it)
            if not getattr(sc, '_vp_edit_error', None):
                sc._vp_edit_error = '%s raised %s: %s' % (e, type(x).__name__, str(x)[:120])
    if check and not getattr(sc, '_vp_edit_error', None):
        # (a whole history applied again, as when a case is replayed)
        bad = inconsistent(sc)
        if bad:
            sc._vp_edit_error = 'after %s: %s' % (edits, bad)


def inconsistent(sc):
    """None, or what is wrong between parent_for, children_for and the queries derived from them"""
    try:
        for x in sc.states:
            p = sc.parent_for(x)
            if p is None:
                if x != sc.root:
                    return '%r has no parent and is not the root' % x
            elif x not in sc.children_for(p):
                return 'parent_for(%r) is %r but children_for(%r) is %r' % (x, p, p, sc.children_for(p))
            for c in sc.children_for(x):
                if sc.parent_for(c) != x:
                    return 'children_for(%r) holds %r whose parent_for is %r' % (x, c, sc.parent_for(c))
        # the derived queries say what parent_for / children_for imply (whatever the statechart remembers of its past):
        # ancestors_for = the chain of parents, nearest first; depth_for = its length (+ the root's); descendants_for =
        # everything below (in whatever order)
        names = list(sc.states)
        chain = {}
        for x in names:
            c, p, n = [], sc.parent_for(x), 0
            while p is not None and n <= len(names):
                c.append(p)
                p = sc.parent_for(p)
                n += 1
            if n > len(names):
                return 'the parents of %r form a cycle' % x
            chain[x] = c
        for x in names:
            if list(sc.ancestors_for(x)) != chain[x]:
                return 'ancestors_for(%r) is %r, the chain of parent_for is %r' % (x, sc.ancestors_for(x), chain[x])
            # (relative to the root's: what the orders of the interpreter rely on, whatever number the root is given)
            if sc.root is not None and sc.depth_for(x) - sc.depth_for(sc.root) != len(chain[x]):
                return 'depth_for(%r) is %r with ancestors %r (the root has depth %r)' % (x, sc.depth_for(x), chain[x], sc.depth_for(sc.root))
        for x in names:
            d = list(sc.descendants_for(x))
            below = [y for y in names if x in chain[y]]
            if sorted(d) != sorted(below):
                return 'descendants_for(%r) is %r, the states below it are %r' % (x, d, below)
    except Exception as e:      # noqa
        return 'a structural query raised %s: %s' % (type(e).__name__, str(e)[:100])
    return None


def plan_edits(r, sc, need_wf=True):
    """One to three restructuring edits of `sc` (applied in place through the API), followed by the
    assignments of `initial` / `memory` a client makes to keep the chart meaningful.  Returns the
    list of edits, or None when the result does not validate."""
    from sismic.exceptions import StatechartError
    edits = []

    def do(e):
        edits.append(e)
        apply_edits(sc, [e])

    def owners_ok(n):
        return isinstance(sc.state_for(n), (BasicState, CompoundState, OrthogonalState)) and \
            not isinstance(sc.state_for(n), FinalState)

    for _ in range(r.choice([1, 1, 2, 3])):
        names = [n for n in sc.states if n != sc.root]
        if not names:
            break
        c = r.random()
        if c < 0.5:
            # prefer moving a state that has something below it
            deep = [n for n in names if sc.children_for(n)]
            a = r.choice(deep) if deep and r.random() < 0.7 else r.choice(names)
            if isinstance(sc.state_for(a), (ShallowHistoryState, DeepHistoryState)):
                continue
            banned = set([a] + sc.descendants_for(a))
            cands = [b for b in sc.states if b not in banned and b != sc.parent_for(a) and
                     (isinstance(sc.state_for(b), CompoundState) or
                      (isinstance(sc.state_for(b), OrthogonalState) and owners_ok(a)))]
            if not cands:
                continue
            # (half of the time as far down as it can go: what moved is then deeper than it ever was)
            b = max(sorted(cands), key=sc.depth_for) if r.random() < 0.5 else r.choice(cands)
            do(['move', a, b])
            if r.random() < 0.7 and (owners_ok(a) or any(owners_ok(x) for x in sc.descendants_for(a))):
                # the moved state and one of its new ancestors react to the same event
                up = [x for x in [b] + sc.ancestors_for(b) if owners_ok(x)]
                if up:
                    ev = r.choice(EVENTS)
                    pr = r.choice([0, 0, 1, -1])
                    # (or a state further down in what moved: it moved just as much)
                    below = [x for x in sc.descendants_for(a) if owners_ok(x)]
                    d = r.choice(below) if below and (r.random() < 0.6 or not owners_ok(a)) else a
                    do(['addtrans', d, d, ev, pr])
                    do(['addtrans', up[0] if r.random() < 0.5 else r.choice(up), None if r.random() < 0.3 else a, ev, pr])
        elif c < 0.63:
            # a transition gets another source (and perhaps another target)
            ts = sc.transitions
            srcs = [n for n in sc.states if owners_ok(n)]
            if not ts or not srcs:
                continue
            i = r.randrange(len(ts))
            src = r.choice(srcs)
            if src == ts[i].source:
                continue
            tg = '<keep>' if r.random() < 0.6 else r.choice([None] + [n for n in sc.states if n != sc.root])
            do(['rotate', i, src, tg])
        elif c < 0.8:
            # (the root state can be renamed like any other; by preference a state with something below it)
            deep = [n for n in names if sc.children_for(n)]
            a = r.choice(deep) if deep and r.random() < 0.6 else r.choice(names + [sc.root])
            # a new name that sorts elsewhere than the old one
            new = r.choice(['a', 'm', 'z']) + a + r.choice(['', 'x'])
            if new in sc.states:
                continue
            do(['rename', a, new])
        else:
            leaves = [n for n in names if not sc.children_for(n)]
            if leaves:
                x = r.choice(leaves)
                was_basic = type(sc.state_for(x)) is BasicState
                old_parent = sc.parent_for(x)
                do(['remove', x])
                if was_basic and r.random() < 0.7:
                    # the name comes back somewhere else: a new state called the same under another parent, and a
                    # way to reach it (whatever was remembered about the old bearer of the name is about nobody now)
                    cands = [b for b in sc.states if b != old_parent and isinstance(sc.state_for(b), CompoundState)]
                    srcs = [n for n in sc.states if owners_ok(n)]
                    if cands and srcs:
                        do(['addstate', x, r.choice(cands)])
                        do(['addtrans', sc.root if (owners_ok(sc.root) and r.random() < 0.5) else r.choice(srcs), x, r.choice(EVENTS),
                            r.choice([0, 0, 1])])
    if not edits:
        return None
    # whatever was edited, parents and children still agree (asked through the public queries)
    bad = inconsistent(sc)
    if bad:
        if not getattr(sc, '_vp_edit_error', None):
            sc._vp_edit_error = 'after %s: %s' % (edits, bad)
        return edits
    # what the edits reset, a client sets again
    for n in list(sc.states):
        st = sc.state_for(n)
        if isinstance(st, CompoundState):
            kids = [k for k in sc.children_for(n)]
            plain = [k for k in kids if not isinstance(sc.state_for(k), (ShallowHistoryState, DeepHistoryState))]
            if (st.initial is None or st.initial not in kids) and plain:
                do(['initial', n, r.choice(plain)])
        if isinstance(st, (ShallowHistoryState, DeepHistoryState)):
            sibs = [k for k in sc.children_for(sc.parent_for(n)) if k != n and
                    not isinstance(sc.state_for(k), (ShallowHistoryState, DeepHistoryState))]
            if (st.memory is None or st.memory not in sibs) and sibs:
                do(['memory', n, r.choice(sibs)])
    try:
        sc.validate()
    except StatechartError:
        return None
    if need_wf:
        from . import oracles
        from .encode import ChartEnc
        if not oracles.wf_json(ChartEnc(sc).json):
            return None
    return edits


def scale_chart(r):
    """Statecharts of another size than the random ones: very deep, very wide, or with a large mostly inactive
    subtree — well-formed, with code of the modelled subset; names whose lexical order is not their numeric order.
    Returns (statechart, history for interpreter 0)."""
    kind = r.choice(['deep', 'wide', 'bushy'])
    sc = Statechart('scale-' + kind, preamble='x = 0\ny = 0\nseen = -1\nlast = -1')
    sc.add_state(CompoundState('root', initial='home'), None)
    sc.add_state(BasicState('home', on_entry='y += 1'), 'root')
    evs = []
    if kind == 'deep':
        depth = r.choice([35, 70, 100])
        par = 'root'
        for i in range(1, depth + 1):
            n = 'l%d' % i
            sc.add_state(CompoundState(n, on_entry='x += 1', on_exit='x -= 1'), par)
            if par != 'root':
                sc.state_for(par).initial = n
            par = n
        sc.add_state(BasicState('a', on_entry='y += 1'), par)
        sc.add_state(BasicState('b', on_exit='y += 2'), par)
        sc.state_for(par).initial = 'a'
        sc.add_transition(Transition('home', 'l1', event='e'))
        sc.add_transition(Transition('home', 'b', event='g'))
        sc.add_transition(Transition('a', 'b', event='e', action='seen = x'))
        sc.add_transition(Transition('b', 'a', event='f'))
        sc.add_transition(Transition('b', 'home', event='g', action='last = x'))
        # (far ancestors of the leaves react to the same events: the innermost enabled transition pre-empts them)
        sc.add_transition(Transition('l1', 'home', event='e', action='last = 77'))
        sc.add_transition(Transition('l2', 'home', event='f', action='last = 78'))
        sc.add_transition(Transition('l%d' % r.randint(2, depth), 'home', event='f', guard='y > 1000'))
        mid = 'l%d' % r.randint(2, depth - 1)
        sc.add_transition(Transition(mid, mid, event='g', guard='x > 1000'))
        # a deep history state at the top of the chain: what was active all the way down comes back, parents first
        sc.add_state(DeepHistoryState('dh', memory='l2'), 'l1')
        sc.add_transition(Transition('home', 'dh', event='h'))
        evs = r.choice([['e', 'e', 'f', 'e', 'g', 'g', 'f', 'e'], ['e', 'e', 'g', 'h', 'f', 'g', 'h', 'e']])
    elif kind == 'wide':
        n = r.choice([40, 70, 130])
        sc.add_state(CompoundState('W', initial='P'), 'root')
        sc.add_state(ShallowHistoryState('wh', memory='P'), 'W')
        sc.add_state(OrthogonalState('P', on_entry='x += 1'), 'W')
        for i in range(n):
            reg = 'r%d' % i
            sc.add_state(CompoundState(reg, initial='a%d' % i), 'P')
            sc.add_state(BasicState('a%d' % i, on_entry='x += 1'), reg)
            sc.add_state(BasicState('b%d' % i, on_exit='y += 1'), reg)
            if i % 7 == 0:
                sc.add_transition(Transition('a%d' % i, 'b%d' % i, event='e', action='seen = x'))
                sc.add_transition(Transition('b%d' % i, 'a%d' % i, event='f'))
        sc.add_transition(Transition('home', 'P', event='e'))
        sc.add_transition(Transition('home', 'b%d' % r.randrange(n), event='g'))
        sc.add_transition(Transition('P', 'home', event='g', action='last = y'))
        sc.add_transition(Transition('home', 'wh', event='h'))
        evs = r.choice([['e', 'e', 'f', 'g', 'g', 'e', 'g'], ['e', 'e', 'g', 'h', 'f', 'g', 'h']])
    else:
        n = r.choice([30, 60, 120])
        sc.add_state(CompoundState('big', initial='O', on_exit='x += 100'), 'root')
        for i in range(n):
            sc.add_state(BasicState('idle%d' % i), 'big')
        sc.add_state(OrthogonalState('O'), 'big')
        for reg in ('right', 'left', 'mid'):
            sc.add_state(CompoundState(reg, initial=reg + '_0', on_exit='y = y * 2 + %d' % len(reg)), 'O')
            sc.add_state(BasicState(reg + '_0', on_exit='x = x * 3 + %d' % len(reg)), reg)
            sc.add_state(BasicState(reg + '_1'), reg)
            sc.add_transition(Transition(reg + '_0', reg + '_1', event='f'))
        sc.add_transition(Transition('home', 'big', event='e'))
        sc.add_transition(Transition('big', 'home', event='g', action='seen = x'))
        sc.add_transition(Transition('left_0', 'idle%d' % r.randrange(n), event='e', action='last = y'))
        evs = ['e', 'g', 'e', 'f', 'g', 'e', 'e', 'g']
    sc.validate()
    ops, t = [['exec', slot_t, 0] for slot_t in (0,)], 0
    ops = [['exec', 0, 0]]
    for e in evs[:r.randint(4, len(evs))]:
        ops.append(['queue', 0, {'ev': e, 'data': [['v', 1], ['b', True]]}])
        t += r.choice([0, 1])
        ops.append(['exec', 0, t])
    return sc, ops


def shift_times(case, off):
    """every clock value of the history moves by `off` (seconds since some epoch, ticks of a fine clock, a value
    with many decimals): time is whatever the clock shows; a float offset makes the case implementation-only"""
    for op in case.payload['ops']:
        if op[0] in ('exec', 'setclock', 'execute', 'execute_real'):
            op[2] = op[2] + off
        elif op[0] == 'create':
            op[4] = op[4] + off
    if isinstance(off, float):
        case.payload['no_model'] = True
        case.model_ok = False
    return case


def queue_many(r, slot, events):
    """the op for `queue(e₁, e₂, …, **parameters)` in one call: some of the events are given by name (they get the
    parameters of the call, a `delay` included), the others as Event instances (they keep their own)"""
    params = [['v', r.randint(0, 4)], ['b', r.random() < 0.5]]
    if r.random() < 0.5:
        params.append(['delay', r.randint(0, 3)])
    form, expanded = [], []
    for e in events:
        if r.random() < 0.5:
            form.append(['name', e['ev']])
            expanded.append({'ev': e['ev'], 'data': [list(p) for p in params]})
        else:
            form.append(['inst', e])
            expanded.append(e)
    if not any(k == 'name' for k, _ in form):
        params = []         # (parameters are for the events given by name)
    return ['queuemany', slot, expanded, [form, params]]


def gen_ops(r, knobs, n_ops, slot=0, t0=0):
    """A history for one interpreter: queue / setvar / exec with a monotone clock."""
    ops = []
    t = t0
    for _ in range(n_ops):
        c = r.random()
        if c < 0.35:
            data = [['v', r.randint(0, 4)], ['b', r.random() < 0.5]]
            if r.random() < 0.2:
                data.append(['delay', r.randint(0, 3)])
            name = r.choice(EVENTS) if r.random() < 0.9 else 'zz'
            if getattr(knobs, 'empty_event', 0) and r.random() < 2 * knobs.empty_event:
                name = ''
            if getattr(knobs, 'clock_moves', 0) and r.random() < knobs.clock_moves:
                # the clock moves between two steps: queue() must use the *interpreter's* time
                t += r.choice([1, 2, 3])
                # (sometimes by giving the interpreter another clock object: its time is the time of its last step all the same)
                ops.append(['setclock', slot, t] + (['new'] if r.random() < 0.2 else []))
            ops.append(['queue', slot, {'ev': name, 'data': data}])
        elif c < 0.45 and knobs.flags:
            ops.append(['setvar', slot, 'v%d' % r.randrange(knobs.flags), r.random() < 0.5])
        elif c < 0.48 and knobs.cflags and knobs.contracts:
            ops.append(['setvar', slot, 'c%d' % r.randrange(knobs.cflags), r.random() < 0.6])
        else:
            if r.random() < 0.4:
                t += r.choice([0, 1, 1, 2, 3])
            ops.append(['exec', slot, t])
    return ops
