"""Regenerates MANIFEST.json from the table below (run by hand: python3 -m harness.manifest_gen)."""
import json
import os

VERIF = os.path.dirname(os.path.dirname(os.path.abspath(__file__)))

CLAIMED = {
    'C01': ('Lean 4 proof (selection = declarative Fires relation, for all charts/configurations/guard valuations) + '
            'differential correspondence model/implementation',
            'Theorems C01.fires_iff / exposure / eventless_preempt about the Lean model of _select_transitions hold for '
            'every tree-shaped chart, every set of active states, every pending event and every guard valuation; the model '
            'is tied to /repo by running both on generated charts and histories and comparing fired transitions, guard-call '
            'logs, consumed events and configurations; the Fires relation is also re-evaluated on the implementation.',
            '§6 C01'),
}

PENDING_REASON = 'check not built yet in this round (planned: Lean model + theorem + correspondence, see DESIGN.md §6)'


def main():
    props = [json.loads(l) for l in open(os.path.join(VERIF, 'properties.jsonl'))]
    checks = []
    na = []
    for p in props:
        pid = p['id']
        if pid in CLAIMED:
            tech, text, ref = CLAIMED[pid]
            checks.append({
                'property_id': pid,
                'quick_cmd': './check %s --tier quick' % pid,
                'thorough_cmd': './check %s --tier thorough' % pid,
                'evidence_file': 'evidence/%s.json' % pid,
                'replay_cmd_template': './check %s --replay {path}' % pid,
                'engine': 'lean-model+correspondence',
                'level_claimed': {'category': 'proof', 'text': text, 'design_ref': ref},
                'level_note': ('Trusted: Lean 4.33 kernel; axioms propext, Classical.choice, Quot.sound (audited per theorem on '
                               'every run); the Python correspondence harness and its generators; code fragments are interpreted '
                               'by a model of a Python subset. The theorem is about the hand-written model; the tie is testing.'),
                'technique': tech,
            })
        else:
            na.append({'property_id': pid, 'reason': PENDING_REASON})
    m = {
        'version': 1,
        'setup_cmd': './setup.sh',
        'hooks': {'guard': 'SISMIC_VERIF', 'enable': 'no source hooks: probes use public extension points (evaluator_klass, attach, bind, initial_context, clock)',
                  'baseline_off_cmd': 'cd /repo && /venv/bin/python -m pytest -ra -q -p no:cacheprovider --timeout=900 --continue-on-collection-errors',
                  'source_commits': [], 'add_only': True},
        'engines': [{'name': 'lean-model+correspondence', 'path': 'lean/ harness/',
                     'serves_properties': sorted(CLAIMED),
                     'kind_free_text': 'Lean 4 model + theorems (lean/Sismic), native model driver, Python differential harness against /repo'}],
        'checks': checks,
        'not_applicable': na,
        'notes': 'See DESIGN.md. known_findings.json lists fixed/open findings.',
    }
    with open(os.path.join(VERIF, 'MANIFEST.json'), 'w') as f:
        json.dump(m, f, indent=1)
    print('claimed', len(checks), 'pending', len(na))


if __name__ == '__main__':
    main()
