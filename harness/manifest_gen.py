"""Regenerates MANIFEST.json from the table below (run by hand: python3 -m harness.manifest_gen)."""
import json
import os

VERIF = os.path.dirname(os.path.dirname(os.path.abspath(__file__)))

TIE = ('The model is hand-written; it is tied to /repo on every run by executing the same generated inputs on the '
       'implementation (in-process) and on the native Lean driver and comparing every observation; an independent '
       'spec-level oracle is also evaluated on the implementation.')

CLAIMED = {
    'C01': ('Lean 4 proof: _select_transitions = declarative Fires relation (all charts, configurations, guard valuations) + differential correspondence',
            'C01.fires_iff / exposure / eventless_preempt / no_event_only_eventless hold for every tree-shaped chart, every set of '
            'active states, every pending event and every guard valuation. ' + TIE, '§6 C01'),
    'C02': ('Lean 4 proof: legality is an inductive invariant of execute_once (semi-legal configurations preserved by every micro step, history-memory invariant, separation of simultaneously fired transitions, semi-legal + stable ⇒ legal) for well-formed charts decided by wfB; legalB/wfB compared in the correspondence',
            'legal_always / legal_preserved: for every WFChart (W1–W8, decided by wfB, proved sound, evaluated on every generated chart and compared with an '
            'independent Python implementation), every evaluator and listener and every call that returns — initialisation, event without transition, one '
            'transition whatever its source/target (nested in orthogonal regions, history, ancestors, self-loops, root) or several transitions at once — the '
            'invariant "configuration empty or Legal, history memory re-enterable" is preserved, hence holds in every reachable state; legal_initially; '
            'stable_after_step; idle_keeps_configuration; final_stays_empty; legalB_sound. The tie evaluates legalB on model and implementation after every step '
            'of every generated run (this is how defect D1 was found). ' + TIE, '§6 C02'),
    'C03': ('Lean 4 proof: executeOnce_ok refinement (exact effect log = replay of the returned trace, run-to-completion) + correspondence',
            'For every chart, evaluator and history: the code executed during a call that returns is exactly the replay of the returned micro steps '
            '(exit code innermost first, action, entry code outermost first, then stabilisation) and configuration/memory are the trace applied to '
            'the old ones (code_ran_is_replay, configuration_is_trace_applied, run_to_completion, nothing_ran). ' + TIE, '§6 C03'),
    'C04': ('Lean 4 proof: _sort_transitions error classes characterised (iff) + nothing happens on error (error-origin theorem) + correspondence',
            'nonDeterminism_iff / conflicting_iff / no_error_iff characterise the outcome of the check for every chart and selected set; '
            'nothing_happens: when it raises, no code ran and configuration, memory and queues are untouched. ' + TIE, '§6 C04'),
    'C05': ('Lean 4 proof: queue insertion/selection laws (sortedness invariant, FIFO among equal due times, internal first, never early/late) + correspondence',
            'insert_keeps_order, insert_position, insert_exactly_once, head_is_due_first, selection_rule, consumption_removes_exactly_one, '
            'due_event_is_selected: for all queues, times and events; step_conserves_events (every outcome of execute_once: queues stay ordered, '
            'at most one due entry consumed, internal queue after + consumed = before + one entry per event in _sent_events) and '
            'history_conserves_events (every interleaving of queue() and execute_once on a closed interpreter: nothing lost, duplicated or invented), '
            'for listeners that do not raise. ' + TIE, '§6 C05'),
    'C06': ('Lean 4 proof: history memory written by exits only, restore step = recorded memory sorted parents-first, via the refinement theorem + correspondence',
            'restore_step, restored_exactly_parents_first, exit_records_shallow/deep, record_kept(_steps), run_applies_the_steps, idle_keeps_memory: '
            'for every chart, configuration, memory and micro-step sequence. ' + TIE, '§6 C06'),
    'C07': ('Lean 4 proof: two-run theorem — interpreters on statecharts that differ in declaration order only run in lock-step (relational Hoare logic over execute_once on top of the invariance of every tree query, selection and sorting) + permutation/hash-seed correspondence',
            'declaration_order_free(_run): for every WFChart, every permutation of its sibling-state and transition declaration order (ChartPerm), every evaluator that '
            'does not read the history memory (MemBlind; proved for the modelled PythonEvaluator), every listener and every history, the two interpreters return the '
            'same macro steps (consumed events, transitions, exit/entry order, sent events) and reach states with equal configuration, queues, times, contexts, '
            'outside world and history memories equal as maps, or fail with the same exception at the same step; selection_order_free, processing_order_free, '
            '*_order_free. Not compared: the order of guard evaluations inside one priority class. Hash-seed independence (set iteration) cannot be stated in the '
            'model, where sets are lists ordered as the code orders them: the tie runs permuted twins and several PYTHONHASHSEEDs. ' + TIE, '§6 C07'),
    'C08': ('Lean 4 proof: contract evaluation points from the exact effect log; failure is the last effect (error-origin theorem) + correspondence',
            'evaluated_at_documented_points (the cond entries of the log are exactly the documented points interleaved with the code), '
            'invariants_even_without_step, pre/post/invariant_failure_is_immediate; for the modelled PythonEvaluator: shown_old_is_the_entry, '
            'old_is_the_start_of_the_transition, old_is_the_entry_of_the_state (the store entry of an object holds the variables as they were when '
            'its processing began), evaluating_conditions_changes_nothing and old_changes_only_when_entered (over any number of calls, returning or '
            'raising, an entry changes only when the log shows the object entered / processed). ' + TIE, '§6 C08'),
    'C09': ('Lean 4 proof: two-run simulation (the contract-ignoring run follows the checking run step by step through all of execute_once) + relational frame: nothing evaluated, no ContractError when ignoring + correspondence',
            'ignoring_simulates_checking(_run): for every evaluator whose guards and code are blind to a relation eqv (for PythonEvaluator: equal up to the frozen '
            '__old__ contexts) and every run in which no condition fails or errs, the run ignoring contracts returns the same macro steps and reaches states with '
            'equal configuration, memory, queues, times, sent events, outside world, eqv-related contexts and the same log minus the condition evaluations; '
            'python_evaluator_transparent (the blindness hypothesis is proved for the modelled PythonEvaluator); no_evaluation_when_ignored, '
            'no_contract_error_when_ignored, log_differs_only_by_evaluations for all outcomes. The tie runs every history under both settings. ' + TIE, '§6 C09'),
    'C10': ('Lean 4 proof: meta-event stream derived from the exact log; fail-fast via error-origin theorem + correspondence with real property statecharts',
            'meta_stream / meta_stream_none (documented meta-events in the order things happened), property_failure_is_immediate, '
            'listeners_see_step_time. ' + TIE, '§6 C10'),
    'C11': ('Lean 4 proof: import∘export = id on every transition, state and contract (dict level) + correspondence through the real YAML text layer — partial',
            'transition_roundtrip(_eq), state_roundtrip (all six kinds, with or without children), contract_roundtrip for elements with stripped non-empty code; '
            'document_roundtrip (import_from_dict(export_to_dict(c)) = add_state/add_transition over exactly the lists flatS/flatT read back by the work list, '
            'by induction on the tree), nothing_foreign_registered, nothing_forgotten, and roundtrip_succeeds_and_is_lossless: for every well-formed chart the import of '
            'the export returns a chart (every add_state, add_transition and validate() accept) in which every state / parent / children lookup gives what it '
            'gives in the original and whose transitions are the original ones but for their identities, up to order. '
            'reimported_statechart_behaves_identically: run by the modelled PythonEvaluator from a fresh state with the same listeners, the re-imported '
            'chart produces for every input history the same macro steps but for the identities of the transitions and the same exception at the same call '
            '(relabelling theorem of C17 with rho = id, then C07). '
            'PARTIAL: the YAML text layer (ruamel, schema coercions, schemaValidate on exported documents) is covered by the tie only; open findings K4, K5. ' + TIE, '§6 C11'),
    'C12': ('Lean 4 proof: accepted ⇒ structurally sound (invariant of add_state/add_transition/validate over the import fold); never another exception type (schema-shape lemma + work-list fuel bound) + fault-injection correspondence',
            'accepted_is_sound (unique names, one tree, parents composite and registered first, history under compound, transitions anchored, '
            'validate), initial_is_direct_child, memory_is_other_sibling, all_registered, never_another_exception (for EVERY loaded document the '
            'outcome is a statechart or StatechartError), schema_violation_is_statechart_error, unknown_key_rejected, both_child_kinds_rejected, '
            'state_errors_are_statechart_errors. The YAML text layer (ruamel load) and the schema library are modelled by their semantics on the '
            'shapes SCHEMA uses. ' + TIE, '§6 C12'),
    'C13': ('Lean 4 proof: time frame relation over execute_once (time = sampled clock value throughout, carried by step started / MacroStep / queue) + correspondence',
            'time_is_the_sampled_value, macrostep_time, step_started_carries_it, queue_keeps_time for all outcomes; after/idle_semantics, guard_sees, '
            'entry_records_times; times_written_only_by_steps (every outcome: a recorded entry/idle time changes only to the step time; a state active '
            'afterwards kept its entry time or got the step time) and active_states_have_entry_time over every history. ' + TIE, '§6 C13'),
    'C14': ('Lean 4 proof over an ordered field (Mathlib): SimulatedClock time is monotone, exact, frozen when stopped + correspondence over rationals',
            'monotone, step_never_backwards, reject, assign_exact, stopped_still, rate, stop_freezes for every op sequence; the tie drives '
            'SimulatedClock with a scripted time source and compares exact rationals. Wall-clock reading itself is outside the model.', '§6 C14'),
    'C15': ('Lean 4 proof: recording-world frame relation (each listener, each meta-event, once, in order, all outcomes); bind forwards exactly event sent + correspondence',
            'announced_are_the_sent_events, deliveries_once_in_order, detached_gets_nothing, sent_is_queued_internally, bind_forwards_to_callable/'
            'interpreter, forwarded_payload. ' + TIE, '§6 C15'),
    'C16': ('Lean 4 proof: every failed edit returns the chart unchanged (atomicity), effects of successful edits, transitions stay anchored + correspondence on edit scripts',
            'add/remove/rename/move/rotate *_atomic, *_effect, transitions_stay_anchored_* for all seven operations, '
            'any_edit_session_keeps_transitions_anchored (every sequence of edits, succeeding or raising), built_charts_have_anchored_transitions; '
            'dictionaries_stay_consistent_* and any_edit_session_keeps_dictionaries_consistent (_states/_parent/_children: unique keys = the states, '
            'x in children(p) iff parent(x) = p, no repetition, one root, no self-parent — for all seven operations incl. the recursive remove_state, '
            'any session, any chart built by the API); no_reference_dangles_after_* / any_edit_session_leaves_no_dangling_reference (initial/memory name existing '
            'states); validate_means (validate() on a consistent chart = every initial a child, every memory a sibling) and validate_passes_after_remove/_move/'
            '_rename/_add, any_edit_session_keeps_validate_passing (states added without initial/memory), validate_after_add_iff (after add_state validate() passes iff the new state arrives without initial and with no memory or one that is a child of the same parent) and any_fitting_edit_session_keeps_validate_passing; still_a_tree_after_* / any_edit_session_keeps_the_tree / '
            'built_charts_are_trees (the parent relation stays acyclic: move_state re-hangs a subtree outside itself because descendants_for is complete on a '
            'consistent acyclic chart); remove_state_removes_exactly_the_subtree (the states outside the subtree of n keep their parents, the transitions '
            'outside it stay in order, everything else is gone); edited_well_formed_statecharts_stay_sound (all of it at once for any edit session of a well-formed chart). ' + TIE, '§6 C16'),
    'C17': ('Lean 4 proof: rename substitutes exactly the transition ends, keeps internal transitions internal, is atomic + guest/copy correspondence',
            'rename_substitutes_transition_ends, rename_keeps_internal, rename_to_itself, rename_atomic; rename_is_substitution (the renamed chart is '
            'the chart with the name substituted everywhere, up to declaration order) and renamed_behaves_as_substituted (by C07: same runs); '
            'selection_/ordering_/steps_/stabilisation_commute(s)_with_renaming: for every renaming injective and order-preserving on the names the '
            'chart mentions, transition selection (with its guard calls), _sort_transitions, _create_steps and _create_stabilization_step give the '
            'substituted result on the substituted chart; renaming_commutes_with_execute_once / _with_execution: for evaluators and listeners that '
            'cannot tell the names apart (EnvR), execute_once and whole runs on the relabelled chart give the relabelled macro steps or the same '
            'exception about the relabelled object, for every outcome; rename_state_preserves_behaviour (with rename_is_substitution and C07). '
            'python_runs_commute_with_renaming / rename_state_preserves_python_behaviour: the modelled PythonEvaluator (total functions) meets EnvR '
            'for every admissible relabelling when no code of the statechart calls active() (functional induction over the evaluator). '
            'PARTIAL: copy_from_statechart is checked by the tie (lock-step runs), not proved. ' + TIE, '§6 C17'),
    'C18': ('Lean 4 proof: the interpreter is a value — runs compose at every boundary, an unobserved interpreter touches nothing else; snapshot identity decided by correspondence — partial',
            'run_composes, unobserved_step_is_local, unobserved_run_is_local (frame relation over execute_once). PARTIAL by nature: that pickle/deepcopy '
            'preserve the abstraction function is a fact about the implementation only; the tie replaces the interpreter by its pickled/deep-copied '
            'copy at (thorough: every) macro-step boundary and compares it, its untouched twin and the model at every later observation. ' + TIE, '§6 C18'),
    'C19': ('Lean 4 proof: BDD step verdict ⇔ asserted fact over the monitored trace; block structure of when/then/given + correspondence through real behave runs',
            'verdict_iff_fact, then_before_when, then_only_closes_block, when_extends_or_starts_block, given_is_unmonitored, fact_entered, '
            'fact_fired_final, first_failure_skips. ' + TIE, '§6 C19'),
    'C20': ('Lean 4 proof: runner state machine invariants over all schedules (every executed step reported once, hooks once, pause bounds, stop progresses, events once in order) + scheduled-thread correspondence',
            'reported_plus_inflight_is_executed, every_step_reported_once, one_step_per_cycle, hooks_once, pause_bounds_cycles, stop_always_progresses, '
            'nothing_after_done, events_exactly_once_in_order for every interleaving of the modelled runner/client actions. PARTIAL: real thread '
            'scheduling and sleep timing cannot be exhibited by the model; the tie drives AsyncRunner through a deterministic schedule. Open finding K2. ' + TIE, '§6 C20'),
}

PENDING_REASON = 'check not built yet in this round (planned: Lean model + theorem + correspondence, see DESIGN.md §6)'


def main():
    props = [json.loads(l) for l in open(os.path.join(VERIF, 'properties.jsonl'))]
    checks = []
    na = []
    for p in props:
        pid = p['id']
        if pid in CLAIMED:
            tech, text, ref = CLAIMED[pid]
            checks.append({
                'property_id': pid,
                'quick_cmd': './check %s --tier quick' % pid,
                'thorough_cmd': './check %s --tier thorough' % pid,
                'evidence_file': 'evidence/%s.json' % pid,
                'replay_cmd_template': './check %s --replay {path}' % pid,
                'engine': 'lean-model+correspondence',
                'level_claimed': {'category': 'proof', 'text': text, 'design_ref': ref},
                'level_note': ('Trusted: Lean 4.33 kernel; axioms propext, Classical.choice, Quot.sound (audited per theorem on '
                               'every run); the Python correspondence harness and its generators; code fragments are interpreted '
                               'by a model of a Python subset. The theorem is about the hand-written model; the tie is testing.'),
                'technique': tech,
            })
        else:
            na.append({'property_id': pid, 'reason': PENDING_REASON})
    m = {
        'version': 1,
        'setup_cmd': './setup.sh',
        'hooks': {'guard': 'SISMIC_VERIF', 'enable': 'no source hooks: probes use public extension points (evaluator_klass, attach, bind, initial_context, clock)',
                  'baseline_off_cmd': 'cd /repo && /venv/bin/python -m pytest -ra -q -p no:cacheprovider --timeout=900 --continue-on-collection-errors',
                  'source_commits': [], 'add_only': True},
        'engines': [{'name': 'lean-model+correspondence', 'path': 'lean/ harness/',
                     'serves_properties': sorted(CLAIMED),
                     'kind_free_text': 'Lean 4 model + theorems (lean/Sismic), native model driver, Python differential harness against /repo'}],
        'checks': checks,
        'not_applicable': na,
        'notes': 'See DESIGN.md. known_findings.json lists fixed/open findings.',
    }
    with open(os.path.join(VERIF, 'MANIFEST.json'), 'w') as f:
        json.dump(m, f, indent=1)
    print('claimed', len(checks), 'pending', len(na))


if __name__ == '__main__':
    main()
