"""Encoding of sismic objects for the model driver (line protocol, see lean/Sismic/Json.lean).

Code fragments are never re-rendered: the very strings given to sismic are parsed with Python's
own `ast` and shipped as JSON.  Anything outside the modelled subset is marked `unsupported`
(the case is then run on the implementation only and counted as such)."""
import ast
from sismic.model import (BasicState, CompoundState, OrthogonalState, ShallowHistoryState,
                          DeepHistoryState, FinalState, Event, InternalEvent, MetaEvent)

KNOWN_FUNCS = {'active': (1, False), 'after': (1, False), 'idle': (1, False), 'sent': (1, False),
               'received': (1, False), 'send': (1, True), 'notify': (1, True),
               'setdefault': (2, False), 'abs': (1, False), 'min': (2, False), 'max': (2, False)}
BINOPS = {ast.Add: 'add', ast.Sub: 'sub', ast.Mult: 'mul', ast.FloorDiv: 'floordiv', ast.Mod: 'mod'}
CMPOPS = {ast.Eq: 'eq', ast.NotEq: 'ne', ast.Lt: 'lt', ast.LtE: 'le', ast.Gt: 'gt', ast.GtE: 'ge'}


class Unsupported(Exception):
    pass


def enc_val(v, floats=False):
    if v is None or isinstance(v, (bool, str)):
        return v
    if isinstance(v, int):
        return v
    if floats and isinstance(v, float):
        return v        # (times finer than the integers of the model, in observations of implementation-only cases)
    if isinstance(v, Event):
        return enc_event(v)
    if isinstance(v, list):
        return {'list': [enc_val(x) for x in v]}
    if getattr(type(v), '_vp_cell', False):
        # a hashable, mutable user object (created by the preamble of some generated charts)
        return {'cell': enc_val(v.n)}
    raise Unsupported('value %r' % (v,))


def enc_event(e):
    if e is None:
        return None
    return {'ev': e.name, 'data': [[k, enc_val(v, floats=True)] for k, v in e.data.items()]}


def enc_expr(n):
    if isinstance(n, ast.Constant):
        return ['const', enc_val(n.value)]
    if isinstance(n, ast.Name):
        return ['name', n.id]
    if isinstance(n, ast.BinOp) and type(n.op) in BINOPS:
        return ['binop', BINOPS[type(n.op)], enc_expr(n.left), enc_expr(n.right)]
    if isinstance(n, ast.BoolOp):
        return ['and' if isinstance(n.op, ast.And) else 'or', [enc_expr(v) for v in n.values]]
    if isinstance(n, ast.UnaryOp) and isinstance(n.op, ast.Not):
        return ['not', enc_expr(n.operand)]
    if isinstance(n, ast.UnaryOp) and isinstance(n.op, ast.USub):
        return ['neg', enc_expr(n.operand)]
    if isinstance(n, ast.Compare) and all(type(o) in CMPOPS for o in n.ops):
        return ['cmp', enc_expr(n.left),
                [[CMPOPS[type(o)], enc_expr(c)] for o, c in zip(n.ops, n.comparators)]]
    if isinstance(n, ast.Attribute):
        return ['attr', enc_expr(n.value), n.attr]
    if isinstance(n, ast.IfExp):
        return ['ite', enc_expr(n.test), enc_expr(n.body), enc_expr(n.orelse)]
    if isinstance(n, ast.Call) and isinstance(n.func, ast.Name) and n.func.id in KNOWN_FUNCS:
        nargs, kw_ok = KNOWN_FUNCS[n.func.id]
        if len(n.args) != nargs or any(isinstance(a, ast.Starred) for a in n.args):
            raise Unsupported('call arity')
        if n.keywords and not kw_ok:
            raise Unsupported('keywords')
        if any(k.arg is None for k in n.keywords):
            raise Unsupported('**kwargs')
        return ['call', n.func.id, [enc_expr(a) for a in n.args],
                [[k.arg, enc_expr(k.value)] for k in n.keywords]]
    raise Unsupported(ast.dump(n))


def enc_stmt(n):
    if isinstance(n, ast.Assign) and len(n.targets) == 1 and isinstance(n.targets[0], ast.Name):
        return ['assign', n.targets[0].id, enc_expr(n.value)]
    if isinstance(n, ast.AugAssign) and isinstance(n.target, ast.Name) and type(n.op) in BINOPS:
        return ['aug', n.target.id, BINOPS[type(n.op)], enc_expr(n.value)]
    if isinstance(n, ast.Expr):
        return ['expr', enc_expr(n.value)]
    if isinstance(n, ast.Pass):
        return ['pass']
    if isinstance(n, ast.If):
        return ['if', enc_expr(n.test), [enc_stmt(s) for s in n.body], [enc_stmt(s) for s in n.orelse]]
    raise Unsupported(ast.dump(n))


def enc_code(src, mode):
    """mode: 'exec' or 'eval'.  Returns (json, supported)."""
    if src is None:
        return None, True
    try:
        if mode == 'exec':
            tree = ast.parse(src, mode='exec')
            return {'src': src, 'body': [enc_stmt(s) for s in tree.body]}, True
        tree = ast.parse(src, mode='eval')
        return {'src': src, 'expr': enc_expr(tree.body)}, True
    except (Unsupported, SyntaxError, ValueError, RecursionError, MemoryError):
        return {'src': src, 'unsupported': True}, False


def kind_of(st):
    if isinstance(st, CompoundState):
        return 'compound'
    if isinstance(st, OrthogonalState):
        return 'orthogonal'
    if isinstance(st, ShallowHistoryState):
        return 'shallow'
    if isinstance(st, DeepHistoryState):
        return 'deep'
    if isinstance(st, FinalState):
        return 'final'
    if isinstance(st, BasicState):
        return 'basic'
    raise Unsupported('state class %r' % type(st))


class ChartEnc:
    """JSON form of a Statechart; `tid(t)` = identity index of a transition object."""

    def __init__(self, sc):
        self.sc = sc
        self.supported = True
        self.trans = list(sc.transitions)
        states = getattr(sc, '_states', None)
        names = list(states.keys()) if isinstance(states, dict) else list(sc.states)
        parent = getattr(sc, '_parent', None)
        children = getattr(sc, '_children', None)
        js = []
        for n in names:
            st = sc.state_for(n)
            js.append({
                'name': n, 'kind': kind_of(st),
                'initial': getattr(st, 'initial', None), 'memory': getattr(st, 'memory', None),
                'on_entry': self._c(getattr(st, 'on_entry', None), 'exec'),
                'on_exit': self._c(getattr(st, 'on_exit', None), 'exec'),
                'pre': [self._c(c, 'eval') for c in getattr(st, 'preconditions', [])],
                'post': [self._c(c, 'eval') for c in getattr(st, 'postconditions', [])],
                'inv': [self._c(c, 'eval') for c in getattr(st, 'invariants', [])]})
        jt = []
        for i, t in enumerate(self.trans):
            pr = t.priority
            if not isinstance(pr, int) or isinstance(pr, bool):
                self.supported = False
                pr = 0
            jt.append({
                'id': i, 'source': t.source, 'target': t.target, 'event': t.event,
                'guard': self._c(t.guard, 'eval'), 'action': self._c(t.action, 'exec'),
                'priority': pr,
                'pre': [self._c(c, 'eval') for c in t.preconditions],
                'post': [self._c(c, 'eval') for c in t.postconditions],
                'inv': [self._c(c, 'eval') for c in t.invariants]})
        if isinstance(parent, dict):
            jp = [[k, v] for k, v in parent.items()]
        else:
            jp = [[n, sc.parent_for(n)] for n in names]
        if isinstance(children, dict):
            jc = [[k, list(v)] for k, v in children.items()]
        else:
            jc = [[None, [sc.root] if sc.root else []]] + [[n, list(sc.children_for(n))] for n in names]
        self.json = {'name': sc.name, 'description': sc.description,
                     'preamble': self._c(sc.preamble, 'exec'),
                     'states': js, 'parent': jp, 'children': jc, 'transitions': jt}

    def _c(self, src, mode):
        j, ok = enc_code(src, mode)
        if not ok:
            self.supported = False
        return j

    def tid(self, t):
        for i, u in enumerate(self.trans):
            if u is t:
                return i
        for i, u in enumerate(self.trans):   # copies (pickle / deepcopy): fall back to value
            if u == t:
                return i
        return -1
