import random, sys, json
from harness import gen, impl, engine
from harness.encode import ChartEnc

def one(seed, knobs):
    r = random.Random(seed)
    g = gen.ChartGen(r, knobs)
    sc = g.build()
    enc = ChartEnc(sc)
    ops = [['create', 0, False, [], 0]] + gen.gen_ops(r, knobs, 30)
    case = {'kind': 'interp', 'charts': [enc.json], 'ops': ops}
    return case, [sc], enc

if __name__ == '__main__':
    import sismic
    print(sismic.__file__)
    d = engine.Driver()
    bad = 0
    n = int(sys.argv[2])
    contracts = float(sys.argv[3]) if len(sys.argv) > 3 else 0.0
    for seed in range(int(sys.argv[1]), int(sys.argv[1]) + n):
        case, charts, enc = one(seed, gen.Knobs(contracts=contracts))
        if not enc.supported:
            print('unsupported', seed); continue
        io, w = impl.run_case(case, charts)
        mo = d.ask(case)
        df = engine.diff(io, mo)
        if df:
            bad += 1
            print(seed, df)
            if bad <= 1:
                json.dump(case, open('/tmp/case_%d.json' % seed, 'w'))
    print('bad', bad, 'of', n)
