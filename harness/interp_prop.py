"""Base class of the properties decided on the interpreter model (`interp` protocol cases)."""
import copy
import json

from . import gen, impl, oracles
from .decode import chart_from_json
from .encode import ChartEnc
from .framework import Case, Prop


class Ghost:
    """Specification-level bookkeeping along one run of interpreter 0, from observations only:
    pending tickets (C05), last-entry / last-fire times (C13), last exit snapshots (C06)."""

    def __init__(self):
        self.seq = 0
        self.tickets = []        # dict(seq, internal, due, ev)
        self.entered_at = {}
        self.idle_at = {}
        self.last_exit = {}      # compound state -> (children snapshot, descendants snapshot)
        self.initialized = False
        self.clean = True        # no exception (other than nondeterminism/conflict) so far
        self.qclean = True       # the event queues are still predictable (they are across exceptions: what was
                                 # consumed and what was sent before the exception was announced)
        self.final = False

    def add(self, internal, due, ev):
        self.tickets.append({'seq': self.seq, 'internal': internal, 'due': due, 'ev': ev})
        self.seq += 1

    def next(self, t):
        for cls in (True, False):
            c = [k for k in self.tickets if k['internal'] == cls]
            if c:
                k = min(c, key=lambda k: (k['due'], k['seq']))
                if k['due'] <= t:
                    return k
        return None


def ev_delay(ev):
    for k, v in ev['data']:
        if k == 'delay':
            return int(v)
    return 0


def via_yaml(payload):
    """one history out of eight (decided by a checksum of the case, so that a replay does the same), statecharts
    without an editing past"""
    import zlib
    if 'via_yaml' in payload:
        return bool(payload['via_yaml'])
    if payload.get('history') or payload.get('construction_spec'):
        return False
    for ch in payload.get('charts') or []:
        for t in ch.get('transitions', []):
            ev = t.get('event')
            if ev is not None and (ev == '' or ev != ev.strip()):
                # (an event name that is empty or has surrounding blanks does not survive the YAML format: known
                #  finding K4 of C11)
                return False
    return zlib.crc32(json.dumps([payload.get('charts'), payload.get('ops')], sort_keys=True, default=str).encode()) % 8 == 0


def through_yaml(sc):
    """export_to_yaml then import_from_yaml; the transitions of the result are registered again in the order of the
    original (the order in which transitions are declared carries no meaning, C07; the harness numbers them by it)"""
    from sismic.io import export_to_yaml, import_from_yaml
    sc2 = import_from_yaml(export_to_yaml(sc))
    pool = list(sc2.transitions)
    for t in pool:
        sc2.remove_transition(t)
    for t in sc.transitions:
        m = next((u for u in pool if u == t), None)
        if m is None:
            # (not found: kept as it came back, at the end; what differs shows in the run)
            continue
        pool = [u for u in pool if u is not m]
        sc2.add_transition(m)
    for u in pool:
        sc2.add_transition(u)
    return sc2


class InterpProp(Prop):
    n_ops = 30
    with_contracts = 0.0
    anomaly_tags = ()       # which of the harness's own observations ('macro', 'meta') this property owns
    edited = 0.1            # share of cases whose statechart was used, edited through the API, and used again
    ignore_contract = False
    trusted = ['code fragments: Python subset interpreted by the model (harness/encode.py, Model/Py.lean)']

    def knobs(self, rnd, tier):
        return gen.Knobs(contracts=self.with_contracts)

    def make_ops(self, rnd, knobs, sc):
        return gen.gen_ops(rnd, knobs, self.n_ops)

    scale = 0.004           # share of cases on a very deep / very wide / bushy statechart (gen.scale_chart)

    def gen_case(self, rnd, tier):
        if self.scale and rnd.random() < self.scale * (3 if tier == 'thorough' else 1):
            sc, ops1 = gen.scale_chart(rnd)
            enc = ChartEnc(sc)
            payload = {'kind': 'interp', 'charts': [enc.json], 'via_yaml': False,
                       'ops': [['create', 0, self.ignore_contract, [], 0]] + ops1}
            return Case(payload, {'charts': [sc]}, model_ok=enc.supported)
        kn = self.knobs(rnd, tier)
        g = gen.ChartGen(rnd, kn)
        sc = g.build()
        self.post_build(rnd, g, sc)
        history = None
        if self.edited and rnd.random() < self.edited:
            # a statechart with a past: used, restructured through the editing API, used again
            base = ChartEnc(sc).json
            gen.warm(sc)
            edits = gen.plan_edits(rnd, sc, kn.wf)
            if edits is None:
                sc = chart_from_json(base)
            else:
                history = {'base': base, 'edits': edits}
        enc = ChartEnc(sc)
        ops = [['create', 0, self.ignore_contract, [], 0]] + self.make_ops(rnd, kn, sc)
        if self.decoy and rnd.random() < self.decoy:
            ops = self.add_decoy(rnd, ops)
        payload = {'kind': 'interp', 'charts': [enc.json], 'ops': ops}
        if g.bad_construction:
            payload['construction_spec'] = g.bad_construction[:3]
        if history:
            payload['history'] = history
        return Case(payload, {'charts': [sc]}, model_ok=enc.supported)

    def post_build(self, rnd, g, sc):
        pass

    decoy = 0.0     # share of cases in which a second interpreter of the same statechart object is stepped in between

    def add_decoy(self, rnd, ops):
        """a second interpreter of the very same Statechart object (slot 1), queued and executed at times of its own
        between the operations of the first: nothing of it may show in the first (whatever is remembered per
        interpreter — times, memories, `__old__`, sent events, flags — is per interpreter)"""
        out = [ops[0], ['create', 0, ops[0][2], ops[0][3], 0]]
        t2 = 0
        for op in ops[1:]:
            out.append(op)
            while rnd.random() < 0.4:
                if rnd.random() < 0.4:
                    out.append(['queue', 1, {'ev': rnd.choice(gen.EVENTS), 'data': [['v', rnd.randint(0, 4)], ['b', rnd.random() < 0.5]]}])
                else:
                    t2 += rnd.choice([0, 1, 2, 3, 5])
                    out.append(['exec', 1, t2])
        return out

    def rebuild(self, payload):
        if payload.get('history'):
            sc = chart_from_json(payload['history']['base'])
            gen.warm(sc)
            gen.apply_edits(sc, payload['history']['edits'], check=True)
            payload['charts'] = [ChartEnc(sc).json]
            return {'charts': [sc]}
        charts = [chart_from_json(j) for j in payload['charts']]
        # both sides must see the same chart again: re-encode what was rebuilt
        payload['charts'] = [ChartEnc(sc).json for sc in charts]
        return {'charts': charts}

    def run_impl(self, case):
        if case.payload.get('history'):
            # a statechart with a past is run as the very object that has it (a copy is a new object:
            # whatever is remembered per object would be forgotten)
            charts = list(case.aux['charts'])
        else:
            charts = [copy.deepcopy(sc) for sc in case.aux['charts']]
        case.aux.pop('oracle_charts', None)
        if self.via_yaml and via_yaml(case.payload):
            # the statechart reaches the interpreter as a YAML document (exported, imported again): the same
            # statechart (C11) — the oracles go on speaking about the statechart as it was declared
            case.aux['oracle_charts'] = [copy.deepcopy(sc) for sc in case.aux['charts']]
            charts = [through_yaml(sc) for sc in charts]
        case.aux['run_charts'] = charts
        obs, world = impl.run_case(case.payload, charts)
        return obs

    via_yaml = True

    # ---- what is compared between model and implementation ------------------------------------
    # Only the observables the property's theorems speak about: a change to the code that leaves
    # them alone must not raise an alarm for *this* property (it will for the one it breaks).
    cmp_eff = None          # kinds of effect-log entries compared (None = all, () = none)
    cmp_meta = None         # names of the meta-events compared when 'meta' is in cmp_eff (None = all)
    cmp_step = None         # micro-step fields compared (None = all): event transition entered exited sent
    cmp_slot = None         # interpreter fields compared (None = all): config ctx time final legal
    cmp_callbacks = True    # what recording callables received
    cmp_err = 'full'        # 'full' | 'class' | None
    cmp_time = True         # MacroStep.time
    cmp_sort_guards = False # compare guard evaluations as a multiset
    cmp_outcome = True      # kind of outcome of execute_once (step / none / error); False: nothing of the call

    @staticmethod
    def full_view(obs):
        """everything observed (minus the model-side `unsupported` flag)"""
        o = json.loads(json.dumps(obs))
        for ob in o.get('obs', []):
            for sl in (ob.get('world') or {}).get('slots', []):
                sl.pop('unsupported', None)
        return o

    def normalize(self, obs):
        o = json.loads(json.dumps(obs))
        for ob in o.get('obs', []):
            w = ob.get('world') or {}
            w.pop('anomalies', None)             # the harness's own channel
            w.pop('deliveries', None)
            for sl in w.get('slots', []):
                sl.pop('unsupported', None)      # a model-side flag
                if self.cmp_slot is not None:
                    for k in list(sl):
                        if k not in self.cmp_slot:
                            del sl[k]
            if not self.cmp_callbacks:
                w.pop('callbacks', None)
            r = ob.get('r')
            if isinstance(r, dict):
                r.pop('oldchk', None)           # implementation-side channel for the `__old__` oracle
            if isinstance(r, dict) and 'outcome' in r and not self.cmp_outcome:
                ob['r'] = None
                r = None
            if isinstance(r, dict) and 'outcome' in r:
                if 'eff' in r and self.cmp_eff is not None:
                    r['eff'] = [e for e in r['eff'] if e[0] in self.cmp_eff and
                                (e[0] != 'meta' or self.cmp_meta is None or e[1]['ev'] in self.cmp_meta)]
                if 'eff' in r and self.cmp_sort_guards:
                    gs = sorted((json.dumps(e, sort_keys=True) for e in r['eff'] if e[0] == 'guard'))
                    r['eff'] = [e for e in r['eff'] if e[0] != 'guard'] + [json.loads(g) for g in gs]
                if r.get('step'):
                    if not self.cmp_time:
                        r['step'].pop('time', None)
                    if self.cmp_step is not None:
                        for m in r['step']['steps']:
                            for k in list(m):
                                if k not in self.cmp_step:
                                    del m[k]
                if r.get('err') is not None:
                    if self.cmp_err is None:
                        r['err'] = None
                    elif self.cmp_err == 'class':
                        r['err'] = {'class': r['err'].get('class')}
        return o

    def post_oracle(self, case, obs, res):
        """observations of the harness's own listeners that this property owns"""
        if res.violations or not self.anomaly_tags:
            return
        for k, ob in enumerate(obs.get('obs', [])):
            for tag, text in (ob.get('world') or {}).get('anomalies', []):
                if tag in self.anomaly_tags:
                    res.violations.append('op %d: %s' % (k, text))
                    return

    # ---- oracle skeleton: walk the ops of slot 0 ----------------------------------------------
    owns_construction = False   # the property speaks about the transitions as the client declared them

    def oracle(self, case, obs, res):
        if self.owns_construction and case.payload.get('construction_spec'):
            bad = gen.construction_faults(case.payload['construction_spec'])
            if bad:
                res.violations.append('the statechart executed is not the one declared: %s' % bad[0])
                return
        for c0 in case.aux.get('charts', []):
            if getattr(c0, '_vp_edit_error', None):
                res.violations.append('while the statechart was edited through the API (a valid edit of a valid statechart): %s'
                                      % c0._vp_edit_error)
                return
        sc = (case.aux.get('oracle_charts') or case.aux['run_charts'])[0]
        trans = list(sc.transitions)
        gh = Ghost()
        prev_world = None
        for k, (op, ob) in enumerate(zip(case.payload['ops'], obs['obs'])):
            world = ob['world']
            r = ob['r']
            if op[0] == 'queue' and op[1] == 0:
                t = prev_world['slots'][0]['time'] if prev_world else 0
                gh.add(False, t + ev_delay(op[2]), op[2])
            elif op[0] == 'queuemany' and op[1] == 0:
                t = prev_world['slots'][0]['time'] if prev_world else 0
                for e in op[2]:
                    gh.add(False, t + ev_delay(e), e)
            elif op[0] == 'exec' and op[1] == 0:
                cfg0 = prev_world['slots'][0]['config'] if prev_world else []
                info = {'k': k, 'sc': sc, 'trans': trans, 'cfg0': cfg0, 'r': r, 'clock': op[2],
                        'slot0': prev_world['slots'][0] if prev_world else None,
                        'slot1': world['slots'][0], 'ghost': gh, 'op': op, 'world0': prev_world,
                        'world1': world}
                self.check_exec(info, res)
                self.advance_ghost(info)
            else:
                self.check_other(op, ob, prev_world, gh, res)
            prev_world = world
        if not res.features:
            res.features.add('no-feature')

    def check_exec(self, info, res):
        pass

    def check_other(self, op, ob, prev_world, gh, res):
        pass

    def advance_ghost(self, info):
        gh, r = info['ghost'], info['r']
        out = r.get('outcome')
        if out == 'error':
            if r['err']['class'] not in ('NonDeterminismError', 'ConflictingTransitionsError'):
                gh.clean = False
            gh.initialized = True
            # the step was interrupted: what it announced before that has happened — the event it said it
            # consumed is consumed, the events it said were sent are queued
            t = info['clock']
            for m in oracles.meta_effects(r.get('eff', [])):
                if m['ev'] == 'event consumed':
                    k = gh.next(t)
                    ev = dict(map(tuple, m['data'])).get('event')
                    if k is not None and k['ev'] == ev:
                        gh.tickets.remove(k)
                    else:
                        gh.qclean = False
                elif m['ev'] == 'event sent':
                    ev = dict(map(tuple, m['data'])).get('event')
                    if isinstance(ev, dict):
                        gh.add(True, t + ev_delay(ev), ev)
                    else:
                        gh.qclean = False
            return
        t = info['clock']
        if out == 'step':
            step = r['step']
            ev = oracles.step_event(step)
            if ev is not None:
                k = gh.next(t)
                if k is not None:
                    gh.tickets.remove(k)
            snap = set(info['cfg0'])
            sc = info['sc']
            for m in step['steps']:
                cur = set(snap)
                for s in m['exited']:
                    if isinstance(sc.state_for(s), oracles.CompoundState):
                        gh.last_exit[s] = (cur & set(sc.children_for(s)), cur & set(oracles.tree(sc).descendants_for(s)))
                    snap.discard(s)
                if m['transition'] is not None:
                    gh.idle_at[info['trans'][m['transition']].source] = t
                for s in m['entered']:
                    snap.add(s)
                    gh.entered_at[s] = t
                    gh.idle_at[s] = t
                for e in m['sent']:
                    if e['internal']:
                        gh.add(True, t + ev_delay(e['event']), e['event'])
        gh.initialized = True
        gh.final = info['slot1']['final']

    # ---- shrinking -------------------------------------------------------------------------------
    def shrink_candidates(self, case):
        p = case.payload
        ops = p['ops']
        # drop a suffix, then single ops
        for cut in (len(ops) // 2, len(ops) - 1):
            if 1 < cut < len(ops):
                q = copy.deepcopy(p)
                q['ops'] = ops[:cut]
                yield q
        for i in range(len(ops) - 1, 0, -1):
            if ops[i][0] in ('create', 'bindprop', 'bind', 'bindcb', 'attach'):
                continue
            q = copy.deepcopy(p)
            del q['ops'][i]
            yield q
        if p.get('history'):
            # the chart is what the editing history produced: try without the history, else keep it whole
            q = copy.deepcopy(p)
            del q['history']
            yield q
            return
        # drop transitions
        ch = p['charts'][0]
        for i in range(len(ch['transitions'])):
            q = copy.deepcopy(p)
            del q['charts'][0]['transitions'][i]
            for j, t in enumerate(q['charts'][0]['transitions']):
                t['id'] = j
            yield q
        # drop code / contracts
        for si, s in enumerate(ch['states']):
            for fld in ('on_entry', 'on_exit'):
                if s.get(fld):
                    q = copy.deepcopy(p)
                    q['charts'][0]['states'][si][fld] = None
                    yield q
            for fld in ('pre', 'post', 'inv'):
                if s.get(fld):
                    q = copy.deepcopy(p)
                    q['charts'][0]['states'][si][fld] = []
                    yield q
        for ti, t in enumerate(ch['transitions']):
            for fld in ('pre', 'post', 'inv'):
                if t.get(fld):
                    q = copy.deepcopy(p)
                    q['charts'][0]['transitions'][ti][fld] = []
                    yield q
            if t.get('action'):
                q = copy.deepcopy(p)
                q['charts'][0]['transitions'][ti]['action'] = None
                yield q
        # drop leaf states without transitions touching them
        used = set()
        for t in ch['transitions']:
            used.add(t['source'])
            used.add(t.get('target'))
        for s in ch['states']:
            used.add(s.get('initial'))
            used.add(s.get('memory'))
        kids = {pp: l for pp, l in ch['children']}
        for si, s in enumerate(ch['states']):
            n = s['name']
            if n in used or kids.get(n):
                continue
            par = dict(ch['parent']).get(n)
            if par is None:
                continue
            sibs = kids.get(par, [])
            if len(sibs) <= 1:
                continue
            q = copy.deepcopy(p)
            c = q['charts'][0]
            del c['states'][si]
            c['parent'] = [x for x in c['parent'] if x[0] != n]
            c['children'] = [[pp, [y for y in l if y != n]] for pp, l in c['children'] if pp != n]
            yield q
