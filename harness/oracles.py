"""Specification-level oracles, evaluated on the *implementation's* observations (JSON) with the
statechart's public tree queries.  They are independent of the Lean model: each recomputes what the
property says should have happened from the configuration before the step and the effect log."""
import itertools

from sismic.model import (CompoundState, DeepHistoryState, FinalState, OrthogonalState,
                          ShallowHistoryState)


class Tree:
    """The hierarchy of a statechart as the oracles see it: computed here from the parent of every
    state, never through the implementation's own `ancestors_for` / `descendants_for` / `depth_for` /
    `least_common_ancestor` (which are part of what is being checked, and may be cached)."""

    def __init__(self, sc):
        self.parent = {n: sc.parent_for(n) for n in sc.states}
        self.kids = {n: [] for n in self.parent}
        for n, p in self.parent.items():
            if p is not None:
                self.kids.setdefault(p, []).append(n)

    def ancestors_for(self, n):
        out, seen = [], set()
        p = self.parent.get(n)
        while p is not None and p not in seen:
            out.append(p)
            seen.add(p)
            p = self.parent.get(p)
        return out

    def descendants_for(self, n):
        out, seen, todo, i = [], set(), list(self.kids.get(n, [])), 0
        while i < len(todo):
            x = todo[i]
            i += 1
            if x in seen:
                continue
            seen.add(x)
            out.append(x)
            todo += self.kids.get(x, [])
        return out

    def depth_for(self, n):
        return len(self.ancestors_for(n)) + 1

    def parent_for(self, n):
        return self.parent.get(n)

    def children_for(self, n):
        return list(self.kids.get(n, []))


_TREES = {}


def tree(sc):
    """(cached per statechart object and parent map)"""
    key = id(sc)
    sig = tuple((n, sc.parent_for(n)) for n in sc.states)
    if key not in _TREES or _TREES[key][0] != sig:
        if len(_TREES) > 64:
            _TREES.clear()
        _TREES[key] = (sig, Tree(sc))
    return _TREES[key][1]


def is_hist(st):
    return isinstance(st, (ShallowHistoryState, DeepHistoryState))


def legal(sc, cfg):
    cfg = set(cfg)
    if not cfg:
        return True
    if sc.root not in cfg:
        return 'root not active'
    for s in cfg:
        p = sc.parent_for(s)
        if p is not None and p not in cfg:
            return 'parent of %s not active' % s
        st = sc.state_for(s)
        ch = [c for c in sc.children_for(s) if c in cfg]
        if isinstance(st, CompoundState) and len(ch) != 1 and (st.initial or len(ch) > 1):
            return 'compound %s has %d active children' % (s, len(ch))
        if isinstance(st, OrthogonalState) and len(ch) != len(sc.children_for(s)):
            return 'orthogonal %s misses children' % s
        if is_hist(st):
            return 'history %s active' % s
    return True


def fires_spec(sc, trans, cfg, ev_name, gv):
    """ids of the transitions the documented semantics fires. gv(tid, exposed) -> bool"""
    def enabled(i, t):
        if t.source not in cfg:
            return False
        if t.event is None:
            return t.guard is None or gv(i, False)
        return ev_name is not None and t.event == ev_name and (t.guard is None or gv(i, True))
    en = [(i, t) for i, t in enumerate(trans) if enabled(i, t)]
    comp = [(i, t) for i, t in en if t.event is None] or en
    res = []
    for i, t in comp:
        if any(t.source in tree(sc).ancestors_for(u.source) for _, u in comp):
            continue
        if any(u.source == t.source and u.priority > t.priority for _, u in comp):
            continue
        res.append(i)
    return res


def sub(sc, x):
    return [x] + tree(sc).descendants_for(x)


def classify(sc, ts):
    """expected outcome for the selected transitions: 'nondet' | 'conflict' | 'ok'"""
    nondet = conflict = False
    for t1, t2 in itertools.combinations(ts, 2):
        s1, s2 = t1.source, t2.source
        sep = None
        if s1 != s2 and s1 not in tree(sc).ancestors_for(s2) and s2 not in tree(sc).ancestors_for(s1):
            a1 = tree(sc).ancestors_for(s1)
            a2 = tree(sc).ancestors_for(s2)
            common = [a for a in a1 if a in a2]
            if common and isinstance(sc.state_for(common[0]), OrthogonalState):
                lca = common[0]
                r1 = [x for x in [s1] + a1 if sc.parent_for(x) == lca][0]
                r2 = [x for x in [s2] + a2 if sc.parent_for(x) == lca][0]
                sep = (r1, r2)
        if sep is None:
            nondet = True
        else:
            for t, r in ((t1, sep[0]), (t2, sep[1])):
                if t.target is not None and t.target not in sub(sc, r):
                    conflict = True
    return 'nondet' if nondet else 'conflict' if conflict else 'ok'


PURE = __import__('re').compile(r"^(?:\s|\d+|True|False|not|and|or|event\.[vb]|x|y|seen|last|[vck]\d+|[%<>=!()+\-*])+$")


def pure_eval(text, ctx, event):
    """The value of a guard / condition that reads nothing but context variables and the parameters `v`, `b` of
    the exposed event, computed by the harness itself (`ctx`: list of [name, value] pairs, `event`: protocol
    event or None).  Returns None when the text is not of that kind, or cannot be evaluated."""
    if not text or not PURE.match(text):
        return None
    ns = {k: v for k, v in ctx if isinstance(v, (bool, int))}
    if 'event' in text:
        if event is None:
            return None
        import types
        d = dict(map(tuple, event['data']))
        if not all(isinstance(d.get(k), (bool, int)) for k in ('v', 'b') if ('event.' + k) in text):
            return None
        ns['event'] = types.SimpleNamespace(**{k: d[k] for k in ('v', 'b') if k in d})
    try:
        return bool(eval(text, {'__builtins__': {}}, ns))     # (texts written by the generator only)
    except Exception:       # noqa
        return None


def guard_table(eff):
    """{(tid, exposed?): result} from the guard entries of an effect log"""
    tab = {}
    for e in eff:
        if e[0] == 'guard':
            tab[(e[1], e[2] is not None)] = e[3]
    return tab


def step_event(step):
    for m in step['steps']:
        if m['event'] is not None:
            return m['event']
    return None


def step_transitions(step):
    return [m['transition'] for m in step['steps'] if m['transition'] is not None]


def replay_effects(step):
    """the exit / action / entry entries the MacroStep promises, in order"""
    out = []
    for m in step['steps']:
        out += [['exit', s] for s in m['exited']]
        if m['transition'] is not None:
            out.append(['action', m['transition'], m['event']])
        out += [['entry', s] for s in m['entered']]
    return out


def exec_effects(eff):
    return [e for e in eff if e[0] in ('exit', 'action', 'entry')]


def meta_effects(eff):
    return [e[1] for e in eff if e[0] == 'meta']


ANNOUNCES = {'entry': 'state entered', 'exit': 'state exited', 'action': 'transition processed'}


def announced_late(eff):
    """Listeners hear of each thing when it happened: the entry code of a state, the exit code of a state, the
    action of a transition is announced before the next piece of code of the statechart runs.  Returns a
    description of the first piece of code that ran while an announcement was still owed, or None."""
    owed = None
    for e in eff:
        if e[0] in ANNOUNCES:
            if owed is not None:
                return '%s ran before %r of %s was announced' % (e[:2], ANNOUNCES[owed[0]], owed[1])
            owed = e
        elif e[0] == 'meta' and owed is not None and e[1]['ev'] == ANNOUNCES[owed[0]]:
            owed = None
    return None


def wf_json(j):
    """DESIGN.md §2 W1–W8 on the protocol form of a chart — an independent re-implementation of the
    Lean decision procedure `wfB` (lean/Sismic/Proofs/WFCheck.lean); the two are compared on every
    `create` op."""
    states = j['states']
    names = [s['name'] for s in states]
    n = len(names)
    by_name = {}
    for s in states:
        by_name.setdefault(s['name'], s)

    def parent_for(x):
        for k, v in j['parent']:
            if k == x:
                return v
        return None

    def children_for(x):
        for k, v in j['children']:
            if k == x:
                return v
        return []

    def kind(x):
        s = by_name.get(x)
        return s['kind'] if s else None

    def has(x):
        return x in by_name

    def rank(x):
        for i, nm in enumerate(names):
            if nm == x:
                return i
        return 0

    def ancestors(x):
        out = []
        for _ in range(n):
            p = parent_for(x)
            if p is None:
                break
            out.append(p)
            x = p
        return out

    def lca(a, b):
        bs = ancestors(b)
        for x in ancestors(a):
            if x in bs:
                return x
        return None

    def last_before(s, l):
        cur = s
        for x in ancestors(s):
            if x == l:
                return cur
            cur = x
        return cur

    owns = ('basic', 'compound', 'orthogonal')
    # tree certificate: parents are registered before their children
    for k, v in j['parent']:
        if v is not None and not rank(v) < rank(k):
            return False
    if n == 0:
        return False
    if len(set(names)) != n:
        return False
    root = None
    for k, v in j['parent']:
        if v is None:
            root = k
            break
    if root is None or parent_for(root) is not None or not has(root):
        return False
    for k, p in j['parent']:
        if p is None:
            continue
        if not (has(k) and has(p) and kind(p) in ('compound', 'orthogonal') and k in children_for(p)):
            return False
        if kind(p) == 'orthogonal' and kind(k) is not None and kind(k) not in owns:
            return False
    for s in states:
        if not (root == s['name'] or parent_for(s['name']) is not None):
            return False
    for k, l in j['children']:
        if len(set(l)) != len(l):
            return False
        if k is not None and any(parent_for(ch) != k for ch in l):
            return False
    for s in states:
        if s['kind'] == 'compound':
            if s['initial'] is None or parent_for(s['initial']) != s['name']:
                return False
        if s['kind'] in ('shallow', 'deep'):
            p = parent_for(s['name'])
            if p is None or kind(p) != 'compound':
                return False
            m = s['memory']
            if m is None or parent_for(m) != p or m == s['name']:
                return False
    for t in j['transitions']:
        if not has(t['source']) or kind(t['source']) not in owns:
            return False
        tg = t['target']
        if tg is not None:
            if not has(tg):
                return False
            l = lca(t['source'], tg)
            if l is not None and kind(l) == 'orthogonal' and last_before(t['source'], l) != last_before(tg, l):
                return False
    return True


def calls_in_source(src, with_delay=False):
    """the `send(...)` / `notify(...)` calls of a straight-line code fragment, in the order in which
    they are executed (= textual order): [('send' | 'notify', name), ...]; None if the fragment is not
    straight-line (then nothing is claimed)"""
    import ast
    if not src:
        return []
    try:
        tree = ast.parse(src)
    except SyntaxError:
        return None
    out = []
    for stmt in tree.body:
        if not isinstance(stmt, (ast.Expr, ast.Assign, ast.AugAssign, ast.Pass)):
            return None
        for node in ast.walk(stmt):
            if isinstance(node, (ast.IfExp, ast.BoolOp, ast.Lambda)):
                return None
        calls = [n for n in ast.walk(stmt) if isinstance(n, ast.Call) and isinstance(n.func, ast.Name)
                 and n.func.id in ('send', 'notify')]
        calls.sort(key=lambda n: (n.lineno, n.col_offset))
        for n in calls:
            if not n.args or not isinstance(n.args[0], ast.Constant):
                return None
            out.append((n.func.id, n.args[0].value))
            if with_delay:
                d = [kw.value for kw in n.keywords if kw.arg == 'delay']
                lit = None
                if d:
                    try:
                        lit = ast.literal_eval(d[0])
                    except ValueError:
                        return None
                out[-1] = out[-1] + (lit,)
    return out


def sent_in_source_order(sc, trans, micro, with_delay=False):
    """what a micro step must list as sent, from the source of the code fragments it executes (exit code of
    the exited states, the action, entry code of the entered states, in that order); None = no claim"""
    frags = [getattr(sc.state_for(s), 'on_exit', None) for s in micro['exited']]
    if micro['transition'] is not None:
        frags.append(trans[micro['transition']].action)
    frags += [getattr(sc.state_for(s), 'on_entry', None) for s in micro['entered']]
    out = []
    for f in frags:
        c = calls_in_source(f, with_delay)
        if c is None:
            return None
        out += c
    return out
