"""Entry point: ./check Cxx --tier quick|thorough [--replay path]"""
import argparse
import importlib
import os
import sys
import traceback

from . import framework


def main():
    # `kill -USR1 <pid>` prints the Python stack of a check (or of one of its workers) to stderr
    try:
        import faulthandler
        import signal
        faulthandler.register(signal.SIGUSR1, all_threads=True)
    except Exception:       # noqa
        pass
    ap = argparse.ArgumentParser()
    ap.add_argument('prop')
    ap.add_argument('--tier', default=os.environ.get('VERIF_TIER', 'quick'), choices=['quick', 'thorough'])
    ap.add_argument('--replay')
    ap.add_argument('--cases', type=int)
    ap.add_argument('--jobs', type=int)
    ap.add_argument('--no-evidence', action='store_true')
    a = ap.parse_args()
    seed = int(os.environ.get('VERIF_SEED', '20260926'))
    try:
        mod = importlib.import_module('harness.props.' + a.prop.lower())
        prop = getattr(mod, a.prop.upper())()
        rc = framework.run_check(prop, a.tier, seed, replay=a.replay, jobs=a.jobs, n_cases=a.cases,
                                 write_evidence=not a.no_evidence)
    except Exception:
        traceback.print_exc()
        sys.exit(2)
    sys.exit(rc)


if __name__ == '__main__':
    main()
