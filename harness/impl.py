"""Running the real sismic (imported from /repo's working tree) on protocol cases and producing the
same observations as the model driver.  Only public extension points are used: `evaluator_klass`,
`attach`, `bind`, `bind_property_statechart`, `initial_context`, `clock`."""
import copy
import json
import pickle

from sismic.code import PythonEvaluator
from sismic.exceptions import (CodeEvaluationError, ConflictingTransitionsError, ContractError,
                               InvariantError, NonDeterminismError, PostconditionError,
                               PreconditionError, PropertyStatechartError, StatechartError)
from sismic.interpreter import Interpreter
from sismic.model import (BasicState, CompoundState, Event, FinalState, InternalEvent, MetaEvent, Statechart,
                          Transition)
from sismic.clock import Clock, SimulatedClock

from .encode import enc_event, enc_val, Unsupported
from . import oracles


class Log(list):
    pass


_REGISTRY = []


class LoggingEvaluator(PythonEvaluator):
    """A PythonEvaluator that records every call the interpreter makes to it (the effect log).
    Module-level so that interpreters using it can be pickled; the back-reference to the harness
    is not part of the pickled state."""

    def __init__(self, interpreter=None, *, initial_context=None, vp_world=None, vp_slot=None):
        super().__init__(interpreter, initial_context=initial_context)
        # the harness is reached through a registry token, so that copies (pickle, deepcopy) of
        # the interpreter keep logging without dragging the harness into the copy
        self._vp_token = len(_REGISTRY)
        _REGISTRY.append((vp_world, vp_slot))
        # the interpreter this evaluator belongs to (copied along by pickle / deepcopy): which slot of the
        # harness it occupies is looked up by identity, so that a copy placed in a slot of its own logs there
        self._vp_interp = interpreter
        self._vp_cur = None

    def _vp_log(self, entry):
        w, slot = _slot_of(self)
        if w is not None and slot == w.top:     # nested (property) interpreters do not log
            w.log.append(entry)

    def _vp_tid(self, t):
        w, slot = _slot_of(self)
        return w.tid(slot, t) if w is not None else -1

    def evaluate_guard(self, transition, event=None):
        if getattr(transition, 'guard', None) is None:
            return super().evaluate_guard(transition, event)
        try:
            r = super().evaluate_guard(transition, event)
        except Exception:
            self._vp_log(['guard', self._vp_tid(transition), enc_event(event), None])
            raise
        self._vp_log(['guard', self._vp_tid(transition), enc_event(event), bool(r)])
        return r

    def execute_action(self, transition, event=None):
        self._vp_log(['action', self._vp_tid(transition), enc_event(event)])
        return super().execute_action(transition, event)

    def execute_on_entry(self, state):
        self._vp_log(['entry', state.name])
        return super().execute_on_entry(state)

    def execute_on_exit(self, state):
        self._vp_log(['exit', state.name])
        return super().execute_on_exit(state)

    def _vp_vals(self, src):
        out = {}
        for k in ('x', 'y', 'seen', 'last', 'bag', 'cell'):
            try:
                v = src[k] if isinstance(src, dict) else getattr(src, k)
                out[k] = enc_val(v)
            except (KeyError, AttributeError):
                out[k] = 'missing'
            except Unsupported:
                out[k] = 'unsupported'
        return out

    def _vp_old(self, entry):
        """a channel of its own (never compared with the model): what the variables were when the
        interpreter asked for the preconditions of an object, and what `__old__` showed later"""
        w, slot = _slot_of(self)
        if w is not None and slot == w.top:
            w.oldlog.append(entry)

    def _vp_conds(self, kind, obj, event, it):
        oid = ['t', self._vp_tid(obj)] if isinstance(obj, Transition) else ['s', obj.name]
        if kind == 'pre':
            self._vp_old(['snap', oid, self._vp_vals(self.context)])
        # `it` yields the unsatisfied conditions lazily; each evaluation goes through
        # `_evaluate_code`, where it is logged with the owner recorded here.
        self._vp_cur = [kind, oid, enc_event(event), 0]
        w, slot = _slot_of(self)
        if w is not None and slot in w.eager_slots:
            # an evaluator that returns the unsatisfied conditions as a list, as the documentation of
            # `Evaluator.evaluate_*` describes them (used for interpreters that ignore contracts: nothing is
            # to be evaluated there at all)
            return list(it)
        return it

    def evaluate_preconditions(self, obj, event=None):
        return self._vp_conds('pre', obj, event, super().evaluate_preconditions(obj, event))

    def evaluate_invariants(self, obj, event=None):
        return self._vp_conds('inv', obj, event, super().evaluate_invariants(obj, event))

    def evaluate_postconditions(self, obj, event=None):
        return self._vp_conds('post', obj, event, super().evaluate_postconditions(obj, event))

    def _evaluate_code(self, code, *, additional_context=None):
        cur = getattr(self, '_vp_cur', None)
        in_cond = (cur is not None and additional_context is not None
                   and 'received' in additional_context)
        if not in_cond:
            return super()._evaluate_code(code, additional_context=additional_context)
        kind, oid, ev, idx = cur
        cur[3] = idx + 1
        if kind != 'pre' and isinstance(code, str) and '__old__' in code:
            old = additional_context.get('__old__')
            self._vp_old(['old', kind, oid, idx, None if old is None else self._vp_vals(old)])
        try:
            r = super()._evaluate_code(code, additional_context=additional_context)
        except Exception:
            self._vp_log(['cond', kind, oid, idx, ev, None])
            raise
        self._vp_log(['cond', kind, oid, idx, ev, bool(r)])
        return r

    def __getstate__(self):
        d = super().__getstate__()
        d['_vp_cur'] = None
        return d


def make_evaluator(world, slot):
    def klass(interpreter=None, *, initial_context=None):
        return LoggingEvaluator(interpreter, initial_context=initial_context,
                                vp_world=world, vp_slot=slot)
    return klass


def err_json(world, slot, e):
    if isinstance(e, ContractError):
        obj = e.obj
        oid = ['t', world.tid(slot, obj)] if isinstance(obj, Transition) else ['s', getattr(obj, 'name', None)]
        return {'class': type(e).__name__, 'obj': oid, 'cond': e.condition}
    if isinstance(e, PropertyStatechartError):
        return {'class': 'PropertyStatechartError', 'listener': world.prop_listener_id(e.property_statechart)}
    if isinstance(e, ListenerFailure):
        return {'class': 'ListenerError', 'listener': e.lid}
    if isinstance(e, (NonDeterminismError, ConflictingTransitionsError, CodeEvaluationError,
                      StatechartError)):
        return {'class': type(e).__name__}
    if isinstance(e, (AssertionError, KeyError)):
        return {'class': 'AssertionError'}
    return {'class': 'OTHER:' + type(e).__name__, 'msg': str(e)[:200]}


class ScriptClock(Clock):
    """A clock whose value the harness sets at will (public `Clock` interface): used to move the
    clock *during* a step (C13) — the interpreter must keep using the value sampled at the call."""

    def __init__(self, value=0):
        self.value = value

    @property
    def time(self):
        return self.value


class OuterFirstInterpreter(Interpreter):
    """the documented variation of the semantics: outer-first / source-state (docs/execution.rst), obtained by
    overriding the selection hook with the flag it provides for that"""

    def _select_transitions(self, event, states, *, eventless_first=True, inner_first=True):
        return super()._select_transitions(event, states, eventless_first=eventless_first, inner_first=False)


class TickClock(Clock):
    """A clock that advances by one unit each time it is read (a deterministic stand-in for a wall clock: time
    passes between two readings).  Who reads it, and how often, shows in every later reading."""

    def __init__(self, value=0):
        self.value = value

    @property
    def time(self):
        self.value += 1
        return self.value


class ListenerFailure(Exception):
    def __init__(self, lid):
        super().__init__(lid)
        self.lid = lid


def _slot_of(evaluator):
    w, slot = _REGISTRY[evaluator._vp_token]
    if w is not None:
        it = getattr(evaluator, '_vp_interp', None)
        for i, x in enumerate(w.slots):
            if x is it:
                return w, i
    return w, slot


class Snap:
    """an observation encoded when it was made"""
    def __init__(self, j):
        self.j = j


class _Mailbox:
    """an object whose bound method is given away as a callable"""

    def __init__(self, f):
        self.f = f

    def deliver(self, event):
        return self.f(event)


class _Inbox:
    """a callable object with attributes of its own (one of them happens to be called `queue`)"""

    def __init__(self, f):
        self.f = f
        self.queue = []         # (its own business: what it was given and has not looked at yet)

    def __call__(self, event):
        return self.f(event)


class ImplWorld:
    """Mirror of `Sismic.World`: slots = real interpreters."""

    def __init__(self, charts, clock_mover=False):
        self.clock_mover = clock_mover
        self.charts = charts            # list of Statechart
        self.slots = []                 # Interpreter
        self.trans = []                 # per slot: list of transition objects (identity index)
        self.listeners = []             # listener objects by id
        self.listener_spec = []
        self.callbacks = []
        self.cbfuns = {}                # one callable object per recording callable (bound twice = the same object)
        self.eager_slots = set()        # interpreters whose evaluator materialises the unsatisfied conditions
        self.cur_clock = None           # clock value of the execute_once under way
        self.outer_first = False        # interpreters follow the outer-first variation
        self.tick_clock = False         # interpreters get a TickClock, which the ops do not set
        self.running_clock = False      # interpreters get a playing SimulatedClock over a scripted real time
        self.prop_instance = False      # property statecharts are bound as ready-made interpreters (deprecated form)
        self.peek_config = False        # the harness's listener reads `interpreter.configuration` at every meta-event
        self.method_targets = False     # recording callables are bound as methods of otherwise unreferenced objects
        self.pair_mode = False          # (C18) a snapshot that cannot be taken is an observation, not a crash
        self.prop_ignore = False        # (C09) the ready-made property interpreter ignores contracts too
        self.real = 0
        self.deliveries = None          # when a list: global order in which the recording callables were called
        self.log = Log()
        self.oldlog = []
        self.anomalies = []         # things no property allows, noticed by the harness's own observers
        self.unsupported = False
        self.meta_loggers = {}

    # ---- helpers
    def tid(self, slot, t):
        for i, u in enumerate(self.trans[slot]):
            if u is t:
                return i
        return -1

    def prop_listener_id(self, interp):
        for lid, spec in enumerate(self.listener_spec):
            if spec[0] == 'property' and self.slots[spec[1]] is interp:
                return lid
        return -1

    def _cb(self, k):
        while len(self.callbacks) <= k:
            self.callbacks.append([])
        return self.callbacks[k]

    def _cbfun(self, k):
        lst = self._cb(k)
        if k not in self.cbfuns:
            def record(event):
                # what the callable was given, as it was when it was called
                lst.append(Snap(enc_event(event)))
                if self.deliveries is not None:
                    self.deliveries.append(k)
            self.cbfuns[k] = record
        return self.cbfuns[k]

    def _new_slot(self, interp):
        self.slots.append(interp)
        self.trans.append(list(interp.statechart.transitions))
        return len(self.slots) - 1

    def _meta_logger(self, slot):
        def listener(event):
            if slot == self.top:
                self.log.append(['meta', enc_event(event)])
                # while a step is under way — from its first announcement on — the interpreter's time is the clock
                # value sampled when the step was called
                if self.cur_clock is not None and not self.tick_clock:
                    try:
                        seen = self.slots[slot].time
                    except Exception:       # noqa
                        seen = None
                    if seen != self.cur_clock and not any(a[0] == 'time' for a in self.anomalies):
                        self.anomalies.append(['time', 'while %r was announced interpreter.time was %r; the step was called at clock '
                                               'time %r' % (event.name, seen, self.cur_clock)])
                if self.peek_config:
                    # a listener may look at the interpreter: a state is announced as entered once it is in the
                    # configuration, as exited once it is not
                    try:
                        cfg = list(self.slots[slot].configuration)
                    except Exception:       # noqa
                        cfg = None
                    if cfg is not None and not any(a[0] == 'config' for a in self.anomalies):
                        st = event.data.get('state')
                        if event.name == 'state entered' and st not in cfg:
                            self.anomalies.append(['config', "while 'state entered' of %r was announced the configuration was %r" % (st, cfg)])
                        elif event.name == 'state exited' and st in cfg:
                            self.anomalies.append(['config', "while 'state exited' of %r was announced the configuration was %r" % (st, cfg)])
                # every parameter of a meta-event is readable as an attribute, `None` values included
                for k, v in event.data.items():
                    try:
                        same = getattr(event, k) is v
                    except AttributeError:
                        same = False
                    if not same:
                        self.anomalies.append(['meta', 'attribute %r of meta-event %r is not readable (value %r)'
                                               % (k, event.name, v)])
        listener._vp_meta_logger = True
        return listener

    # ---- observation
    def slot_json(self, i):
        it = self.slots[i]
        ctx = []
        for k, v in it.context.items():
            if callable(v):
                continue
            try:
                ctx.append([k, enc_val(v, floats=True)])
            except Unsupported:
                ctx.append([k, {'unsupported': repr(v)[:80]}])
        ctx.sort(key=lambda p: p[0])
        t = it.time
        # (`configuration` is computed afresh at every reading: what a client does to the list it was given is
        #  nobody's business)
        given = it.configuration
        config = list(given)
        self._handed('the configuration of interpreter %d' % i, given)
        return {'config': config, 'ctx': ctx, 'time': t,
                'final': bool(it.final), 'legal': oracles.legal(it.statechart, list(it.configuration)) is True,
                'unsupported': False}

    def _handed(self, what, given):
        """a list the interpreter hands out says what was the case when it was asked: a client may keep it, and
        nothing the interpreter does later shows in it (the harness itself never writes to it)"""
        if isinstance(given, list):
            kept = self.__dict__.setdefault('_kept', [])
            kept.append((what, given, list(given)))
            del kept[:-40]

    def _check_handed(self):
        for what, given, was in self.__dict__.get('_kept', []):
            if given != was and not any(a[0] == 'macro' and 'handed out' in a[1] for a in self.anomalies):
                self.anomalies.append(['macro', 'a list handed out earlier (%s) changed afterwards: it said %s, it says %s now'
                                       % (what, json.dumps(was, default=repr)[:160], json.dumps(given, default=repr)[:160])])

    def world_json(self):
        self._check_handed()
        # a mapping given as `initial_context` is the client's: nobody writes into it
        for mine, was in self.__dict__.get('_ctx_objects', {}).values():
            if mine != was and not any(a[0] == 'ctx' for a in self.anomalies):
                self.anomalies.append(['ctx', 'the mapping given as initial_context was written to: it held %s, it holds %s now'
                                       % (sorted(was.items()), sorted((k, repr(v)[:30]) for k, v in mine.items())[:12])])
        w = {'slots': [self.slot_json(i) for i in range(len(self.slots))],
             'callbacks': [[e.j if isinstance(e, Snap) else enc_event(e) for e in cb] for cb in self.callbacks]}
        if self.anomalies:
            w['anomalies'] = list(self.anomalies)
        if self.deliveries is not None:
            w['deliveries'] = list(self.deliveries)
            del self.deliveries[:]
        return w

    def micro_json(self, slot, m):
        return {'event': enc_event(m.event),
                'transition': None if m.transition is None else self.tid(slot, m.transition),
                'entered': list(m.entered_states), 'exited': list(m.exited_states),
                'sent': [{'internal': isinstance(e, InternalEvent), 'event': enc_event(e)}
                         for e in m.sent_events]}

    def macro_json(self, slot, ms):
        j = {'time': ms.time, 'steps': [self.micro_json(slot, m) for m in ms.steps]}
        # what the accessors of the MacroStep itself say (must be the aggregation of its micro steps)
        try:
            agg = {}
            for key, given in (('entered', ms.entered_states), ('exited', ms.exited_states), ('sent', ms.sent_events),
                               ('transitions', ms.transitions)):
                agg[key] = list(given)
                self._handed('%s of a macro step of interpreter %d' % (key, slot), given)
            agg['sent'] = [enc_event(e) for e in agg['sent']]
            agg['transitions'] = [self.tid(slot, t) for t in agg['transitions']]
            agg['event'] = enc_event(ms.event)
        except Exception as e:      # noqa
            agg = {'error': repr(e)[:200]}
        exp = {'entered': [s for m in j['steps'] for s in m['entered']],
               'exited': [s for m in j['steps'] for s in m['exited']],
               'sent': [e['event'] for m in j['steps'] for e in m['sent']],
               'transitions': [m['transition'] for m in j['steps'] if m['transition'] is not None],
               'event': next((m['event'] for m in j['steps'] if m['event'] is not None), None)}
        if agg != exp:
            self.anomalies.append(['macro', 'MacroStep accessors disagree with its micro steps: %s vs %s'
                                   % (json.dumps(agg)[:300], json.dumps(exp)[:300])])
        else:
            # looking at a macro step does not change it: a second look gives the same, the micro steps too
            try:
                again = {'entered': list(ms.entered_states), 'exited': list(ms.exited_states),
                         'sent': [enc_event(e) for e in ms.sent_events]}
                steps2 = [self.micro_json(slot, m) for m in ms.steps]
            except Exception as e:      # noqa
                again, steps2 = {'error': repr(e)[:200]}, None
            if again != {k: agg[k] for k in ('entered', 'exited', 'sent')} or steps2 != j['steps']:
                self.anomalies.append(['macro', 'reading a MacroStep changed it: second reading %s, micro steps %s; first %s, %s'
                                       % (json.dumps(again)[:200], json.dumps([[m['entered'], m['exited']] for m in steps2 or []])[:200],
                                          json.dumps({k: agg[k] for k in ('entered', 'exited')})[:200],
                                          json.dumps([[m['entered'], m['exited']] for m in j['steps']])[:200])])
        return j

    # ---- ops
    def op(self, op):
        k = op[0]
        r = getattr(self, 'op_' + k)(*op[1:])
        return {'r': r, 'world': self.world_json()}

    def op_create(self, ci, ignore, ctx0, t0):
        slot = len(self.slots)
        if self.clock_mover:
            clock = ScriptClock(t0)
        elif self.tick_clock:
            clock = TickClock(t0)
        elif self.running_clock:
            # a SimulatedClock that is *playing*: `sismic.clock.clock.time` is scripted (see run_case), real time
            # and statechart time coincide
            self.real = t0
            clock = SimulatedClock()
            clock.time = t0
            clock.start()
        else:
            clock = SimulatedClock()
            clock.time = t0
        ok = True
        if ignore:
            self.eager_slots.add(slot)
        try:
            # the same non-empty initial context is given as the same dict object to every interpreter
            # of the case (a client reusing its configuration mapping): nobody may write into it
            shared = self.__dict__.setdefault('_ctx_objects', {})
            key = repr(ctx0)
            if ctx0 and key not in shared:
                shared[key] = ({k: v for k, v in ctx0}, {k: v for k, v in ctx0})
            initial = shared[key][0] if ctx0 else {}
            klass = OuterFirstInterpreter if self.outer_first else Interpreter
            it = klass(self.charts[ci], evaluator_klass=make_evaluator(self, slot),
                       initial_context=initial, clock=clock,
                       ignore_contract=ignore)
            self._ctx_written = bool(ctx0) and shared[key][0] != shared[key][1]
        except CodeEvaluationError:
            # preamble failed: the constructor raised, there is no interpreter
            raise
        self._new_slot(it)
        self.top = slot
        ml = self._meta_logger(slot)
        self.meta_loggers[slot] = ml
        it.attach(ml)
        if self.clock_mover:
            def mover(event, clock=clock):
                if event.name in ('state entered', 'transition processed', 'event consumed'):
                    clock.value += 7
            it.attach(mover)
        r = {'ok': ok, 'wf': self._wf(ci)}
        if getattr(self, '_ctx_written', False):
            r['initial_context_modified'] = True
        return r

    def _wf(self, ci):
        """W1–W8 of the chart (computed on its protocol form, cached)"""
        cache = self.__dict__.setdefault('_wf_cache', {})
        if ci not in cache:
            from .encode import ChartEnc
            cache[ci] = oracles.wf_json(ChartEnc(self.charts[ci]).json)
        return cache[ci]

    def op_setclock(self, i, t, how=None):
        """move the clock without executing (the interpreter's own time stays); `how == 'new'`: the interpreter is
        given another clock object that shows `t`"""
        if how == 'new' and not (self.tick_clock or self.running_clock):
            if isinstance(self.slots[i].clock, ScriptClock):
                self.slots[i].clock = ScriptClock(t)
            else:
                c = SimulatedClock()
                c.time = t
                self.slots[i].clock = c
            return None
        self._set_clock(self.slots[i], t)
        return None

    def op_queue(self, i, e):
        # ({'list': [...]} = a fresh list object: a mutable event parameter)
        def dec(v):
            if isinstance(v, dict) and 'list' in v:
                return list(v['list'])
            if isinstance(v, dict) and 'ev' in v:
                return Event(v['ev'], **{k: dec(x) for k, x in v['data']})
            return v
        self.slots[i].queue(Event(e['ev'], **{k: dec(v) for k, v in e['data']}))
        return None

    def op_queuemany(self, i, expanded, form):
        """`queue(e₁, e₂, …, **parameters)` in one call: `form` = [[['name', n] | ['inst', event], …], parameters];
        `expanded` (for the model and the oracles) lists the events this means, in the order given"""
        def dec(v):
            if isinstance(v, dict) and 'list' in v:
                return list(v['list'])
            return v
        args, made = [], {}
        for kind, x in form[0]:
            if kind == 'name':
                args.append(x)
                continue
            key = json.dumps(x, sort_keys=True)
            if key not in made:         # (the same event twice in one call is the same object twice)
                made[key] = Event(x['ev'], **{k: dec(v) for k, v in x['data']})
            args.append(made[key])
        self.slots[i].queue(*args, **{k: dec(v) for k, v in form[1]})
        return None

    def op_setvar(self, i, n, v):
        self.slots[i].context[n] = v
        return None

    def _set_clock(self, it, clock):
        if self.running_clock:
            self.real = clock
        elif self.tick_clock:
            pass            # it runs by itself
        elif isinstance(it.clock, ScriptClock):
            it.clock.value = clock
        elif it.clock.time != clock:
            it.clock.time = clock

    def _exec_once(self, i, clock):
        it = self.slots[i]
        self._set_clock(it, clock)
        self.top = i
        del self.log[:]
        del self.oldlog[:]
        self.cur_clock = clock
        try:
            ms = it.execute_once()
        except Exception as e:      # noqa
            return {'outcome': 'error', 'err': err_json(self, i, e)}, list(self.log)
        finally:
            self.cur_clock = None
        if ms is None:
            return {'outcome': 'none'}, list(self.log)
        return {'outcome': 'step', 'step': self.macro_json(i, ms)}, list(self.log)

    def op_exec(self, i, clock):
        r, eff = self._exec_once(i, clock)
        r['eff'] = eff
        if self.oldlog and getattr(self, 'record_old', False):
            r['oldchk'] = list(self.oldlog)
        return r

    def op_execute(self, i, clock, max_steps):
        it = self.slots[i]
        self._set_clock(it, clock)
        self.top = i
        del self.log[:]
        steps = []
        err = None
        self.cur_clock = clock
        # `Interpreter.execute` discards the steps already computed when a later one raises, so
        # the loop of `execute()` is replayed here through the public `execute_once`.
        n = 0
        while True:
            try:
                ms = it.execute_once()
            except Exception as e:   # noqa
                err = err_json(self, i, e)
                break
            if not ms:
                break
            steps.append(self.macro_json(i, ms))
            n += 1
            if 0 < max_steps == n:
                break
        self.cur_clock = None
        return {'steps': steps, 'err': err, 'eff': list(self.log)}

    def op_execute_real(self, i, clock, max_steps):
        """`Interpreter.execute(max_steps=…)` itself (implementation only: when a step raises, `execute` loses the
        steps it had collected, which the model does not)"""
        it = self.slots[i]
        self._set_clock(it, clock)
        self.top = i
        del self.log[:]
        err, steps = None, []
        self.cur_clock = clock
        try:
            got = it.execute(max_steps=max_steps) if max_steps > 0 else it.execute()
            steps = [self.macro_json(i, ms) for ms in got]
        except Exception as e:   # noqa
            err = err_json(self, i, e)
        self.cur_clock = None
        return {'steps': steps, 'err': err, 'eff': list(self.log), 'real': True}

    def _add_listener(self, i, spec, listener):
        self.listeners.append(listener)
        self.listener_spec.append(spec)
        return len(self.listeners) - 1

    def op_bind(self, i, j):
        l = self.slots[i].bind(self.slots[j])
        return self._add_listener(i, ('bind', j), l)

    def op_bindcb(self, i, k):
        target = self._cbfun(k)
        if self.method_targets:
            # the target is a bound method of an object nobody else holds on to: the binding keeps it alive
            target = _Mailbox(target).deliver if (k + i) % 2 == 0 else _Inbox(target)
        l = self.slots[i].bind(target)
        return self._add_listener(i, ('bindcb', k), l)

    def op_bindecho(self, i, k, name):
        """bind a callable that answers every event it is given by queuing an acknowledgement, which carries its own
        number, to the very interpreter that sent it (several of them: the answers come in binding order)"""
        from sismic.model import Event
        slot = self.slots[i]

        def f(event):
            slot.queue(Event(name, k=k))
        l = slot.bind(f)
        self._add_listener(i, ('bindcb', k), l)

    def op_bindmut(self, i, k):
        """bind a recording callable that, having recorded what it was given, writes into the parameters of that
        event (a relay adding a hop count): its own copy, nobody else's business"""
        cb = self._cbfun(k)

        def f(event):
            cb(event)
            event.data['hops'] = event.data.get('hops', 0) + 1
        l = self.slots[i].bind(f)
        return self._add_listener(i, ('bindcb', k), l)

    def op_bindraise(self, i, k, nth):
        """bind a recording callable that raises when it is given its `nth` event (once)"""
        cb = self._cbfun(k)
        count = [0]

        def f(event):
            cb(event)
            count[0] += 1
            if count[0] == nth:
                raise RuntimeError('bound callable %d failed' % k)
        l = self.slots[i].bind(f)
        return self._add_listener(i, ('bindcb', k), l)

    def op_binddet(self, i, k, lid):
        """bind a recording callable that, on the first event it receives, detaches listener `lid` of the same
        interpreter (bound after it) — from inside the notification"""
        cb = self._cbfun(k)
        world = self
        fired = []

        def f(event):
            cb(event)
            if not fired:
                fired.append(1)
                world.slots[i].detach(world.listeners[lid])
        l = self.slots[i].bind(f)
        return self._add_listener(i, ('bindcb', k), l)

    def op_attach(self, i, k):
        cb = self._cb(k)
        if not hasattr(self, '_attach_fn'):
            self._attach_fn = {}
        l = self._attach_fn.setdefault(k, cb.append)      # (attached twice, it is the same object twice)
        self.slots[i].attach(l)
        return self._add_listener(i, ('attach', k), l)

    def op_bindprop(self, i, ci):
        j = len(self.slots)
        world = self

        created = []

        def klass(statechart, clock=None):
            # the interpreter the listener will drive (captured here: no private attribute is read)
            kw = {}
            shared = list(world.__dict__.get('_ctx_objects', {}).values())
            if shared:
                # a client that gives all its interpreters the same configuration mapping
                kw['initial_context'] = shared[0][0]
            created.append(Interpreter(statechart, clock=clock, evaluator_klass=make_evaluator(world, j), **kw))
            return created[-1]
        if self.prop_instance:
            # the form of sismic < 1.4: a ready-made interpreter (born at the time the monitored one shows)
            import warnings
            from sismic.clock import SimulatedClock
            c0 = SimulatedClock()
            c0.time = self.slots[i].time
            if self.prop_ignore:
                # (an interpreter that ignores contracts, like all the others of this client)
                created.append(Interpreter(self.charts[ci], clock=c0, evaluator_klass=make_evaluator(world, j),
                                           ignore_contract=True))
            else:
                klass(self.charts[ci], clock=c0)
            with warnings.catch_warnings():
                warnings.simplefilter('ignore')
                l = self.slots[i].bind_property_statechart(created[-1])
        else:
            l = self.slots[i].bind_property_statechart(self.charts[ci], interpreter_klass=klass)
        prop = created[-1]
        self._new_slot(prop)
        lid = self._add_listener(i, ('property', j), l)
        return {'id': lid, 'slot': j, 'ok': True}

    def op_bindwatch(self, i, state, d):
        """bind (plainly, as a client would) a property statechart whose verdict depends on time: it fails when
        `state` stays active for `d` time units or more"""
        sc = Statechart('watch')
        sc.add_state(CompoundState('root', initial='waiting'), None)
        sc.add_state(BasicState('waiting'), 'root')
        sc.add_state(BasicState('watching'), 'root')
        sc.add_state(FinalState('failure'), 'root')
        sc.add_transition(Transition('waiting', 'watching', event='state entered', guard='event.state == %r' % state))
        sc.add_transition(Transition('watching', 'waiting', event='state exited', guard='event.state == %r' % state))
        sc.add_transition(Transition('watching', 'failure', guard='after(%d)' % d))
        # (the harness's own listener stays the last one, where `snapshot` puts it too)
        own = self.meta_loggers[i]
        self.slots[i].detach(own)
        self.slots[i].bind_property_statechart(sc)
        self.slots[i].attach(own)
        return None

    def op_detach(self, i, lid):
        self.slots[i].detach(self.listeners[lid])
        return None

    def op_snapshot(self, i, how):
        """Replace interpreter i by a pickled / deep-copied copy of itself, or (`*-keep`) take the
        copy and keep using the original (C18)."""
        if how == 'none':
            return None
        it = self.slots[i]
        # the harness's own listener closes over the harness: detach it around the copy
        own = self.meta_loggers[i]
        it.detach(own)
        # (an interpreter bound to this one is copied along with it: its harness listener is set aside too)
        others = [(j, ml) for j, ml in self.meta_loggers.items() if j != i] if self.pair_mode else []
        for j, ml in others:
            self.slots[j].detach(ml)
        try:
            if how.startswith('pickle'):
                cp = pickle.loads(pickle.dumps(it))
            else:
                cp = copy.deepcopy(it)
        except Exception as e:      # noqa
            if self.pair_mode:
                return {'error': '%s: %s' % (type(e).__name__, str(e)[:160])}
            raise
        finally:
            it.attach(own)
            for j, ml in others:
                self.slots[j].attach(ml)
        if how.endswith('-keep'):
            return None
        if how.endswith('-both'):
            # original and copy both go on, each in a slot of its own
            j = self._new_slot(cp)
            ml = self._meta_logger(j)
            self.meta_loggers[j] = ml
            cp.attach(ml)
            return j
        cp.attach(own)
        self.slots[i] = cp
        self.trans[i] = list(cp.statechart.transitions)
        return None


def run_case(case, charts, clock_mover=False):
    """charts: list of Statechart objects matching case['charts'].  Returns {'obs': [...]}"""
    w = ImplWorld(charts, clock_mover=clock_mover)
    w.record_old = bool(case.get('record_old'))
    if case.get('record_deliveries'):
        w.deliveries = []
    w.tick_clock = bool(case.get('tick_clock'))
    w.outer_first = bool(case.get('outer_first'))
    w.prop_instance = bool(case.get('prop_instance'))
    w.method_targets = bool(case.get('method_targets'))
    w.pair_mode = bool(case.get('pair'))
    w.prop_ignore = bool(case.get('prop_ignore'))
    if 'peek_config' in case:
        w.peek_config = bool(case['peek_config'])
    else:
        # in three histories out of ten (decided by a checksum of the history itself, so that a replay does the same)
        import zlib
        w.peek_config = zlib.crc32(json.dumps(case['ops'], sort_keys=True).encode()) % 10 < 3
    obs = []
    if case.get('running_clock'):
        import sismic.clock.clock as cc
        w.running_clock = True
        real_time, cc.time = cc.time, (lambda: w.real)
        try:
            for op in case['ops']:
                obs.append(w.op(op))
        finally:
            cc.time = real_time
        return {'obs': obs}, w
    for op in case['ops']:
        obs.append(w.op(op))
    return {'obs': obs}, w
