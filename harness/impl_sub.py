"""Runs one interp case from stdin on the real implementation in a fresh process (other hash seed)."""
import json
import sys

from . import impl
from .decode import chart_from_json


def main():
    case = json.load(sys.stdin)
    charts = [chart_from_json(j) for j in case['charts']]
    obs, _ = impl.run_case(case, charts)
    json.dump(obs, sys.stdout)


if __name__ == '__main__':
    main()
